import numpy as np, random, warnings
warnings.filterwarnings('ignore')
import scipy.optimize as so
from mystic import _scipy060optimize as s060
from mystic.solvers import fmin, fmin_powell
rng=random.Random(11)
res={'nm_same':0,'nm_diff':0,'pw_same':0,'pw_diff':0,'pw_sp_same':0,'pw_sp_diff':0}
ex=[]
for t in range(150):
    d=rng.randint(1,4); a=[rng.uniform(-2,2) for _ in range(d)]; w=[10**rng.uniform(-1,2) for _ in range(d)]
    kind=rng.choice(['quad','abs','cos','rosen'])
    def f(x,a=a,w=w,kind=kind):
        x=np.asarray(x,float)
        if kind=='quad': return float(np.sum(w*(x-a)**2))
        if kind=='abs': return float(np.sum(np.abs(x-a))+0.1*abs(x[0]*x[-1]))
        if kind=='cos': return float(np.sum((x-a)**2)+0.3*np.sum(np.cos(3*x)))
        return float(np.sum(100*(x[1:]-x[:-1]**2)**2+(1-x[:-1])**2)) if len(x)>1 else float((x[0]-1)**2)
    x0=[rng.choice([0.,rng.uniform(-3,3),1.]) for _ in range(d)]
    A=fmin(f,x0,full_output=1,disp=0); B=s060.fmin(f,x0,full_output=1,disp=0)
    same=(A[2],A[3])==(B[2],B[3]) and np.allclose(A[0],B[0],rtol=1e-9,atol=1e-12)
    res['nm_same' if same else 'nm_diff']+=1
    if not same: ex.append(('nm',kind,x0,A[2:4],B[2:4]))
    A=fmin_powell(f,x0,full_output=1,disp=0); B=s060.fmin_powell(f,x0,full_output=1,disp=0); C=so.fmin_powell(f,x0,full_output=1,disp=0)
    same=(A[2],A[3])==(B[3],B[4]) and np.allclose(np.ravel(A[0]),np.ravel(B[0]),rtol=1e-9,atol=1e-12)
    res['pw_same' if same else 'pw_diff']+=1
    if not same: ex.append(('pw',kind,x0,A[2:4],B[3:5], np.ravel(A[0]), np.ravel(B[0])))
    same=(A[2],A[3])==(C[3],C[4]) and np.allclose(np.ravel(A[0]),np.ravel(C[0]),rtol=1e-9,atol=1e-12)
    res['pw_sp_same' if same else 'pw_sp_diff']+=1
print(res)
for e in ex[:6]: print(e)
