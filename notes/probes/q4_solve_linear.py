import numpy as np, random, warnings, time
warnings.filterwarnings('ignore')
from mystic.symbolic import solve, linear_symbolic, symbolic_bounds, comparator
rng=random.Random(5)
def holds(eqs, pt, rtol=1e-9):
    for line in eqs.strip().split('\n'):
        line=line.strip()
        if not line: continue
        cmp=comparator(line); l,r=line.split(cmp,1)
        lv=eval(l,{},dict(pt)); rv=eval(r,{},dict(pt))
        ok={'<':lv<rv,'<=':lv<=rv,'>':lv>rv,'>=':lv>=rv,'=':abs(lv-rv)<=rtol*(1+abs(lv)+abs(rv)),'==':abs(lv-rv)<=rtol*(1+abs(lv)+abs(rv))}[cmp]
        if not ok: return False
    return True
bad={}; n=0
def fail(t,i): bad.setdefault(t,[]).append(i)
t0=time.time()
for t in range(300):
    nv=rng.randint(2,5); ne=rng.randint(1,min(3,nv-1))
    sol=[rng.choice([rng.uniform(-3,3), float(rng.randint(-2,2))]) for _ in range(nv)]
    rows=[]
    for e in range(ne):
        cs=[rng.choice([0,0,1,-1,2.5,-0.5,3]) for _ in range(nv)]
        if not any(cs): cs[rng.randrange(nv)]=1
        rows.append(cs)
    if np.linalg.matrix_rank(np.array(rows,float))<ne: continue
    b=[sum(c*s for c,s in zip(cs,sol)) for cs in rows]
    text='\n'.join(' + '.join('%r*x%d'%(c,j) for j,c in enumerate(cs) if c)+' = %r'%bb for cs,bb in zip(rows,b))
    try: out=solve(text)
    except Exception as ex: fail('EXC',(text,repr(ex))); continue
    if not out: fail('none',(text,out)); continue
    n+=1
    pt={'x%d'%j:sol[j] for j in range(nv)}
    if not holds(out,pt,1e-7): fail('sol_not_in_solved',(text,out,pt))
    # build point from solved form: choose free vars randomly, compute dependents
    free={'x%d'%j:rng.uniform(-3,3) for j in range(nv)}
    lines=[l for l in out.split('\n') if l.strip()]
    dep={}
    try:
        for l in lines:
            lhs,rhs=l.split('=',1); dep[lhs.strip()]=rhs
        # dependents may reference only free variables (solved form)
        pt2=dict(free)
        for k,rhs in dep.items(): pt2[k]=eval(rhs,{},free)
        if any(k2 in rhs for k2 in dep for rhs in dep.values() if k2 in rhs.replace(' ','') and False): pass
        if not holds(text,pt2,1e-7):
            # maybe dependents reference other dependents -> note
            fail('solved_not_in_system',(text,out,pt2))
    except Exception as ex: fail('evalEXC',(text,out,repr(ex)))
print('n',n,{k:len(v) for k,v in bad.items()},'t',round(time.time()-t0,1))
for k,v in bad.items(): print(k,v[0])
# linear_symbolic / symbolic_bounds
for t in range(200):
    nv=rng.randint(1,4)
    A=[[rng.choice([0,1,-2.5,1e-3,7]) for _ in range(nv)] for _ in range(rng.randint(1,2))]; x=[rng.uniform(-2,2) for _ in range(nv)]
    bvec=[sum(a*b for a,b in zip(r,x)) for r in A]
    G=[[rng.choice([0,1,-1,0.5]) for _ in range(nv)]]; h=[rng.uniform(-2,2)]
    txt=linear_symbolic(A,bvec,G,h)
    pt={'x%d'%j:x[j] for j in range(nv)}
    exp=sum(g*v for g,v in zip(G[0],x))<=h[0]
    if holds(txt,pt)!=exp: fail('linsym',(txt,pt,exp))
    lo=[rng.choice([None,0,-0.05,-1e-5,float('-inf'),0.5]) for _ in range(nv)]; hi=[rng.choice([None,1,0.05,5e-6+1,float('inf'),0.5]) for _ in range(nv)]
    try: tb=symbolic_bounds(list(lo),list(hi))
    except ValueError: continue
    lo2=[-np.inf if v is None else v for v in lo]; hi2=[np.inf if v is None else v for v in hi]
    p=[rng.choice([rng.uniform(-1,2),0,0.5,1,0.05,-0.05]) for _ in range(nv)]
    exp=all(a<=v<=b for a,v,b in zip(lo2,p,hi2))
    got=holds(tb,{'x%d'%j:p[j] for j in range(nv)}) if tb.strip() else True
    if got!=exp: fail('symbounds',(lo,hi,tb,p,exp))
print({k:len(v) for k,v in bad.items()})
for k in ('linsym','symbounds'):
    if k in bad: print(k,bad[k][0])
