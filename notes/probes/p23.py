import numpy as np, warnings
warnings.filterwarnings('ignore')
from mystic.symbolic import simplify
from mystic.constraints import *
from mystic.solvers import *
from mystic.termination import VTR
from mystic.tools import random_seed
I=lambda x:x
# F10
print('F10', simplify('x0*x1 < 4', all=True), '| point x0=3,x1=0: input holds (0<4)')
# F11
print('F11a integers idx (1,9):', integers(index=(1,9))(I)([0.4,1.6,2.7]), ' idx (1,):', integers(index=(1,))(I)([0.4,1.6,2.7]))
print('F11a rounded idx (0,7):', rounded(index=(0,7))(I)([0.4,1.6,2.7]), 'discrete idx (-1,5):', discrete([0.,5.],index=(-1,5))(I)([0.4,1.6,2.7]))
for pairs in [[(0,1),(2,3),(1,2)], [(2,3),(1,2),(0,1)], {(0,1),(2,3),(1,2)}, [(1,2),(0,1),(2,3)]]:
    print('F11b impose_as', pairs, impose_as(pairs)(I)([10.,20.,30.,40.]))
# F8
calls=[]
def vcost(x): 
    x=np.asarray(x,float); return np.array([ (x[0]-1)**2, (x[1]+1)**2, 0.5 ])
pen=lambda x: 7.0
for name,cls in [('nm',NelderMeadSimplexSolver),('de',lambda d: DifferentialEvolutionSolver(d,6)),('pw',PowellDirectionalSolver)]:
    random_seed(1); s=cls(2); s.SetInitialPoints([0.3,0.2]); s.SetObjective(vcost); s.SetPenalty(pen); s.SetReducer(np.sum, arraylike=True)
    s.SetTermination(VTR(-1)); s.SetEvaluationLimits(generations=3); s.Solve()
    b=s.bestSolution; print('F8',name,'bestEnergy',float(np.squeeze(s.bestEnergy)),'sum(cost)+pen',float(np.sum(vcost(b))+7.0),'sum(cost+pen)',float(np.sum(vcost(b)+7.0)))
