import numpy as np, random, math, warnings
warnings.filterwarnings('ignore')
import mystic.penalty as mp
from mystic import coupler as cp
rng=random.Random(1)
bad={}
def fail(t,i): bad.setdefault(t,[]).append(i)
types=['quadratic_equality','linear_equality','uniform_equality','uniform_inequality','barrier_inequality','quadratic_inequality','linear_inequality','lagrange_inequality','lagrange_equality']
def close(a,b): 
    if a==b: return True
    if math.isinf(a) or math.isinf(b) or math.isnan(a) or math.isnan(b): return False
    return abs(a-b)<=1e-12*max(1,abs(a),abs(b))
n=0
for t in range(4000):
    ty=rng.choice(types); k=rng.choice([1,20,100,0.5,3.7]); h=rng.choice([1,5,2.5])
    c=rng.uniform(-2,2)
    cond=lambda x: x[0]-c
    base=lambda x: 1.5
    p=getattr(mp,ty)(cond,k=k,h=h)(base)
    nit=rng.randint(0,3)
    stored=[]
    for i in range(nit):
        xs=[rng.uniform(-3,3)]
        p.store(xs); stored.append(cond(xs) if ty.startswith('lagrange') else None); p.iter()
    if p.iteration()!=nit: fail('iteration',(ty,nit,p.iteration()))
    x=[rng.choice([c, c+rng.uniform(-2,2), np.nextafter(c,5), np.nextafter(c,-5)])]
    f=cond(x); pk=k*h**nit
    got=p(x)-1.5 if not math.isinf(p(x)) else p(x)
    if ty=='quadratic_equality': exp=pk*f*f
    elif ty=='linear_equality': exp=pk*abs(f)
    elif ty=='uniform_equality': exp=pk if f!=0 else 0.
    elif ty=='uniform_inequality': exp=pk if f>0 else 0.
    elif ty=='quadratic_inequality': exp=2*pk*max(0,f)**2
    elif ty=='linear_inequality': exp=2*pk*max(0,f)
    elif ty=='barrier_inequality': exp=math.inf if f>0 else (math.inf if f==0 else -math.log(-f)/(2*pk))
    elif ty=='lagrange_equality':
        lam=0.;kk=k
        for s in stored: lam+=2*kk*s; kk*=h
        exp=kk*f*f+lam*f
    elif ty=='lagrange_inequality':
        beta=0.;kk=k
        for s in stored: beta+=2*kk*max(-beta/(2*kk),s); kk*=h
        m=max(-beta/(2*kk),f); exp=kk*m*m+beta*m
    n+=1
    with np.errstate(all='ignore'):
        g=float(got)
    if not close(g,exp): fail('formula',(ty,k,h,nit,f,g,exp))
    # error
    e=p.error(x); ee=abs(f) if 'equality' in ty and 'inequality' not in ty else max(0.,f)
    if not close(float(e),ee): fail('error',(ty,f,e,ee))
    p.clear()
    if p.iteration()!=0 or p.stored()!=[]: fail('clear',(ty,))
print('n',n,{k:len(v) for k,v in bad.items()}); 
for k,v in bad.items(): print(k,v[:3])
# zero-division
pz=mp.quadratic_equality(lambda x: 1/x[0])(lambda x:0.)
print('zerodiv',pz([0]), pz.error([0]))
# nested
p2=mp.quadratic_equality(lambda x:x[0]-1,k=2)(mp.linear_inequality(lambda x:x[1],k=3)(lambda x:10.))
print('nested', p2([3.,2.]), 2*4+2*3*2+10, p2.error([3.,2.]), math.hypot(2,2)); p2.iter(); print(p2.iteration(), p2([3.,2.]), 2*5*4+2*3*5*2+10)
