import numpy as np, random, warnings
warnings.filterwarnings('ignore')
import scipy.optimize as so
from mystic import _scipy060optimize as s060
rng=random.Random(2); same=0; diff=[]
for t in range(300):
    a=rng.uniform(-5,5); k=rng.choice(['quad','abs','cosh','quartic'])
    f={'quad':lambda x:(x-a)**2+1,'abs':lambda x:abs(x-a)+0.1*(x-a)**2,'cosh':lambda x:float(np.cosh(0.3*(x-a))),'quartic':lambda x:(x-a)**4-(x-a)}[k]
    A=s060.brent(f,full_output=1,tol=1e-3); B=so.brent(f,full_output=1,tol=1e-3)
    if (A[2],A[3])==(B[2],B[3]) and abs(A[0]-B[0])<=1e-12*max(1,abs(A[0])): same+=1
    else: diff.append((k,a,A,B))
print('same',same,'diff',len(diff)); print(diff[:3])
