import numpy as np, random, warnings, math
warnings.filterwarnings('ignore')
from mystic.symbolic import generate_solvers, generate_constraint, generate_conditions, generate_penalty, simplify
rng=random.Random(3)
bad={}
def fail(t,i): bad.setdefault(t,[]).append(i)
n=0
for t in range(3000):
    D=rng.choice([3,4,12]); i=rng.randrange(D)
    others=[j for j in range(D) if j!=i]
    a,b=rng.sample(others,2)
    c1=rng.choice([2.0,-1.5,0.5,3,1e6,1e-6,-7]); c2=rng.choice([1.0,-2.5,0.25,4,-1e3]); c0=rng.choice([0.0,1.0,-3.5,1e15,2.25])
    form=rng.choice(['lin','prod','absmin'])
    if form=='lin': rhs='%r*x%d + %r*x%d + %r'%(c1,a,c2,b,c0); f=lambda x: c1*x[a]+c2*x[b]+c0
    elif form=='prod': rhs='x%d*x%d - %r'%(a,b,c0); f=lambda x: x[a]*x[b]-c0
    else: rhs='abs(x%d) + min(x%d, %r)'%(a,b,c0); f=lambda x: abs(x[a])+min(x[b],c0)
    cmp=rng.choice(['=','==','<=','<','>=','>','!='])
    text='x%d %s %s'%(i,cmp,rhs)
    try: c=generate_constraint(generate_solvers(text, nvars=D))
    except Exception as e: fail('gen',(text,repr(e))); continue
    for rep in range(4):
        x=[rng.choice([rng.uniform(-5,5), float(rng.randint(-3,3)), rng.uniform(-1e12,1e12)]) for _ in range(D)]
        mode=rng.choice(['rand','on','above','below'])
        fx=f(x)
        if mode=='on': x[i]=fx
        elif mode=='above': x[i]=np.nextafter(fx,np.inf)
        elif mode=='below': x[i]=np.nextafter(fx,-np.inf)
        x0=list(x)
        xin = list(x) if rng.random()<.5 else np.array(x)
        try: y=c(xin)
        except Exception as e: fail('call',(text,x0,repr(e))); continue
        y=[float(v) for v in y]; n+=1
        fy=f(y)
        ok={'=':y[i]==fy,'==':y[i]==fy,'<=':y[i]<=fy,'<':y[i]<fy,'>=':y[i]>=fy,'>':y[i]>fy,'!=':y[i]!=fy}[cmp]
        if not ok: fail('rel',(text,x0,y[i],fy,mode))
        if any(y[j]!=x0[j] for j in range(D) if j!=i): fail('others',(text,x0,y))
        held={'=':x0[i]==fx,'==':x0[i]==fx,'<=':x0[i]<=fx,'<':x0[i]<fx,'>=':x0[i]>=fx,'>':x0[i]>fx,'!=':x0[i]!=fx}[cmp]
        if held and y[i]!=x0[i]: fail('feasible_changed',(text,x0[i],y[i],fx,mode))
print('n',n,{k:len(v) for k,v in bad.items()})
for k,v in bad.items(): print(k,v[:3])
