import numpy as np
CALLS=[]
def cost(x):
    CALLS.append(np.array(x,float).copy())
    x=np.asarray(x,float)
    return float(np.sum((x-1.3)**2)+ 0.3*np.sum(np.cos(3*x)))
