import numpy as np, random, io, contextlib, sys, traceback
from mystic.solvers import *
from mystic.tools import random_seed
from mystic.termination import VTR, ChangeOverGeneration as COG, Or
from mystic.monitors import Monitor
KIND=sys.argv[1] if len(sys.argv)>1 else 'de'
def mk(name, dim):
    if name=='de': return DifferentialEvolutionSolver(dim, 6)
    if name=='de2': return DifferentialEvolutionSolver2(dim, 6)
    if name=='nm': return NelderMeadSimplexSolver(dim)
    if name=='pw': return PowellDirectionalSolver(dim)
rng=random.Random(int(sys.argv[2]) if len(sys.argv)>2 else 0)
fails={}
def fail(tag, hist, info):
    fails.setdefault(tag,[]).append((list(hist),info))
for trial in range(int(sys.argv[3]) if len(sys.argv)>3 else 200):
    calls=[]
    a=[rng.uniform(-2,2) for _ in range(3)]
    def cost(x):
        calls.append(tuple(float(v) for v in x)); x=np.asarray(x,float)
        return float(np.sum((x-a)**2)+0.3*np.sum(np.cos(3*x)))
    cb=[]
    s=mk(KIND,3); random_seed(trial)
    s.SetInitialPoints([rng.uniform(-3,3) for _ in range(3)])
    s.SetObjective(cost)
    em=Monitor(); s.SetEvaluationMonitor(em)
    s.SetTermination(rng.choice([VTR(-1), COG(1e-3,2), VTR(0.5)]))
    maxiter=None; maxfun=None  # model absolute limits (None = default unknown)
    hist=[]
    def callback(x): cb.append((np.array(x,float).copy(), np.array(s.bestSolution,float).copy()))
    segstart=0
    for op in range(rng.randint(3,14)):
        r=rng.random()
        gens0=s.generations; n0=len(calls); cb0=len(cb)
        if r<0.55:
            hist.append('step')
            with contextlib.redirect_stdout(io.StringIO()):
                msg=s.Step(callback=callback)
            stepped = len(cb)>cb0
            # invariants
            if s.evaluations!=len(calls): fail('evals',hist,(s.evaluations,len(calls)))
            if s.generations!=max(0,len(cb)-1): fail('gens',hist,(s.generations,len(cb)))
            if stepped and not np.array_equal(cb[-1][0],cb[-1][1]): fail('cbarg',hist,None)
            if len(cb)-cb0>1: fail('cb>1',hist,None)
            eh=[float(np.squeeze(e)) for e in s.energy_history]
            if any(eh[i+1]>eh[i] for i in range(segstart,len(eh)-1)): fail('mono',hist,eh)
            if eh and eh[-1]!=float(np.squeeze(s.bestEnergy)): fail('last',hist,(eh[-1],float(np.squeeze(s.bestEnergy))))
            if [tuple(map(float,x)) for x in em._x]!=calls: fail('evalmon',hist,(len(em._x),len(calls)))
            if msg:
                if len(s._stepmon)!=s.generations+1: fail('stepmon_len',hist,(len(s._stepmon),s.generations))
                elif not (np.array_equal(np.array(s._stepmon._x[-1],float),np.array(s.bestSolution,float)) and float(np.squeeze(s._stepmon._y[-1]))==float(np.squeeze(s.bestEnergy))): fail('stepmon_last',hist,None)
                # limits
                if maxiter is not None and msg.startswith('EvaluationLimits') and not (s.generations>=maxiter or (maxfun is not None and len(calls)>=maxfun)): fail('msg',hist,msg)
            # stopping discipline
            if not stepped and len(calls)!=n0: fail('calls_without_step',hist,None)
            if stepped and cb0>0:
                if maxiter is not None and gens0>=maxiter: fail('start_past_maxiter',hist,(gens0,maxiter))
                if maxfun is not None and n0>=maxfun: fail('start_past_maxfun',hist,(n0,maxfun))
        elif r<0.7:
            g=rng.choice([0,1,2,3,None]); e=rng.choice([0,1,10,40,None]); new=rng.random()<0.5
            hist.append(('lim',g,e,new))
            s.SetEvaluationLimits(g,e,new=new)
            maxiter = (None if g is None else (g+s.generations if new else g))
            maxfun = (None if e is None else (e+len(calls) if new else e))
        elif r<0.8:
            hist.append('pen'); k=rng.uniform(0,5); s.SetPenalty(lambda x: k*max(0.,x[0]-1)**2); segstart=max(0,len(s.energy_history)-0)
        elif r<0.9:
            hist.append('con'); s.SetConstraints(lambda x: [round(x[0]*2)/2.]+list(x[1:])); segstart=len(s.energy_history)
        else:
            hist.append('rng'); s.SetStrictRanges([-4]*3,[4]*3); segstart=len(s.energy_history)
print(KIND,{k:len(v) for k,v in fails.items()})
for k,v in fails.items():
    v.sort(key=lambda t:len(t[0])); print(' ',k,v[0])
