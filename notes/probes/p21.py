import numpy as np, random, itertools, math
from mystic.solvers import DifferentialEvolutionSolver, DifferentialEvolutionSolver2
from mystic import strategy as st
from mystic.tools import random_seed
from mystic.termination import VTR
names=['Best1Exp','Best1Bin','Rand1Exp','RandToBest1Exp','Best2Exp','Rand2Exp','Rand1Bin','RandToBest1Bin','Best2Bin','Rand2Bin']
def formulas(name, pop, best, parent, F):
    """yield candidate mutant vectors for all donor choices"""
    NP=len(pop); others=[i for i in range(NP)]
    def P(k): return itertools.permutations([i for i in range(NP) if i!=parent_idx], k)
    return None
rec=[]
def make_wrapper(real):
    def w(inst, cand):
        snap=dict(pop=[list(map(float,p)) for p in inst.population], best=list(map(float,inst.bestSolution)), cand=cand, F=inst.scale, CR=inst.probability)
        real(inst,cand)
        tr=inst.trialSolution[cand] if inst._map_solver else inst.trialSolution
        snap['trial']=list(map(float,tr)); rec.append(snap)
    w.__name__=real.__name__
    return w
def mutant(name, pop, best, parent, rs, F, n):
    p=pop
    if name.startswith('Best1'): return best[n]+F*(p[rs[0]][n]-p[rs[1]][n])
    if name.startswith('Rand1'): return p[rs[0]][n]+F*(p[rs[1]][n]-p[rs[2]][n])
    if name.startswith('RandToBest1'): t=p[parent][n]; return t + (F*(best[n]-t)+F*(p[rs[0]][n]-p[rs[1]][n]))
    if name.startswith('Best2'): return best[n]+F*(p[rs[0]][n]+p[rs[1]][n]-p[rs[2]][n]-p[rs[3]][n])
    if name.startswith('Rand2'): return p[rs[0]][n]+F*(p[rs[1]][n]+p[rs[2]][n]-p[rs[3]][n]-p[rs[4]][n])
K={'Best1':2,'Rand1':3,'RandToBest1':2,'Best2':4,'Rand2':5}
def cost(x): return float(np.sum((np.asarray(x)-0.7)**2))
for cls in [DifferentialEvolutionSolver, DifferentialEvolutionSolver2]:
  for name in names:
    for CR in [0.0,1.0,0.5]:
      rec.clear(); random_seed(3)
      D=5; s=cls(D,8); s.SetRandomInitialPoints([-3]*D,[3]*D); s.SetObjective(cost); s.SetTermination(VTR(-1)); s.SetEvaluationLimits(generations=60)
      w=make_wrapper(getattr(st,name))
      for i in range(40): s.Step(strategy=w, CrossProbability=CR, ScalingFactor=0.7)
      k=[v for kk,v in K.items() if name.startswith(kk)][0]
      nm=[]; bad=0; noncontig=0
      for r in rec:
        par=r['pop'][r['cand']]; tr=r['trial']; NP=len(r['pop'])
        mut=[i for i in range(D) if tr[i]!=par[i]]
        nm.append(len(mut))
        ok=False
        for rs in itertools.permutations([i for i in range(NP) if i!=r['cand']],k):
            if all(tr[i]==par[i] or tr[i]==mutant(name,r['pop'],r['best'],r['cand'],rs,r['F'],i) for i in range(D)) and all(tr[i]==mutant(name,r['pop'],r['best'],r['cand'],rs,r['F'],i) for i in mut):
                ok=True;break
        if not ok: bad+=1
        # contiguity (circular)
        if mut and len(mut)<D:
            ms=set(mut); starts=[i for i in mut if (i-1)%D not in ms]
            if len(starts)!=1: noncontig+=1
      print(cls.__name__[-7:],name,'CR',CR,'trials',len(rec),'noformula',bad,'noncontig',noncontig,'mean#mut',round(np.mean(nm),2),'min',min(nm),'max',max(nm))
