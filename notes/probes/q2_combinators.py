import numpy as np, random, warnings
warnings.filterwarnings('ignore')
from mystic.constraints import and_, or_, not_
rng=random.Random(9)
bad={}; stats={}
def fail(t,i): bad.setdefault(t,[]).append(i)
def mkc(kind,i,a,b=None,j=None):
    if kind=='pin': return lambda x: [a if k==i else v for k,v in enumerate(x)]
    if kind=='clamp': return lambda x: [min(max(v,a),b) if k==i else v for k,v in enumerate(x)]
    if kind=='grid': return lambda x: [round(v/a)*a if k==i else v for k,v in enumerate(x)]
    if kind=='tie': return lambda x: [x[j]+a if k==i else v for k,v in enumerate(x)]
import random as R
for t in range(4000):
    n=3; m=rng.randint(1,4); cs=[]; desc=[]
    for q in range(m):
        kind=rng.choice(['pin','clamp','grid','tie']); i=rng.randrange(n); a=rng.choice([0.,1.,0.5,-1.,2.]); 
        if kind=='clamp': lo=rng.uniform(-2,0); hi=lo+rng.uniform(0.5,3); c=mkc(kind,i,lo,hi); desc.append((kind,i,lo,hi))
        elif kind=='grid': c=mkc(kind,i,rng.choice([0.5,1.,0.25])); desc.append((kind,i))
        elif kind=='tie': j=rng.choice([k for k in range(n) if k!=i]); c=mkc(kind,i,a,j=j); desc.append((kind,i,a,j))
        else: c=mkc(kind,i,a); desc.append((kind,i,a))
        cs.append(c)
    x=[rng.uniform(-3,3) for _ in range(n)]
    for comb,name in [(and_,'and'),(or_,'or')]:
        fired=[]
        f=comb(*cs,onexit=lambda v:(fired.append(('exit',list(v))),v)[1],onfail=lambda v:(fired.append(('fail',list(v))),v)[1],maxiter=rng.choice([1,3,10,100]))
        cnt=[0]; orr,ori=R.random,R.randint
        def r1(): cnt[0]+=1; return orr()
        def r2(a,b): cnt[0]+=1; return ori(a,b)
        R.seed(t); R.random=r1; R.randint=r2
        try: out=f(list(x))
        except Exception as e: fail(name+'EXC',(desc,x,repr(e))); continue
        finally: R.random=orr; R.randint=ori
        if len(fired)!=1: fail(name+'_fired',(desc,x,fired)); continue
        kind,v=fired[0]
        stats[(name,kind,cnt[0]>0)]=stats.get((name,kind,cnt[0]>0),0)+1
        fix=[list(c(list(v)))==list(v) for c in cs]
        if kind=='exit':
            if name=='and' and not all(fix): fail('and_notfixed',(desc,x,v,fix))
            if name=='or' and not any(fix): fail('or_notfixed',(desc,x,v,fix))
    c=cs[0]; fired=[]
    f=not_(c,onexit=lambda v:(fired.append(('exit',list(v))),v)[1],onfail=lambda v:(fired.append(('fail',list(v))),v)[1],maxiter=rng.choice([1,5,100]))
    R.seed(t); out=f(list(x))
    if len(fired)!=1: fail('not_fired',(desc[0],x,fired))
    elif fired[0][0]=='exit' and list(c(list(fired[0][1])))==fired[0][1]: fail('not_unchanged',(desc[0],x,fired))
    stats[('not',fired[0][0] if fired else None)]=stats.get(('not',fired[0][0] if fired else None),0)+1
print({k:len(v) for k,v in bad.items()}); print(stats)
for k,v in bad.items(): print(k,v[0])
