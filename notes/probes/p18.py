import numpy as np, os, dill, copy, pickle
import costmod
from concurrent.futures import ThreadPoolExecutor
from mystic.solvers import *
from mystic.tools import random_seed
from mystic.termination import VTR
# registry-pickled callable
REG={}
def _lookup(k): return REG[k]
class Cost:
    def __init__(s,k): s.k=k; s.calls=[]; REG[k]=s
    def __call__(s,x): s.calls.append(list(map(float,x))); return float(np.sum((np.asarray(x)-1.)**2))
    def __reduce__(s): return (_lookup,(s.k,))
c=Cost('a'); c2=dill.copy(c); print('same object after dill.copy:', c2 is c)
def fork_map(f,*args):
    items=list(zip(*args)); out=[]
    for it in items:
        r,w=os.pipe(); pid=os.fork()
        if pid==0:
            os.close(r)
            try: data=dill.dumps(('ok',f(*it)))
            except Exception as e: data=dill.dumps(('err',repr(e)))
            with os.fdopen(w,'wb') as fh: fh.write(data)
            os._exit(0)
        os.close(w)
        with os.fdopen(r,'rb') as fh: data=fh.read()
        os.waitpid(pid,0); tag,val=dill.loads(data); assert tag=='ok',val; out.append(val)
    return out
def thread_map(f,*args):
    with ThreadPoolExecutor(4) as ex: return list(ex.map(f,*args))
def rev_map(f,*args):
    items=list(zip(*args)); res=[None]*len(items)
    for i in reversed(range(len(items))): res[i]=f(*items[i])
    return res
def run(m):
    random_seed(3)
    s=DifferentialEvolutionSolver2(3,8); s.SetRandomInitialPoints([-3]*3,[3]*3); s.SetObjective(costmod.cost)
    s.SetTermination(VTR(-1)); s.SetEvaluationLimits(generations=5)
    if m: s.SetMapper(m)
    s.Solve()
    return np.array(s.population).round(14).tolist(), float(s.bestEnergy), s.generations, int(s.evaluations)
base=run(None)
for name,m in [('thread',thread_map),('rev',rev_map),('fork',fork_map)]:
    print(name, run(m)==base)
# ensemble with fork map
def runE(m,step):
    random_seed(3)
    s=LatticeSolver(2,(2,2)); s.SetNestedSolver(NelderMeadSimplexSolver); s.SetStrictRanges([-2,-2],[4,4]); s.SetEvaluationLimits(generations=20)
    if m: s.SetMapper(m)
    s.Solve(costmod.cost, disp=0, step=step)
    return np.array(s.bestSolution).round(14).tolist(), float(s.bestEnergy), s._total_evals, [float(e) for e in s._all_bestEnergy]
b=runE(None,False)
for name,m in [('thread',thread_map),('rev',rev_map),('fork',fork_map)]:
    for step in [False,True]:
        try: print('ens',name,step, runE(m,step)==b)
        except Exception as e: print('ens',name,step,'EXC',type(e).__name__,str(e)[:100])
