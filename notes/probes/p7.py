import numpy as np, random, copy, sys, itertools, os, tempfile, dill
from mystic.solvers import *
from mystic.tools import random_seed
from mystic.termination import VTR
from mystic.monitors import Monitor
def mk(name, dim):
    if name=='de': return DifferentialEvolutionSolver(dim, 8)
    if name=='de2': return DifferentialEvolutionSolver2(dim, 8)
    if name=='nm': return NelderMeadSimplexSolver(dim)
    if name=='pw': return PowellDirectionalSolver(dim)
def cost(x):
    x=np.asarray(x,float)
    return float(np.sum((x-1.3)**2)+ 0.3*np.sum(np.cos(3*x)))
def snap(s):
    return dict(pop=np.array(s.population,float).tolist(), pe=np.array(s.popEnergy,float).tolist(),
      bs=np.array(s.bestSolution,float).tolist(), be=float(np.squeeze(s.bestEnergy)), ev=s.evaluations, gen=s.generations,
      sx=[list(map(float,np.ravel(x))) for x in s._stepmon._x], sy=[float(np.squeeze(y)) for y in s._stepmon._y],
      ex=len(s._evalmon._x) if s._evalmon else 0, eh=[float(np.squeeze(y)) for y in s.energy_history])
for name in ['de','de2','nm','pw']:
  for k in [0,1,2,4]:
    random_seed(11)
    s=mk(name,3); s.SetInitialPoints([0.5,2.,-1.]); s.SetObjective(cost)
    s.SetEvaluationMonitor(Monitor())
    s.SetTermination(VTR(-100)); s.SetEvaluationLimits(generations=8)
    for i in range(k+1): s.Step()
    fn=tempfile.mktemp(suffix='.pkl'); s.SaveSolver(fn)
    st=random.getstate(); nst=np.random.get_state()
    ref=[]
    for i in range(4): s.Step(); ref.append(snap(s))
    random.setstate(st); np.random.set_state(nst)
    r=LoadSolver(fn); os.remove(fn)
    got=[]
    try:
      for i in range(4): r.Step(); got.append(snap(r))
    except Exception as e:
      print(name,k,'EXC',type(e).__name__,e); continue
    diffs=[ (i,[key for key in a if a[key]!=b[key]]) for i,(a,b) in enumerate(zip(ref,got)) if a!=b]
    print(name,k,'diffs',diffs[:2])
print("----- debug")
random_seed(11)
s=mk('nm',3); s.SetInitialPoints([0.5,2.,-1.]); s.SetObjective(cost)
s.SetEvaluationMonitor(Monitor())
s.SetTermination(VTR(-100)); s.SetEvaluationLimits(generations=8)
for i in range(5): s.Step()
fn=tempfile.mktemp(suffix='.pkl'); s.SaveSolver(fn)
print('orig', s.generations, s.evaluations, s._maxiter, s._maxfun, s._live)
r=LoadSolver(fn)
print('load', r.generations, r.evaluations, r._maxiter, r._maxfun, r._live, r._fcalls, r._cost[0] is None)
print(s.Step(), s.generations, s.evaluations)
print(r.Step(), r.generations, r.evaluations)
