import numpy as np, random, copy, sys, itertools
from mystic.solvers import *
from mystic.tools import random_seed
from mystic.termination import VTR
def mk(name, dim):
    if name=='de': return DifferentialEvolutionSolver(dim, 8)
    if name=='de2': return DifferentialEvolutionSolver2(dim, 8)
    if name=='nm': return NelderMeadSimplexSolver(dim)
    if name=='pw': return PowellDirectionalSolver(dim)
calls=[]
def raw(x):
    x=np.asarray(x,float)
    return float(np.sum((x-3.3)**2)+ 0.3*np.sum(np.cos(3*x)))
def cost(x):
    calls.append(np.array(x,float).copy()); return raw(x)
def push(x):  # pushes out of box
    y=list(x); y[0]=y[0]+0.7; return y
lo=np.array([-1.,0.,-2.]); hi=np.array([2.,2.,1.])
res={}
for name in ['de','de2','nm','pw']:
  for tight,clip in [(None,None),(True,None),(False,None),(None,True),(None,False),(True,True),(True,False)]:
   for con in [None,push]:
    for late in [False,True]:
      calls.clear(); random_seed(7)
      s=mk(name,3); s.SetInitialPoints([0.5,1.9,-1.]); s.SetObjective(cost)
      if con: s.SetConstraints(con)
      s.SetTermination(VTR(-100)); s.SetEvaluationLimits(generations=12)
      try:
        if not late: s.SetStrictRanges(list(lo),list(hi),tight=tight,clip=clip)
        n0=0
        for i in range(12):
          if late and i==3:
              n0=len(calls); s.SetStrictRanges(list(lo),list(hi),tight=tight,clip=clip)
          m=s.Step()
          if m: break
        out=[c for c in calls[n0:] if np.any(c<lo)|np.any(c>hi)]
        bs=np.array(s.bestSolution,float)
        inbox = not (np.any(bs<lo)|np.any(bs>hi))
        print(name,tight,clip,'con' if con else '-', 'late' if late else 'early', 'outcalls',len(out),'/',len(calls)-n0,'bestinbox',inbox, 'E',float(np.squeeze(s.bestEnergy)))
      except Exception as e:
        print(name,tight,clip,'con' if con else '-', 'late' if late else 'early','EXC',type(e).__name__,str(e)[:80])
