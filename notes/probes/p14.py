import numpy as np, random, time, warnings
warnings.filterwarnings('ignore')
from mystic.symbolic import simplify, generate_conditions, generate_penalty, generate_solvers, generate_constraint, comparator
rng=random.Random(2)
def holds(eqs, pt):
    loc=dict(pt)
    for line in eqs.strip().split('\n'):
        line=line.strip()
        if not line: continue
        cmp=comparator(line)
        l,r=line.split(cmp,1)
        lv=eval(l,{},loc); rv=eval(r,{},loc)
        ok={'<':lv<rv,'<=':lv<=rv,'>':lv>rv,'>=':lv>=rv,'=':abs(lv-rv)<=1e-9*(1+abs(lv)+abs(rv)),'==':abs(lv-rv)<1e-9,'!=':lv!=rv}[cmp]
        if not ok: return False
    return True
t0=time.time(); nbad=0; n=0
for t in range(60):
    nv=rng.randint(2,3); nl=rng.randint(1,2)
    lines=[]
    for i in range(nl):
        cs=[rng.choice([-3,-1.5,-1,0,0.5,1,2,7]) for _ in range(nv)]
        if not any(cs): cs[0]=1
        terms=' + '.join('%s*x%d'%(c,j) for j,c in enumerate(cs) if c)
        cmp=rng.choice(['<','<=','>','>='])
        lines.append('%s %s %s'%(terms,cmp,rng.choice([-2,0,1.5,4])))
    eq='\n'.join(lines)
    try:
        out=simplify(eq, all=True)
    except Exception as e:
        print('EXC',repr(eq),type(e).__name__,e); continue
    cases = out if isinstance(out,tuple) else (out,)
    for k in range(40):
        pt={('x%d'%j): rng.choice([rng.uniform(-5,5), rng.randint(-3,3)]) for j in range(nv)}
        a=holds(eq,pt); b=any(holds(c,pt) for c in cases if c is not None)
        n+=1
        if a!=b:
            nbad+=1
            if nbad<6: print('MISMATCH',repr(eq),'->',cases,pt,a,b)
print('n',n,'bad',nbad,'t',time.time()-t0)
