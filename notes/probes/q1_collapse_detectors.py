import numpy as np, random, warnings
warnings.filterwarnings('ignore')
from mystic.monitors import Monitor
import mystic.collapse as ct
rng=random.Random(7)
bad={}
def fail(t,i): bad.setdefault(t,[]).append(i)
for t in range(3000):
    T=rng.randint(1,8); n=rng.randint(1,5)
    X=np.array([[rng.uniform(-2,2) for _ in range(n)] for _ in range(T)])
    # engineer
    for j in range(n):
        r=rng.random()
        if r<.3: X[:,j]=X[0,j]
        elif r<.5: X[:,j]=X[0,j]+np.array([rng.uniform(-1e-3,1e-3) for _ in range(T)])
        elif r<.7 and j>0: X[:,j]=X[:,j-1]+rng.choice([0,0.5])
    m=Monitor()
    for row in X: m(list(row), float(np.sum(row**2)))
    tol=rng.choice([0,1e-3,5e-3,0.6]); N=rng.choice([1,2,3,T,T+2,50])
    target=rng.choice([None,0.0,X[0,0],'list'])
    if target=='list': target=[float(X[0,j]) for j in range(n)]
    W=X[-N:]
    if target is None: exp=set(j for j in range(n) if W[:,j].max()-W[:,j].min()<=tol)
    else: exp=set(j for j in range(n) if np.abs(W[:,j]-np.asarray(target if not isinstance(target,list) else target)[... if not isinstance(target,list) else j]).max()<=tol)
    mask=rng.choice([None,set(),set(rng.sample(range(n),rng.randint(0,n)))])
    got=ct.collapse_at(m,target=target,tolerance=tol,generations=N,mask=mask)
    e=exp-(mask or set())
    if set(int(i) for i in got)!=e: fail('at',(X.tolist(),tol,N,target,mask,got,e))
    if ct.collapse_at(m,target=target,tolerance=tol,generations=N,mask=set(got)|(mask or set())): fail('at_idem',None)
    # as
    off=rng.choice([False,True])
    pairs=[(i,j) for i in range(n) for j in range(i+1,n)]
    d=lambda i,j: np.abs(W[:,i]-W[:,j])
    exp=set((i,j) for i,j in pairs if (np.ptp(d(i,j)) if off else d(i,j).max())<=tol)
    if n>=2:
        maskp=rng.choice([None,set(),set(rng.sample(pairs,rng.randint(0,len(pairs)))), {rng.randrange(n)}])
        got=ct.collapse_as(m,offset=off,tolerance=tol,generations=N,mask=maskp)
        def masked(p):
            if not maskp: return False
            for q in maskp:
                if isinstance(q,tuple):
                    if p==q or p==q[::-1]: return True
                elif q in p: return True
            return False
        e=set(p for p in exp if not masked(p))
        if set((int(a),int(b)) for a,b in got)!=e: fail('as',(X.tolist(),tol,N,off,maskp,got,e))
print({k:len(v) for k,v in bad.items()})
for k,v in bad.items(): print(k,v[0])
