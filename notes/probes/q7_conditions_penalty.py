import numpy as np, random, warnings, math
warnings.filterwarnings('ignore')
from mystic.symbolic import generate_conditions, generate_penalty, generate_constraint, generate_solvers
from mystic.math import tolerance
rng=random.Random(8); bad={}; n=0
def fail(t,i): bad.setdefault(t,[]).append(i)
for t in range(1500):
    D=rng.choice([3,5,12]); nl=rng.randint(1,4); lines=[]; fs=[]
    for l in range(nl):
        i,j=rng.sample(range(D),2); c1=rng.choice([1,-2.0,0.5,3e3]); c2=rng.choice([1.0,-1,4,-0.25]); c0=rng.choice([0.,1.5,-3.,1e6])
        cmp=rng.choice(['=','<=','<','>=','>'])
        lines.append('%r*x%d + x%d*%r %s %r'%(c1,i,j,c2,cmp,c0)); fs.append((i,j,c1,c2,cmp,c0))
    text='\n'.join(lines)
    try: ineq,eq=generate_conditions(text,nvars=D); pen=generate_penalty((ineq,eq))
    except Exception as e: fail('gen',(text,repr(e))); continue
    for rep in range(5):
        x=[rng.choice([rng.uniform(-4,4),float(rng.randint(-3,3))]) for _ in range(D)]
        if rng.random()<.3:
            i,j,c1,c2,cmp,c0=fs[0]
            x[i]=(c0-x[j]*c2)/c1   # near boundary of first line
        n+=1
        exp_pen=0.; allsat=True; inband=False
        ii=0; ee=0
        for (i,j,c1,c2,cmp,c0) in fs:
            lhs=c1*x[i]+x[j]*c2; tol=tolerance(c0)
            if cmp=='=':
                v=eq[ee](x); ee+=1
                if v!=lhs-c0: fail('eqval',(text,x,v,lhs-c0))
                exp_pen+=100*v*v; allsat&=(lhs==c0)
            else:
                v=ineq[ii](x); ii+=1
                sign=-1 if cmp in('>','>=') else 1
                margin=sign*(lhs-c0)   # <=0 means satisfied (nonstrict)
                if cmp in ('<=','>='):
                    if (v<=0)!=(margin<=0): fail('ineq_sign',(lines,x,cmp,v,margin))
                    allsat&=(margin<=0)
                else:
                    if margin< -tol*1.001 and not v<=0: fail('strict_in',(text,x,cmp,v,margin))
                    if margin>=0 and not v>0: fail('strict_out',(text,x,cmp,v,margin))
                    if -tol*1.001<=margin<0: inband=True
                    allsat&=(margin<0)
                exp_pen+=200*max(0.,v)**2
        p=pen(x)
        if abs(p-exp_pen)>1e-9*max(1,abs(exp_pen)): fail('pen_formula',(text,x,p,exp_pen))
        if not inband and (p==0)!=allsat: fail('pen_zero',(text,x,p,allsat))
print('n',n,{k:len(v) for k,v in bad.items()})
for k,v in bad.items(): print(k,v[0])
# round trip: isolated texts
m=0; bb=0
for t in range(500):
    D=4; i=rng.randrange(D); j=rng.choice([k for k in range(D) if k!=i]); cmp=rng.choice(['=','<=','<','>=','>']); c=rng.choice([1.5,-2,0.25]); c0=rng.choice([0.,1.,-3.])
    text='x%d %s %r*x%d + %r'%(i,cmp,c,j,c0)
    con=generate_constraint(generate_solvers(text,nvars=D)); pen=generate_penalty(generate_conditions(text,nvars=D))
    x=[rng.uniform(-4,4) for _ in range(D)]
    y=con(list(x)); m+=1
    if pen(y)!=0: bb+=1; print('roundtrip',text,x,y,pen(y))
print('roundtrip',m,'bad',bb)
