import numpy as np, random, math, warnings, itertools
warnings.filterwarnings('ignore')
from mystic.math import measures as ms
from mystic.math.discrete import *
from mystic.math import distance as ds
rng=random.Random(4)
bad={}
def fail(t,i): bad.setdefault(t,[]).append(i)
def wmean(x,w): return math.fsum(a*b for a,b in zip(x,w))/math.fsum(w)
def wvar(x,w): m=wmean(x,w); return math.fsum(b*(a-m)**2 for a,b in zip(x,w))/math.fsum(w)
def close(a,b,r=1e-9): return abs(a-b)<=r*max(1,abs(a),abs(b))
for t in range(3000):
    n=rng.randint(2,8); x=[rng.uniform(-5,5) for _ in range(n)]
    w=[rng.choice([0.,rng.uniform(0.05,2)]) for _ in range(n)]
    if sum(1 for a in w if a>0)<2: w[0]=1.;w[1]=.5
    uw=rng.random()<.3
    W=None if uw else w; we=[1.]*n if uw else w
    if wvar(x,we)<1e-3: continue
    m=rng.uniform(-3,3); v=rng.uniform(0.1,4); r=rng.uniform(.5,5)
    y=ms.impose_mean(m,x,W)
    if not close(wmean(y,we),m): fail('mean',(x,w,m))
    if not close(wvar(y,we),wvar(x,we)) or not close(max(y)-min(y),max(x)-min(x)): fail('mean_keeps',(x,w))
    y=ms.impose_variance(v,x,W)
    if not close(wvar(y,we),v) or not close(wmean(y,we),wmean(x,we)): fail('var',(x,w,v,wvar(y,we),wmean(y,we),wmean(x,we)))
    y=ms.impose_spread(r,x,W)
    if not close(max(y)-min(y),r) or not close(wmean(y,we),wmean(x,we)): fail('spread',(x,w,r))
    if not close(ms.mean(x,W),wmean(x,we)) or not close(ms.variance(x,W),wvar(x,we)): fail('defs',(x,w))
    if not uw:
        idx=[i for i in range(n) if rng.random()<.5] or [0]
        if sum(w[i] for i in idx)>0:
            y,ww=ms.impose_support(idx,x,w)
            if any(ww[i]!=0 for i in range(n) if i not in idx) or not close(sum(ww),sum(w)) or not close(wmean(y,ww),wmean(x,w)): fail('support',(x,w,idx,ww))
        rest=[i for i in range(n) if i not in idx]
        if sum(w[i] for i in rest)>0:
            y,ww=ms.impose_unweighted(idx,x,w)
            if any(ww[i]!=0 for i in idx) or not close(sum(ww),sum(w)) or not close(wmean(y,ww),wmean(x,w)): fail('unweighted',(x,w,idx,ww))
        i,j=rng.sample(range(n),2)
        y,ww=ms.impose_collapse({(i,j)},x,w)
        if ww[j]!=0 or not close(ww[i],w[i]+w[j]) or y[i]!=y[j] or not close(sum(ww),sum(w)) or (sum(ww)>0 and not close(wmean(y,ww),wmean(x,w))): fail('collapse',(x,w,i,j,y,ww))
    # product measure
    pts=[rng.randint(1,3) for _ in range(rng.randint(1,3))]
    wts=[[rng.choice([0.,rng.uniform(.1,1)]) for _ in range(k)] for k in pts]; pos=[[rng.uniform(-2,2) for _ in range(k)] for k in pts]
    c=compose(pos,wts)
    ew=[math.prod(t) for t in itertools.product(*[list(reversed(q)) for q in []])] if False else None
    # order: first factor fastest
    idxs=list(itertools.product(*[range(k) for k in reversed(pts)])); idxs=[tuple(reversed(i)) for i in idxs]
    W2=[math.prod(wts[d][i[d]] for d in range(len(pts))) for i in idxs]; P2=[tuple(pos[d][i[d]] for d in range(len(pts))) for i in idxs]
    if [tuple(p) for p in c.positions]!=P2 or not all(close(a,b) for a,b in zip(c.weights,W2)): fail('product',(pts,))
    c2=product_measure().load(c.flatten(), c.pts)
    if c2.wts!=c.wts or c2.pos!=c.pos: fail('roundtrip',(pts,))
    f=lambda p: sum(p)**2
    if sum(W2)>0:
        try:
            e=c.expect(f); ee=math.fsum(a*f(p) for a,p in zip(W2,P2))/math.fsum(W2)
            if not close(e,ee): fail('expect',(pts,e,ee))
        except Exception as ex: fail('expectEXC',repr(ex))
print({k:len(v) for k,v in bad.items()})
for k,v in bad.items(): print(k,v[0])
