import numpy as np, random, copy, sys
from mystic.solvers import *
from mystic.tools import random_seed
from mystic.termination import VTR, ChangeOverGeneration as COG, Or, EvaluationLimits
from mystic.monitors import Monitor
import mystic.penalty as mp

def mk(name, dim):
    if name=='de': return DifferentialEvolutionSolver(dim, 8)
    if name=='de2': return DifferentialEvolutionSolver2(dim, 8)
    if name=='nm': return NelderMeadSimplexSolver(dim)
    if name=='pw': return PowellDirectionalSolver(dim)

calls=[]
def raw(x):
    x=np.asarray(x,float)
    return float(np.sum((x-1.3)**2)+ 0.3*np.sum(np.cos(3*x)))
def cost(x):
    calls.append(np.array(x,float).copy())
    return raw(x)

def pure_round(x):   # pure: returns new list, rounds coord 0 to 0.5 grid
    y=list(x); y[0]=round(y[0]*2)/2.; return y
def inplace_round(x):
    x[0]=round(x[0]*2)/2.; return x
def pen(x): return 10*max(0., x[1]-1.0)**2

for name in ['de','de2','nm','pw']:
  for cname,con in [('pure',pure_round),('inplace',inplace_round),('none',None)]:
    calls.clear()
    random_seed(5)
    s=mk(name,3)
    s.SetInitialPoints([0.52,2.,-1.])
    s.SetObjective(cost)
    if con: s.SetConstraints(con)
    s.SetPenalty(pen)
    s.SetTermination(VTR(-100))
    s.SetEvaluationLimits(generations=7)
    bad=[]
    for i in range(9):
        m=s.Step()
        bs=np.array(s.bestSolution,float); be=float(np.squeeze(s.bestEnergy))
        # evaluated?
        ev = any(np.array_equal(bs,c) for c in calls)
        true = raw(bs)+pen(bs)
        sat = (con is None) or abs(bs[0]*2-round(bs[0]*2))<1e-12
        # all calls satisfy constraint?
        allsat = all(abs(c[0]*2-round(c[0]*2))<1e-12 for c in calls) if con else True
        pe = []
        for p,e in zip(s.population,s.popEnergy):
            p=np.array(p,float)
            pc = np.array(con(list(p)) if con else p,float)
            pe.append(abs((raw(pc)+pen(pc))-float(np.squeeze(e)))<1e-9 or np.isinf(e))
        bad.append((i, ev, abs(true-be)<1e-9, sat, allsat, all(pe)))
        if m: break
    print(name,cname,[b for b in bad if not all(b[1:])][:4], 'gens',s.generations,'evals',s.evaluations,len(calls))
