import numpy as np, warnings
warnings.filterwarnings('ignore')
import scipy.optimize as so
from mystic import _scipy060optimize as s060
from mystic.solvers import fmin, fmin_powell
from mystic.models import rosen
fs = {
 'rosen': (lambda x: float(rosen(x)), [0.8,1.2,0.7]),
 'quad': (lambda x: float(np.sum((np.asarray(x)-1.3)**2)), [0.5,2.,-1.]),
 'abs': (lambda x: float(np.sum(np.abs(np.asarray(x)-0.3))+abs(x[0]*x[1])), [1.5,-2.]),
 'illc': (lambda x: float(1e4*(x[0]-1)**2 + (x[1]+2)**2 + 1e-2*(x[2])**2), [3.,3.,3.]),
 'zero0': (lambda x: float(np.sum(np.asarray(x)**2)+x[0]), [0.,0.,1.]),
}
for k,(f,x0) in fs.items():
    a = fmin(f, x0, full_output=1, disp=0)
    b = so.fmin(f, x0, full_output=1, disp=0)
    c = s060.fmin(f, x0, full_output=1, disp=0)
    print(k,'NM  mystic', np.round(a[0],6), a[1], a[2], a[3], a[4])
    print(k,'NM  scipy ', np.round(b[0],6), b[1], b[2], b[3], b[4])
    print(k,'NM  s060  ', np.round(c[0],6), c[1], c[2], c[3], c[4])
    a = fmin_powell(f, x0, full_output=1, disp=0)
    b = so.fmin_powell(f, x0, full_output=1, disp=0)
    c = s060.fmin_powell(f, x0, full_output=1, disp=0)
    print(k,'PW  mystic', np.round(a[0],6), float(a[1]), a[2], a[3], a[4])
    print(k,'PW  scipy ', np.round(b[0],6), float(b[1]), b[2], b[3], b[5])
    print(k,'PW  s060  ', np.round(c[0],6), float(c[1]), c[2], c[3], c[5])
