import numpy as np, random
import mystic.termination as mt
from mystic.termination import *
class Fake:
    def __init__(s, hist, pop=None, pe=None, gens=None, evals=0):
        s.energy_history=hist; s.population=pop; s.popEnergy=pe; s._fcalls=[evals]
        s.generations = max(0,len(hist)-1) if gens is None else gens
        s._EARLYEXIT=False; s.bestSolution=pop[0] if pop else None; s.trialSolution=pop[-1] if pop else None
rng=random.Random(1)
bad=0
for t in range(3000):
    n=rng.randint(0,8)
    hist=[rng.choice([0.,1.,2.,-1.,float('inf'),0.5,1e-7,3.]) for _ in range(n)]
    hist=sorted(hist,reverse=True) if rng.random()<.7 else hist
    tol=rng.choice([0,1e-6,0.5,1.,2.]); g=rng.choice([0,1,2,3,5,None,10]); target=rng.choice([0.,1.,-1.])
    f=Fake(hist)
    # VTR
    exp = (len(hist)>0 and abs(hist[-1]-target)<=tol)
    got = bool(VTR(tol,target)(f))
    if exp!=got: bad+=1; print('VTR',hist,tol,target,exp,got)
    gg = 0 if g is None else int(g)
    with np.errstate(all='ignore'):
      exp = (len(hist)>gg and ((hist[-gg]-hist[-1])<=tol))
      got = bool(ChangeOverGeneration(tol,g)(f))
      if exp!=got: bad+=1; print('COG',hist,tol,g,exp,got)
      exp = (len(hist)>gg and (2.0*(hist[-gg]-hist[-1]) <= tol*(abs(hist[-gg])+abs(hist[-1]))+1e-20))
      got = bool(NormalizedChangeOverGeneration(tol,g)(f))
      if exp!=got: bad+=1; print('NCOG',hist,tol,g,exp,got)
    if bad>10: break
print('bad',bad)
# compound
a=VTR(0.5); b=ChangeOverGeneration(1e-6,2); c=VTR(0.1,1.0)
f=Fake([3.,1.,1.,1.])
for term in [And(a,b), Or(a,b), Or(a,c), And(b,c), When(c), And(Or(a,c),b), Or(And(a,b),c)]:
    print(term, bool(term(f)), repr(term(f,True)), term(f,'self'))
print(mt.state(And(Or(a,c),b)))
d = mt.state(c); k=list(d)[0]; r = mt.type(c)(**d[k]); print(k, r.__doc__, r(f,True))
