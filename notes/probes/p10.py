import numpy as np, random, copy, itertools
from mystic.solvers import *
from mystic.tools import random_seed
from mystic.termination import VTR
from mystic.monitors import Monitor
import mystic.penalty as mp
def mk(name, dim):
    if name=='de': return DifferentialEvolutionSolver(dim, 8)
    if name=='de2': return DifferentialEvolutionSolver2(dim, 8)
    if name=='nm': return NelderMeadSimplexSolver(dim)
    if name=='pw': return PowellDirectionalSolver(dim)
def cost(x):
    x=np.asarray(x,float)
    return float(np.sum((x-1.3)**2)+ 0.3*np.sum(np.cos(3*x)))
def con(x):
    y=list(x); y[0]=round(y[0]*2)/2.; return y
def pen(x): return 10*max(0., x[1]-1.0)**2
pop0 = None
def traj(name, order):
    random_seed(3)
    s=mk(name,3)
    s.SetInitialPoints([0.5,1.2,-1.])  # consumes random
    pop=copy.deepcopy(s.population)
    ops = {
     'obj': lambda: s.SetObjective(cost),
     'con': lambda: s.SetConstraints(con),
     'pen': lambda: s.SetPenalty(pen),
     'rng': lambda: s.SetStrictRanges([-3,-3,-3],[3,3,3]),
     'lim': lambda: s.SetEvaluationLimits(generations=6),
     'trm': lambda: s.SetTermination(VTR(-100)),
     'mon': lambda: (s.SetGenerationMonitor(Monitor()), s.SetEvaluationMonitor(Monitor())),
     'pts': lambda: None,
    }
    for o in order: ops[o]()
    random_seed(99)
    out=[]
    for i in range(7):
        s.Step()
        out.append((np.array(s.population,float).round(12).tolist(), np.array(s.popEnergy,float).round(12).tolist(), s.generations, s.evaluations))
    return out
import sys
keys=['obj','con','pen','rng','lim','trm','mon']
rng=random.Random(0)
for name in ['de','de2','nm','pw']:
    base=traj(name, keys)
    nd=0
    for t in range(12):
        o=keys[:]; rng.shuffle(o)
        tr=traj(name,o)
        if tr!=base:
            nd+=1
            # find first diff
            for i,(a,b) in enumerate(zip(base,tr)):
                if a!=b:
                    print(name,'DIFF order',o,'step',i,[k for k in range(4) if a[k]!=b[k]]); break
    print(name,'ndiff',nd)
