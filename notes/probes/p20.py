import numpy as np, random, io, contextlib, sys
from mystic.solvers import *
from mystic.tools import random_seed
from mystic.termination import VTR
rng=random.Random(5)
def mk(name, dim):
    if name=='de': return DifferentialEvolutionSolver(dim, 6)
    if name=='de2': return DifferentialEvolutionSolver2(dim, 6)
    if name=='nm': return NelderMeadSimplexSolver(dim)
    if name=='pw': return PowellDirectionalSolver(dim)
fails={}
def fail(tag,info): fails.setdefault(tag,[]).append(info)
N=0
for trial in range(400):
  for name in ['de','de2','nm','pw']:
    dim=3; calls=[]
    a=[rng.uniform(-2,2) for _ in range(dim)]
    def raw(x):
        x=np.asarray(x,float); return float(np.sum((x-a)**2)+0.3*np.sum(np.cos(3*x)))
    def cost(x):
        calls.append(np.array(x,float).copy()); return raw(x)
    lo=np.array([rng.uniform(-3,-1) for _ in range(dim)]); hi=lo+np.array([rng.uniform(1,4) for _ in range(dim)])
    lo[0]=np.floor(lo[0]*2)/2; hi[0]=np.ceil(hi[0]*2)/2
    flavour=rng.choice(['pure_list','pure_arr','inplace'])
    ck=rng.choice(['grid','pin','none'])
    pinv=rng.uniform(lo[1],hi[1])
    def cpure(x):
        y=[float(v) for v in x]
        if ck=='grid': y[0]=round(y[0]*2)/2.
        elif ck=='pin': y[1]=pinv
        return y
    def sat(x):
        if ck=='grid': return x[0]*2==round(x[0]*2)
        if ck=='pin': return x[1]==pinv
        return True
    if flavour=='pure_list': con=cpure
    elif flavour=='pure_arr': con=lambda x: np.array(cpure(x))
    else:
        def con(x):
            y=cpure(x)
            for i in range(len(y)): x[i]=y[i]
            return x
    if ck=='none': con=None
    pk=rng.choice([0,3.0])
    pen=(lambda x: pk*max(0.,x[2]-0.5)**2) if pk else None
    tight,clip=rng.choice([(None,None),(True,None),(False,None),(None,True),(True,True)])
    usebounds=rng.random()<0.7
    random_seed(trial)
    s=mk(name,dim)
    x0=[rng.uniform(lo[i],hi[i]) for i in range(dim)] if rng.random()<0.7 else [rng.uniform(-5,5) for i in range(dim)]
    s.SetInitialPoints(x0); s.SetObjective(cost)
    if con: s.SetConstraints(con)
    if pen: s.SetPenalty(pen)
    if usebounds: s.SetStrictRanges(list(lo),list(hi),tight=tight,clip=clip)
    s.SetTermination(VTR(-1e9)); s.SetEvaluationLimits(generations=rng.randint(1,8))
    def F(x):
        y=np.array(con(list(x)) if con else x,float)
        if usebounds and (np.any(y<lo) or np.any(y>hi)): return np.inf
        return raw(y)+(pen(y) if pen else 0.)
    E0=None
    cfg=(name,flavour,ck,bool(pen),usebounds,tight,clip)
    try:
      for it in range(10):
        with contextlib.redirect_stdout(io.StringIO()): msg=s.Step()
        N+=1
        bs=np.array(s.bestSolution,float); be=float(np.squeeze(s.bestEnergy))
        if np.isfinite(be):
            if not any(np.array_equal(bs,c) for c in calls): fail('evaluated',cfg)
            elif be!=raw(bs)+(pen(bs) if pen else 0.): fail('energy',cfg+(be,raw(bs)+(pen(bs) if pen else 0.)))
            if not sat(bs): fail('sat_best',cfg)
            if usebounds and (np.any(bs<lo) or np.any(bs>hi)): fail('best_in_box',cfg)
        if usebounds and any(np.any(c<lo) or np.any(c>hi) for c in calls): fail('call_out',cfg)
        if con and not all(sat(c) for c in calls): fail('call_unsat',cfg)
        if name!='nm' or s.generations>=1:
            for p,e in zip(s.population,s.popEnergy):
                e=float(np.squeeze(e)); f=F(np.array(p,float))
                if e!=f and not (abs(e-f)<=1e-12*abs(f)): fail('members',cfg+(e,f,s.generations)); break
        if E0 is None: E0=be
        if be>E0: fail('worse',cfg)
        if msg: break
    except Exception as ex:
        fail('EXC',cfg+(type(ex).__name__,str(ex)[:80]))
print('steps',N,{k:len(v) for k,v in fails.items()})
from collections import Counter
for k,v in fails.items():
    print(k, Counter((t[0],t[1]) for t in v).most_common(6), v[0])
print('---- by ck')
for k,v in fails.items():
    print(k, Counter((t[0],t[2],t[4]) for t in v).most_common(8))
