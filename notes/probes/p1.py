import numpy as np, random
from mystic.solvers import *
from mystic.tools import random_seed
from mystic.termination import VTR, ChangeOverGeneration as COG
from mystic.monitors import Monitor

def mk(name, dim):
    if name=='de': return DifferentialEvolutionSolver(dim, 8)
    if name=='de2': return DifferentialEvolutionSolver2(dim, 8)
    if name=='nm': return NelderMeadSimplexSolver(dim)
    if name=='pw': return PowellDirectionalSolver(dim)

calls=[]
def cost(x):
    calls.append(list(map(float,x)))
    return float(sum((np.asarray(x)-1.3)**2))

# C04: counter after reconfiguration
for name in ['de','de2','nm','pw']:
    calls.clear()
    random_seed(3)
    s = mk(name,3)
    s.SetInitialPoints([0.5,2.,-1.])
    em = Monitor()
    s.SetEvaluationMonitor(em)
    s.SetObjective(cost)
    s.SetTermination(VTR(1e-12))
    for i in range(3): s.Step()
    a = (s.evaluations, len(calls), len(em), s.generations)
    s.SetConstraints(lambda x: x)
    for i in range(3): s.Step()
    b = (s.evaluations, len(calls), len(em), s.generations)
    s.SetStrictRanges([-5]*3,[5]*3)
    for i in range(3): s.Step()
    c = (s.evaluations, len(calls), len(em), s.generations)
    print(name, a, b, c)
