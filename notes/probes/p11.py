import numpy as np, random, copy, itertools
import costmod
from mystic.solvers import *
from mystic.tools import random_seed
from mystic.termination import VTR, ChangeOverGeneration as COG
from mystic.monitors import Monitor
for cls,arg in [(LatticeSolver,(2,3)),(BuckshotSolver,5),(SparsitySolver,4)]:
  for nested in [NelderMeadSimplexSolver, PowellDirectionalSolver, 'de']:
   for step in [False, True]:
    random_seed(4); costmod.CALLS.clear()
    s=cls(2,arg)
    if nested=='de':
        s.SetNestedSolver(DifferentialEvolutionSolver, NP=6)
    else: s.SetNestedSolver(nested)
    s.SetStrictRanges([-2,-2],[4,4])
    s.SetEvaluationLimits(generations=15)
    s.SetEvaluationMonitor(Monitor()); s.SetGenerationMonitor(Monitor())
    try:
        s.Solve(costmod.cost, termination=COG(1e-6,5), step=step, disp=0)
    except Exception as e:
        import traceback; traceback.print_exc(); print(cls.__name__, nested, step, 'EXC', type(e).__name__, e); continue
    be=[float(np.squeeze(e)) for e in s._all_bestEnergy]
    print(cls.__name__, getattr(nested,'__name__',nested), 'step' if step else 'solve', 'n',len(s._allSolvers), 'best',float(np.squeeze(s.bestEnergy))==min(be),
          'total',s._total_evals, 'real',len(costmod.CALLS), 'evals', s.evaluations, 'firstpts', [np.array(a._stepmon._x[0]).round(3).tolist() for a in s._allSolvers][:3],
          'cost(best)==E', abs(costmod.cost(s.bestSolution)-float(np.squeeze(s.bestEnergy)))<1e-12)
