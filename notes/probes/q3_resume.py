import numpy as np, random, os, tempfile, io, contextlib, warnings, dill, copy
warnings.filterwarnings('ignore')
from mystic.solvers import *
from mystic.tools import random_seed
from mystic.termination import VTR
from mystic.monitors import Monitor, LoggingMonitor, VerboseMonitor
import mystic.penalty as mp
from mystic.symbolic import generate_constraint, generate_solvers
def mk(name, dim):
    return {'de':lambda:DifferentialEvolutionSolver(dim,6),'de2':lambda:DifferentialEvolutionSolver2(dim,6),'nm':lambda:NelderMeadSimplexSolver(dim),'pw':lambda:PowellDirectionalSolver(dim)}[name]()
def cost(x):
    x=np.asarray(x,float); return float(np.sum((x-1.3)**2)+0.3*np.sum(np.cos(3*x)))
def snap(s):
    f=lambda a:[float(np.squeeze(v)) for v in a]
    return dict(pop=np.array(s.population,float).tolist(), pe=f(s.popEnergy), bs=np.array(s.bestSolution,float).tolist(), be=float(np.squeeze(s.bestEnergy)), ev=int(s.evaluations), gen=s.generations,
      sx=np.array(s._stepmon._x,float).tolist() if len(s._stepmon) else [], sy=f(s._stepmon._y), ex=[list(map(float,x)) for x in s._evalmon._x], eh=f(s.energy_history))
rng=random.Random(3); d=tempfile.mkdtemp(); nd=0; n=0
for t in range(120):
  for name in ['de','de2','nm','pw']:
    k=rng.randint(0,4); m=rng.randint(1,4)
    cfg=dict(con=rng.choice([None,'closure','symbolic']), pen=rng.random()<.5, box=rng.random()<.5, mon=rng.choice(['plain','log','verbose']), freq=rng.choice([None,1,2]))
    def build():
        random_seed(t)
        s=mk(name,3); s.SetInitialPoints([0.5,2.,-1.]); s.SetObjective(cost)
        a=0.5
        if cfg['con']=='closure': s.SetConstraints(lambda x: [round(x[0]/a)*a]+list(x[1:]))
        elif cfg['con']=='symbolic': s.SetConstraints(generate_constraint(generate_solvers('x1 = x0 + 0.5',nvars=3)))
        if cfg['pen']: s.SetPenalty(mp.quadratic_inequality(lambda x: x[2]-0.2,k=7)(lambda x:0.))
        if cfg['box']: s.SetStrictRanges([-3]*3,[3]*3)
        if cfg['mon']=='log': s.SetGenerationMonitor(LoggingMonitor(1,os.path.join(d,'l%d.txt'%rng.randrange(10**9)),new=True))
        elif cfg['mon']=='verbose': s.SetGenerationMonitor(VerboseMonitor(1))
        s.SetEvaluationMonitor(Monitor())
        s.SetTermination(VTR(-100)); s.SetEvaluationLimits(generations=30)
        return s
    with contextlib.redirect_stdout(io.StringIO()):
        try:
            A=build(); ref=[]
            for i in range(k+1+m): A.Step(); ref.append(snap(A))
            B=build()
            for i in range(k+1): B.Step()
            fn=os.path.join(d,'s.pkl'); B.SaveSolver(fn); blob=open(fn,'rb').read()
            st=random.getstate(); nst=np.random.get_state()
            B.Step()   # advance original
            random.setstate(st); np.random.set_state(nst)
            open(fn,'wb').write(blob); C=LoadSolver(fn)
            got=[]
            for i in range(m): C.Step(); got.append(snap(C))
            n+=1
            if got!=ref[k+1:]:
                nd+=1
                diff=[key for key in got[0] if got[0][key]!=ref[k+1][key]]
                if nd<6: print('DIFF',name,k,m,cfg,diff, file=__import__('sys').stderr)
        except Exception as e:
            print('EXC',name,cfg,type(e).__name__,str(e)[:100], file=__import__('sys').stderr)
print('n',n,'diffs',nd)
import shutil; shutil.rmtree(d)
