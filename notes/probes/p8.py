import numpy as np, random, copy
from mystic.solvers import *
from mystic.tools import random_seed
from mystic.termination import VTR
from mystic.monitors import Monitor
def mk(name, dim):
    if name=='de': return DifferentialEvolutionSolver(dim, 8)
    if name=='de2': return DifferentialEvolutionSolver2(dim, 8)
    if name=='nm': return NelderMeadSimplexSolver(dim)
    if name=='pw': return PowellDirectionalSolver(dim)
N=[0]
def cost(x):
    N[0]+=1
    x=np.asarray(x,float)
    return float(np.sum((x-1.3)**2)+ 0.3*np.sum(np.cos(3*x)))
for name in ['de','de2','nm','pw']:
  for em in [False, True]:
    random_seed(11); N[0]=0
    s=mk(name,3); s.SetInitialPoints([0.5,2.,-1.]); s.SetObjective(cost)
    if em: s.SetEvaluationMonitor(Monitor())
    s.SetTermination(VTR(-100)); s.SetEvaluationLimits(generations=50)
    for i in range(3): s.Step()
    n0=N[0]
    c=copy.deepcopy(s)
    e0=(s.evaluations,c.evaluations, s.generations, c.generations)
    st=random.getstate()
    for i in range(2): c.Step()
    e1=(s.evaluations,c.evaluations, s.generations, c.generations, N[0]-n0)
    random.setstate(st)
    for i in range(2): s.Step()
    e2=(s.evaluations,c.evaluations, s.generations, c.generations)
    same = np.allclose(np.array(s.population,float), np.array(c.population,float)) and float(np.squeeze(s.bestEnergy))==float(np.squeeze(c.bestEnergy))
    print(name, 'evalmon' if em else '-', e0, e1, e2, 'sametraj', same)
