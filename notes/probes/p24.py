import numpy as np, warnings, io, contextlib
warnings.filterwarnings('ignore')
from mystic.solvers import *
from mystic.termination import *
import mystic.termination as mt
from mystic.tools import random_seed
from mystic.monitors import Monitor
calls=[]
def cost(x):
    calls.append(np.array(x,float).copy()); x=np.asarray(x,float)
    return float((x[0]-1)**2 + (x[1]-x[2])**2*0 + (x[1]+2)**2 + abs(x[3])*0)   # x2,x3 flat
for name,mk in [('nm',lambda: NelderMeadSimplexSolver(4)),('de',lambda: DifferentialEvolutionSolver(4,10)),('pw',lambda: PowellDirectionalSolver(4))]:
    calls.clear(); random_seed(2)
    s=mk(); s.SetInitialPoints([0.5,0.5,0.5,0.5]); s.SetObjective(cost)
    term=Or(ChangeOverGeneration(1e-10,15), CollapseAt(None,1e-3,4), CollapseAs(False,1e-3,4))
    s.SetTermination(term); s.SetEvaluationLimits(generations=200)
    log=[]
    orig=s.Collapse
    def wrapped(disp=False, _orig=orig):
        r=_orig(disp); log.append((len(calls), s.generations, dict(r) if r else r)); return r
    s.Collapse=wrapped
    try:
        with contextlib.redirect_stdout(io.StringIO()): s.Solve()
    except Exception as e:
        import traceback; traceback.print_exc()
    print(name,'gens',s.generations,'evals',len(calls),'best',np.round(s.bestSolution,4),'msg',s.Terminated(info=True)[:80])
    for l in log: print('   collapse at call',l[0],'gen',l[1],l[2])
    print('   masks', {k.split(' with')[0]:v.get('mask') for k,v in mt.state(s._termination).items()})
