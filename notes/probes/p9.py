import numpy as np, random, copy
from mystic.solvers import *
from mystic.tools import random_seed
from mystic.termination import VTR
from mystic.monitors import Monitor
def mk(name, dim):
    if name=='de': return DifferentialEvolutionSolver(dim, 8)
    if name=='de2': return DifferentialEvolutionSolver2(dim, 8)
    if name=='nm': return NelderMeadSimplexSolver(dim)
    if name=='pw': return PowellDirectionalSolver(dim)
N=[0]
def cost(x):
    N[0]+=1
    x=np.asarray(x,float)
    return float(np.sum((x-1.3)**2)+ 0.3*np.sum(np.cos(3*x)))
for name in ['de','de2','nm','pw']:
  for (g,e,new) in [(0,None,False),(1,None,False),(3,None,False),(None,0,False),(None,1,False),(None,30,False),(2,None,True),(None,20,True),(0,0,False)]:
    random_seed(11); N[0]=0
    s=mk(name,3); s.SetInitialPoints([0.5,2.,-1.]); s.SetObjective(cost)
    s.SetTermination(VTR(-100))
    pre=0
    if new:
        s.SetEvaluationLimits(generations=50)
        for i in range(3): s.Step()
        pre=(s.generations,s.evaluations)
    s.SetEvaluationLimits(g,e,new=new)
    log=[]
    for i in range(8):
        g0,e0=s.generations,N[0]
        m=s.Step()
        log.append((s.generations-g0, N[0]-e0, bool(m)))
    print(name,(g,e,new),'pre',pre,'final gen',s.generations,'evals',s.evaluations,N[0],'maxiter',s._maxiter,'maxfun',s._maxfun,log[:6], s.Terminated(info=True))
