import numpy as np
from mystic.solvers import *
from mystic.termination import VTR
from mystic.tools import random_seed
from mystic.monitors import Monitor
N=[0]
def cost(x):
    N[0]+=1
    return float('inf') if x[0]>0.5 else float(np.sum(np.asarray(x)**2))
for em in [False,True]:
    N[0]=0; random_seed(1)
    s=DifferentialEvolutionSolver2(2,8); s.SetRandomInitialPoints([-2,-2],[2,2]); s.SetObjective(cost)
    if em: s.SetEvaluationMonitor(Monitor())
    s.SetTermination(VTR(-1)); s.SetEvaluationLimits(generations=5); s.Solve()
    print('DE2 evalmon' if em else 'DE2 no evalmon', 'evaluations', int(s.evaluations), 'real', N[0])
