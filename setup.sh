#!/bin/sh
# offline setup: the framework is pure Python; make sure hypothesis is importable
cd "$(dirname "$0")" || exit 2
PY=/venv/bin/python
if ! $PY -c 'import hypothesis' 2>/dev/null; then
  /venv/bin/pip install --no-index --find-links /opt/veriftools/wheels --target "$(pwd)/.deps" hypothesis || exit 2
fi
# atheris (coverage-guided extra of the thorough tiers): optional, a missing wheel only switches that extra off
if ! PYTHONPATH="$(pwd)/.deps" $PY -c 'import atheris' 2>/dev/null; then
  /venv/bin/pip install --no-index --find-links /opt/veriftools/wheels --target "$(pwd)/.deps" atheris >/dev/null 2>&1 || echo "note: atheris not installed"
fi
PYTHONPATH="$(pwd)/.deps" $PY -c 'import hypothesis, numpy, scipy, sympy, dill; print("deps ok: hypothesis", hypothesis.__version__)' || exit 2
