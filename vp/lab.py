"""The solver lab (DESIGN.md 3.1): builds mystic solvers, cost/constraint/penalty
catalog objects, recorders, snapshots and harness-owned maps from plain data."""
import math, os, io
import numpy as np
from hypothesis import strategies as st
from vp.util import F, FL, finite_floats

SOLVERS = ['DE', 'DE2', 'NM', 'PW']
STRATEGIES = ['Best1Exp', 'Best1Bin', 'Rand1Exp', 'Rand1Bin', 'RandToBest1Exp', 'RandToBest1Bin',
              'Best2Exp', 'Best2Bin', 'Rand2Exp', 'Rand2Bin']

MIN_NPOP = {'Best1': 4, 'Rand1': 4, 'RandToBest1': 4, 'Best2': 5, 'Rand2': 6}


def min_npop(strategy):
    return MIN_NPOP[strategy[:-3]]


# --------------------------------------------------------------------------- registry
# Recording cost objects pickle (dill, deepcopy) to a registry lookup, so copies made by
# ensembles / checkpoints / deepcopy keep pointing at the *same* recorder.
REG = {}


def _lookup(key):
    return REG[key]


def reset_registry():
    REG.clear()


def fvec(x):
    return tuple(float(v) for v in np.asarray(x, dtype=float).ravel())


# --------------------------------------------------------------------------- costs
def raw_cost(spec, x):
    """the pure cost value (python float, or list for array-valued families)"""
    x = np.asarray(x, dtype=float).ravel()
    fam = spec['fam']
    a = np.asarray(FL(spec['a']), dtype=float)[:len(x)]
    w = np.asarray(FL(spec.get('w', [1.0] * len(x))), dtype=float)[:len(x)]
    if fam == 'quad':
        return float(np.sum(w * (x - a) ** 2))
    if fam == 'rosen':
        if len(x) < 2:
            return float(np.sum(w * (x - a) ** 2))
        y = x - a + 1.0
        return float(np.sum(100.0 * (y[1:] - y[:-1] ** 2) ** 2 + (1 - y[:-1]) ** 2))
    if fam == 'abs':
        return float(np.sum(w * np.abs(x - a)))
    if fam == 'cos':
        return float(np.sum((x - a) ** 2) + 0.3 * np.sum(np.cos(3 * x)))
    if fam == 'plateau':
        return float(np.floor(np.sum(np.abs(x - a))))
    if fam == 'lin':          # unbounded below: a run on it only ever ends on a limit
        return float(np.sum(w * (x - a)))
    if fam == 'rast':         # Rastrigin-type: rugged, makes Nelder-Mead shrink
        return float(np.sum((x - a) ** 2 + 3.0 * (1.0 - np.cos(2.0 * np.pi * (x - a)))))
    if fam == 'stair':        # a quadratic bowl quantised to steps of 1/k: exact ties occur between nearby points
        k = float(spec.get('k', 10.0))
        return float(np.floor(k * np.sum(w * (x - a) ** 2)) / k)
    if fam == 'nanhalf':      # undefined (NaN) on a half space, like a log of a negative argument
        if x[0] > a[0] + 1.0:
            return float('nan')
        return float(np.sum(w * (x - a) ** 2))
    if fam == 'infhalf':
        if x[0] > a[0] + 1.0:
            return float('inf')
        return float(np.sum(w * (x - a) ** 2))
    if fam == 'vec':          # array-valued, for reducers
        if spec.get('single'):    # one signed residual (a fit to a single data point)
            return [float(np.sum(w * (x - a))) + float(spec.get('c', 0.25))]
        off = float(spec.get('off', 0.0))    # off > 0: signed margins, all negative near the optimum
        return [float(v) - off for v in (w * (x - a) ** 2)] + [float(spec.get('c', 0.25))]
    raise ValueError(fam)


def shape_value(spec, v):
    ret = spec.get('ret', 'float')
    if isinstance(v, list):
        return np.array(v, dtype=float) if ret != 'list' else v
    if ret == 'float':
        return v
    if ret == 'npfloat':
        return np.float64(v)
    if ret == 'arr0':
        return np.array(v)
    if ret == 'arr1':
        return np.array([v])
    return v


class Cost(object):
    """recording cost function; every call appends (x, raw value)"""
    def __init__(self, key, spec, extra=0):
        self.key = key
        self.spec = spec
        self.calls = []          # list of (xtuple, value)
        self.extra = extra       # number of ExtraArgs expected (they are added to the value)
        self.enabled = True
        REG[key] = self

    def __call__(self, x, *args):
        xt = fvec(x)
        v = raw_cost(self.spec, xt)
        if args:
            off = float(sum(args))
            v = [u + off for u in v] if isinstance(v, list) else v + off
        if self.enabled:
            self.calls.append((xt, v))
        return shape_value(self.spec, v)

    def __reduce__(self):
        return (_lookup, (self.key,))

    def __deepcopy__(self, memo):
        return self

    def __copy__(self):
        return self

    def pure(self, x, *args):
        v = raw_cost(self.spec, fvec(x))
        if args:
            off = float(sum(args))
            v = [u + off for u in v] if isinstance(v, list) else v + off
        return v

    def ncalls(self):
        return len(self.calls)

    def lookup(self, x):
        """value recorded for the vector x (bit-for-bit) or None"""
        xt = fvec(x)
        for c, v in reversed(self.calls):
            if c == xt:
                return v
        return None


@st.composite
def cost_specs(draw, dim, families=('quad', 'rosen', 'abs', 'cos', 'plateau', 'infhalf', 'stair', 'rast'), rets=('float', 'npfloat', 'arr0')):
    fam = draw(st.sampled_from(list(families)))
    a = draw(st.lists(st.one_of(st.sampled_from([0.0, 1.0, -1.5, 0.5, 2.0]), finite_floats(-3, 3)), min_size=dim, max_size=dim))
    w = draw(st.lists(st.sampled_from([1.0, 1.0, 0.5, 10.0, 1e3, 1e-2]), min_size=dim, max_size=dim))
    spec = dict(fam=fam, a=a, w=w, ret=draw(st.sampled_from(list(rets))))
    if fam == 'stair':
        spec['k'] = draw(st.sampled_from([1.0, 2.0, 10.0, 10.0, 64.0]))
    if fam == 'vec':
        spec['c'] = draw(st.sampled_from([0.0, 0.25, 1.0]))
        spec['ret'] = 'array'
        if draw(st.integers(0, 2)) == 0:
            spec['off'] = draw(st.sampled_from([0.5, 2.0, 100.0])); spec['c'] = draw(st.sampled_from([-1.0, -0.25, 0.25]))
        if draw(st.integers(0, 3)) == 0:
            spec['single'] = True
    return spec


# --------------------------------------------------------------------------- reducers
def reducer_fn(spec):
    kind = spec['kind']
    if kind == 'sum':
        return (lambda a: float(np.sum(a))), True
    if kind == 'max':
        return (lambda a: float(np.max(a))), True
    if kind == 'mean':
        return (lambda a: float(np.mean(a))), True
    if kind == 'sumsq':     # chi-square: not the identity on a single value
        return (lambda a: float(np.sum(np.asarray(a, dtype=float) ** 2))), True
    if kind == 'maxabs':
        return (lambda a: float(np.max(np.abs(np.asarray(a, dtype=float))))), True
    if kind == 'add2':      # python-reduce style
        return (lambda x, y: x + y), False
    if kind == 'max2':
        return (lambda x, y: x if x > y else y), False
    if kind == 'min2':
        return (lambda x, y: x if x < y else y), False
    raise ValueError(kind)


def reduce_value(spec, v):
    """harness-side reduction of a recorded array-valued cost"""
    if spec is None or not isinstance(v, list):
        return v
    k = spec['kind']
    if k in ('sum',):
        return float(np.sum(np.array(v, float)))
    if k == 'add2':
        r = v[0]
        for u in v[1:]:
            r = r + u
        return r
    if k in ('max', 'max2'):
        return float(max(v))
    if k == 'min2':
        return float(min(v))
    if k == 'mean':
        return float(np.mean(np.array(v, float)))
    if k == 'sumsq':
        return float(np.sum(np.asarray(v, dtype=float) ** 2))
    if k == 'maxabs':
        return float(np.max(np.abs(np.asarray(v, dtype=float))))
    raise ValueError(k)


# --------------------------------------------------------------------------- constraints
class Constraint(object):
    """deterministic, idempotent constraint with an independent predicate sat(x)"""
    def __init__(self, spec):
        self.spec = spec
        self.kind = spec['kind']
        self.inplace = bool(spec.get('inplace', False))
        self.ret = spec.get('ret', 'same')
        self.ncalls = 0
        self.moved = 0
        self._sym = None
        if self.kind == 'symbolic':
            from mystic.symbolic import generate_constraint, generate_solvers, simplify
            self._sym = generate_constraint(generate_solvers(simplify(spec['text'])))

    # the mathematical map, on a float list
    def _map(self, v):
        s = self.spec; k = self.kind
        v = list(v)
        if k == 'pin':
            v[s['i']] = F(s['c'])
        elif k == 'clamp':
            i = s['i']; v[i] = min(max(v[i], F(s['lo'])), F(s['hi']))
        elif k == 'round':
            g = F(s['g'])
            for i in (range(len(v)) if s.get('all') else [s['i']]):
                if math.isfinite(v[i]): v[i] = round(v[i] / g) * g
        elif k == 'tie':
            v[s['j']] = F(s['a']) * v[s['i']] + F(s['b'])
        elif k == 'sort':
            v = sorted(v)
        elif k == 'push':      # NOT idempotent / not box-compatible: used by C02 only
            v[s['i']] = v[s['i']] + F(s['d'])
        elif k == 'symbolic':
            v = [float(u) for u in self._sym(list(v))]
        else:
            raise ValueError(k)
        return v

    def __call__(self, x):
        self.ncalls += 1
        isarr = isinstance(x, np.ndarray)
        old = [float(u) for u in x]
        new = self._map(old)
        if new != old:
            self.moved += 1
        if self.inplace:
            for i, u in enumerate(new):
                x[i] = u
            return x
        if self.ret == 'pyint':
            # what user code with integer literals returns: integral entries come back as python ints
            return [int(u) if (math.isfinite(u) and float(u).is_integer() and abs(u) < 2.0 ** 53) else u for u in new]
        if self.ret == 'list' or (self.ret == 'same' and not isarr):
            return list(new)
        return np.array(new, dtype=float)

    def apply(self, x):
        """harness-side evaluation (does not touch counters)"""
        return self._map([float(u) for u in x])

    def sat(self, x):
        s = self.spec; k = self.kind
        v = [float(u) for u in x]
        if k == 'pin':
            return v[s['i']] == F(s['c'])
        if k == 'clamp':
            return F(s['lo']) <= v[s['i']] <= F(s['hi'])
        if k == 'round':
            g = F(s['g'])
            return all((not math.isfinite(v[i])) or v[i] == round(v[i] / g) * g
                       for i in (range(len(v)) if s.get('all') else [s['i']]))
        if k == 'tie':
            return v[s['j']] == F(s['a']) * v[s['i']] + F(s['b'])
        if k == 'sort':
            return all(v[i] <= v[i + 1] for i in range(len(v) - 1))
        if k == 'symbolic':
            return self.spec['pred'] is None or _sym_pred(self.spec['pred'], v)
        if k == 'push':
            return True
        raise ValueError(k)


def _sym_pred(pred, v):
    # pred: ['eq', i, c] | ['tie', j, i, a, b]
    if pred[0] == 'eq':
        return v[pred[1]] == F(pred[2])
    if pred[0] == 'tie':
        return v[pred[1]] == F(pred[3]) * v[pred[2]] + F(pred[4])
    raise ValueError(pred)


@st.composite
def constraint_specs(draw, dim, box=None, symbolic=True):
    """idempotent constraints; with a box (lo, hi lists) the parameters are drawn so that the
    constraint maps the box into itself"""
    kinds = ['pin', 'clamp', 'round']
    if dim >= 2:
        kinds += ['tie', 'sort']
    if symbolic:
        kinds += ['symbolic']
    kind = draw(st.sampled_from(kinds))
    i = draw(st.integers(0, dim - 1))
    lo = F(box[0][i]) if box else -3.0
    hi = F(box[1][i]) if box else 3.0
    if not math.isfinite(lo): lo = -3.0 if not math.isfinite(hi) else hi - 6.0
    if not math.isfinite(hi): hi = lo + 6.0
    frac = lambda: draw(st.sampled_from([0.0, 0.25, 0.5, 0.75, 1.0, 0.3]))
    spec = dict(kind=kind, inplace=draw(st.booleans()), ret=draw(st.sampled_from(['same', 'list', 'array', 'same', 'pyint'])))
    if kind == 'pin':
        spec.update(i=i, c=lo + frac() * (hi - lo))
    elif kind == 'clamp':
        f1, f2 = sorted([frac(), frac()])
        spec.update(i=i, lo=lo + f1 * (hi - lo), hi=lo + f2 * (hi - lo))
    elif kind == 'round':
        # a grid that contains both ends of the box side (so rounding never leaves the box)
        # (dyadic grids, also fine ones: with a fine grid the vertices of a simplex sit on different grid values, and
        # the midpoint of two grid points an odd number of steps apart is off the grid)
        n = draw(st.sampled_from([1, 2, 4, 8, 64, 256]))
        if box:
            g = (hi - lo) / n if hi > lo else 1.0
            # only exact if lo is a multiple of g: use an integer box in the generator for this kind
            spec.update(i=i, g=g)
        else:
            spec.update(i=i, g=draw(st.sampled_from([1.0, 0.5, 0.25, 2.0, 0.015625, 0.00390625])))
        if draw(st.booleans()):
            spec['all'] = True          # every coordinate on the grid (callers re-check box compatibility)
    elif kind == 'tie':
        j = draw(st.integers(0, dim - 1).filter(lambda k: k != i))
        if box:
            # identical bounds are arranged by some case generators (a=1, b=0); otherwise an affine map that takes side
            # i into side j (x_j = x_i/2 on [0,2]^2 ...): box_compatible() decides, callers re-check
            lo_j = F(box[0][j]); hi_j = F(box[1][j])
            a_, b_ = draw(st.sampled_from([(1.0, 0.0), (1.0, 0.0), (0.5, 0.0), (0.5, None), (-1.0, None), (0.25, None)]))
            if b_ is None:
                # place the image of side i at the lower end of side j
                img = sorted([a_ * lo, a_ * hi])
                b_ = (lo_j - img[0]) if all(math.isfinite(v) for v in (lo_j, img[0])) else 0.0
            spec.update(i=i, j=j, a=a_, b=b_)
        else:
            spec.update(i=i, j=j, a=draw(st.sampled_from([1.0, -1.0, 0.5, 2.0])), b=draw(st.sampled_from([0.0, 1.0, -0.5])))
    elif kind == 'symbolic':
        if dim >= 2 and not box and draw(st.booleans()):
            j = draw(st.integers(0, dim - 1).filter(lambda k: k != i))
            a = draw(st.sampled_from([1.0, 2.0, 0.5, -1.0])); b = draw(st.sampled_from([0.0, 1.0, -0.5]))
            spec.update(text='x%d = %r*x%d + %r' % (j, a, i, b), pred=['tie', j, i, a, b])
        else:
            c = round(lo + frac() * (hi - lo), 6)     # short decimal: survives sympy's 15-digit printing exactly
            spec.update(text='x%d = %r' % (i, c), pred=['eq', i, c])
        spec['inplace'] = False; spec['ret'] = 'same'
    return spec


def box_compatible(spec, lo, hi):
    """does the constraint map the box [lo,hi] into itself (exactly)?  Checked, not assumed."""
    k = spec['kind']
    lo = FL(lo); hi = FL(hi)
    if k == 'pin':
        return lo[spec['i']] <= F(spec['c']) <= hi[spec['i']]
    if k == 'clamp':
        # clamp([lo_b,hi_b]) stays inside iff the clamp interval meets the box side
        return F(spec['lo']) <= hi[spec['i']] and F(spec['hi']) >= lo[spec['i']] and \
            lo[spec['i']] <= min(max(lo[spec['i']], F(spec['lo'])), F(spec['hi'])) <= hi[spec['i']] and \
            lo[spec['i']] <= min(max(hi[spec['i']], F(spec['lo'])), F(spec['hi'])) <= hi[spec['i']]
    if k == 'round':
        g = F(spec['g'])
        return all(round(lo[i] / g) * g == lo[i] and round(hi[i] / g) * g == hi[i]
                   for i in (range(len(lo)) if spec.get('all') else [spec['i']]))
    if k == 'tie':
        a = F(spec['a']); b = F(spec['b']); i = spec['i']; j = spec['j']
        if a == 1.0 and b == 0.0:
            return lo[i] == lo[j] and hi[i] == hi[j]
        # an affine map takes the (finite) side i into side j; exactness: the two image ends are computed as the
        # constraint computes them
        if not all(math.isfinite(v) for v in (lo[i], hi[i], lo[j], hi[j])):
            return False
        ends = [a * lo[i] + b, a * hi[i] + b]
        return lo[j] <= min(ends) and max(ends) <= hi[j]
    if k == 'sort':
        return len(set(lo)) == 1 and len(set(hi)) == 1
    if k == 'symbolic':
        p = spec['pred']
        if p[0] == 'eq':
            return lo[p[1]] <= F(p[2]) <= hi[p[1]]
        return False
    return False


# --------------------------------------------------------------------------- penalties
PENALTY_TYPES = ['quadratic_equality', 'linear_equality', 'uniform_equality', 'quadratic_inequality',
                 'linear_inequality', 'uniform_inequality', 'lagrange_equality', 'lagrange_inequality']


def cond_fn(c):
    if c['kind'] == 'coord':
        i = c['i']; v = F(c['c'])
        return lambda x: np.float64(x[i]) - v      # numpy scalar: x**2 overflows to inf instead of raising
    if c['kind'] == 'sum':
        v = F(c['c'])
        def total(x):          # plain sequential float sum: independent of the container type
            t = 0.0            # (python >= 3.12 builtin sum() compensates for exact floats only)
            for u in x:
                t += float(u)
            return np.float64(t) - v
        return total
    raise ValueError(c)


def make_penalty(spec):
    if spec is None:
        return None
    if spec['kind'] == 'plain':
        i = spec['i']; c = F(spec['c']); k = F(spec['k'])
        def plain(x):
            d = max(0.0, float(x[i]) - c)
            return k * (d * d)          # multiplication overflows to inf quietly (** raises OverflowError)
        return plain
    import mystic.penalty as mp
    dec = getattr(mp, spec['kind'])
    kw = dict(k=F(spec['k']), h=F(spec.get('h', 5)))

    @dec(cond_fn(spec['cond']), **kw)
    def pen(x):
        return 0.0
    return pen


@st.composite
def penalty_specs(draw, dim, finite_only=True):
    if draw(st.integers(0, 3)) == 0:
        return dict(kind='plain', i=draw(st.integers(0, dim - 1)), c=draw(st.sampled_from([0.0, 0.5, 1.0, -1.0])),
                    k=draw(st.sampled_from([1.0, 10.0, 100.0])))
    kind = draw(st.sampled_from(PENALTY_TYPES))
    cond = draw(st.one_of(
        st.builds(lambda i, c: dict(kind='coord', i=i, c=c), st.integers(0, dim - 1), st.sampled_from([0.0, 0.5, 1.0, -1.0, 2.0])),
        st.builds(lambda c: dict(kind='sum', c=c), st.sampled_from([0.0, 1.0, 3.0]))))
    k = draw(st.sampled_from([1.0, 10.0, 100.0, 0.5]))
    if kind.startswith('uniform') and finite_only:
        k = draw(st.sampled_from([1.0, 50.0]))
    return dict(kind=kind, cond=cond, k=k, h=draw(st.sampled_from([1, 2, 5])))


# --------------------------------------------------------------------------- solver factory
def make_solver(kind, dim, npop=None):
    from mystic.solvers import DifferentialEvolutionSolver, DifferentialEvolutionSolver2, \
        NelderMeadSimplexSolver, PowellDirectionalSolver
    if kind == 'DE':
        return DifferentialEvolutionSolver(dim, npop or 4)
    if kind == 'DE2':
        return DifferentialEvolutionSolver2(dim, npop or 4)
    if kind == 'NM':
        return NelderMeadSimplexSolver(dim)
    if kind == 'PW':
        return PowellDirectionalSolver(dim)
    raise ValueError(kind)


def apply_init(s, init):
    """install the initial points described by a case's 'init' entry"""
    if init['kind'] == 'point':
        if init.get('as_array'):
            # the guess is the caller's own float64 array, which the caller goes on using: returned so that the harness
            # can overwrite it later (the solver must have taken a copy)
            buf = np.array(FL(init['x0']), dtype=float)
            s.SetInitialPoints(buf)
            return buf
        s.SetInitialPoints(FL(init['x0']))
    elif init['kind'] == 'sampled':
        # a user-supplied distribution (numpy's global stream, seeded with the case): integer-valued ones included
        from mystic.math import Distribution
        if init['dist'] == 'randint':
            s.SetSampledInitialPoints(Distribution(np.random.randint, int(init['lo']), int(init['hi'])))
        elif init['dist'] == 'normal':
            s.SetSampledInitialPoints(Distribution(np.random.normal, F(init['lo']), 1.0))
        else:
            s.SetSampledInitialPoints(Distribution(np.random.uniform, F(init['lo']), F(init['hi'])))
    else:
        s.SetRandomInitialPoints(FL(init['lo']), FL(init['hi']))


def seed_rng(seed):
    from mystic.tools import random_seed
    random_seed(int(seed))


def rng_state():
    import random
    return (random.getstate(), np.random.get_state())


def set_rng_state(s):
    import random
    random.setstate(s[0]); np.random.set_state(s[1])


def never():
    """a termination that never fires (cost is never <= -inf + 0)"""
    from mystic.termination import VTR
    return VTR(0.0, -float('inf'))


def make_termination(name):
    import mystic.termination as T
    if name == 'never':
        return never()
    if name == 'cog':
        return T.ChangeOverGeneration(1e-8, 3)
    if name == 'vtr':
        return T.VTR(1e-3, 0.0)
    if name == 'ncog':
        return T.NormalizedChangeOverGeneration(1e-4, 2)
    if name == 'crt':
        return T.CandidateRelativeTolerance(1e-4, 1e-4)
    if name == 'default':
        return None
    if name == 'spread':
        return T.PopulationSpread(1e-3)
    if name == 'solimp':
        return T.SolutionImprovement(1e-4)
    if name == 'vtrcog':
        return T.VTRChangeOverGeneration(1e-3, 1e-6, 3, 0.0)
    if name == 'or':
        return T.Or(T.ChangeOverGeneration(1e-8, 3), T.VTR(1e-3, 0.0))
    if name == 'and':
        return T.And(T.NormalizedChangeOverGeneration(1e-3, 2), T.PopulationSpread(0.5))
    if name == 'when':
        return T.When(T.ChangeOverGeneration(1e-6, 2))
    if name == 'gnt':
        return T.GradientNormTolerance(1e-3)
    if name == 'collapse':      # Solve() applies the collapse (fixes the parameter) and goes on
        return T.Or(T.ChangeOverGeneration(1e-9, 8), T.CollapseAt(None, 1e-3, 3))
    if name == 'collapse2':     # the same with a mask the user already filled (a parameter excluded from collapsing)
        return T.Or(T.ChangeOverGeneration(1e-9, 8), T.CollapseAt(None, 1e-3, 3, mask={0}))
    raise ValueError(name)


def make_monitor(kind, ctx=None, interval=1):
    from mystic.monitors import Monitor, VerboseMonitor, LoggingMonitor, VerboseLoggingMonitor
    if kind and ':' in kind:
        # 'plain:64', 'verbose:-1': a cost multiplier k (powers of two: the scaling is exact and transparent)
        base, k = kind.split(':'); k = float(k)
        return Monitor(k=k) if base == 'plain' else VerboseMonitor(interval, k=k)
    if kind in (None, 'plain'):
        return Monitor()
    if kind == 'verbose':
        return VerboseMonitor(interval)
    if kind == 'logging':
        d = ctx.mkdtemp()
        return LoggingMonitor(interval, filename=os.path.join(d, 'log.txt'))
    if kind == 'vlogging':
        d = ctx.mkdtemp()
        return VerboseLoggingMonitor(interval, interval, filename=os.path.join(d, 'vlog.txt'))
    raise ValueError(kind)


def lst(x):
    """nested python floats"""
    a = np.asarray(x, dtype=float)
    return a.tolist()


def snapshot(solver, monitors=True):
    s = dict(population=lst(solver.population), popEnergy=lst(solver.popEnergy),
             bestSolution=lst(solver.bestSolution), bestEnergy=float(solver.bestEnergy),
             generations=int(solver.generations), evaluations=int(solver.evaluations),
             energy_history=lst(solver.energy_history))
    if monitors:
        sm = solver._stepmon
        s['stepmon_x'] = lst(sm._x) if len(sm._x) else []
        s['stepmon_y'] = lst(sm._y) if len(sm._y) else []
        em = solver._evalmon
        if hasattr(em, '_x') and len(getattr(em, '_x', [])):
            s['evalmon_x'] = [list(map(float, np.ravel(v))) for v in em._x]
            s['evalmon_y'] = [float(np.ravel(v)[0]) if np.size(v) == 1 else lst(v) for v in em._y]
    return s


def snap_equal(a, b, keys=None):
    """exact (NaN-aware) equality of two snapshots; returns the first differing key or None"""
    for k in (keys or sorted(set(a) | set(b))):
        if k not in a or k not in b:
            return k
        if not _eq(a[k], b[k]):
            return k
    return None


def _eq(u, v):
    if isinstance(u, list) and isinstance(v, list):
        return len(u) == len(v) and all(_eq(p, q) for p, q in zip(u, v))
    if isinstance(u, float) or isinstance(v, float):
        try:
            u = float(u); v = float(v)
        except TypeError:
            return False
        return u == v or (u != u and v != v)
    return u == v


# --------------------------------------------------------------------------- maps (the harness owns the schedule)
def serial_map(f, *args, **kw):
    return [f(*it) for it in zip(*args)]


def reversed_map(f, *args, **kw):
    items = list(zip(*args)); res = [None] * len(items)
    for i in reversed(range(len(items))):
        res[i] = f(*items[i])
    return res


def make_shuffled_map(order_seed):
    import random as _r
    def shuffled_map(f, *args, **kw):
        items = list(zip(*args)); res = [None] * len(items)
        idx = list(range(len(items)))
        _r.Random(order_seed).shuffle(idx)     # private generator: does not touch the global stream
        for i in idx:
            res[i] = f(*items[i])
        return res
    return shuffled_map


def threaded_map(f, *args, **kw):
    from concurrent.futures import ThreadPoolExecutor
    with ThreadPoolExecutor(4) as ex:
        return list(ex.map(f, *args))


def forked_map(f, *args, **kw):
    import dill
    items = list(zip(*args)); out = []
    for it in items:
        r, w = os.pipe(); pid = os.fork()
        if pid == 0:
            os.close(r)
            try:
                data = dill.dumps(('ok', f(*it)))
            except BaseException as e:      # noqa
                data = dill.dumps(('err', repr(e)))
            with os.fdopen(w, 'wb') as fh:
                fh.write(data)
            os._exit(0)
        os.close(w)
        with os.fdopen(r, 'rb') as fh:
            data = fh.read()
        os.waitpid(pid, 0)
        tag, val = dill.loads(data)
        if tag != 'ok':
            raise RuntimeError(val)
        out.append(val)
    return out


def copying_map(f, *args, **kw):
    """what every process-based map does, in process and deterministically: the function works on copies of the items
    and the caller gets copies of the results"""
    import copy
    return [copy.deepcopy(f(*copy.deepcopy(it))) for it in zip(*args)]


def get_map(name, order_seed=0):
    if name == 'python':
        from mystic.python_map import python_map
        return python_map
    return {'serial': serial_map, 'reversed': reversed_map, 'threaded': threaded_map, 'copying': copying_map,
            'forked': forked_map}.get(name) or make_shuffled_map(order_seed)


# --------------------------------------------------------------------------- boxes
@st.composite
def boxes(draw, dim, integer=False, allow_inf=False, same_sides=False, degenerate=True):
    """(lo, hi) with lo <= hi; optionally integer corners (exact arithmetic for grids)"""
    def side():
        if integer:
            lo = float(draw(st.integers(-4, 2)))
            hi = lo + float(draw(st.sampled_from([0, 1, 2, 4, 8] if degenerate else [1, 2, 4, 8])))
        else:
            lo = draw(st.one_of(st.sampled_from([-2.0, -1.0, 0.0, -5.0]), finite_floats(-5, 2)))
            hi = lo + draw(st.one_of(st.sampled_from([0.5, 1.0, 3.0, 8.0]), finite_floats(0.1, 6)))
        return lo, hi
    if same_sides:
        s = side(); sides = [s] * dim
    else:
        sides = [side() for _ in range(dim)]
    lo = [s[0] for s in sides]; hi = [s[1] for s in sides]
    if allow_inf:
        for i in range(dim):
            m = draw(st.integers(0, 7))
            if m == 0: lo[i] = '-inf'
            elif m == 1: hi[i] = 'inf'
    return lo, hi


def in_box(x, lo, hi):
    return all(F(l) <= float(v) <= F(h) for v, l, h in zip(x, lo, hi))
