"""small helpers shared by the property modules"""
import math
from hypothesis import strategies as st


def F(x):
    """decode a case number: special floats travel as strings"""
    if isinstance(x, str):
        return float(x)
    return x


def FL(xs):
    return [FL(x) if isinstance(x, (list, tuple)) else F(x) for x in xs]


def enc(x):
    x = float(x)
    if math.isfinite(x):
        return x
    return 'nan' if x != x else ('inf' if x > 0 else '-inf')


def same(a, b):
    """value identity for floats: equal, or both NaN"""
    a = float(a); b = float(b)
    return a == b or (a != a and b != b)


def close(a, b, rel=1e-9, abs_=1e-12):
    a = float(a); b = float(b)
    if a == b or (a != a and b != b):
        return True
    if not (math.isfinite(a) and math.isfinite(b)):
        return False
    return abs(a - b) <= abs_ + rel * max(abs(a), abs(b))


def finite_floats(lo=-1e6, hi=1e6):
    return st.floats(min_value=lo, max_value=hi, allow_nan=False, allow_infinity=False, width=64)


def pool_or_float(pool, lo=-1e3, hi=1e3, p_special=()):
    """values drawn mostly from a small pool (so ties and exact boundary hits
    occur), sometimes an arbitrary float, optionally special strings"""
    alts = [st.sampled_from(list(pool)), finite_floats(lo, hi)]
    if p_special:
        alts.append(st.sampled_from(list(p_special)))
    return st.one_of(*alts)
