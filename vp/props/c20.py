"""C20 - monitors and log files give back exactly what was recorded.

Three tests:

machine  RuleBasedStateMachine over a small pool of monitors (Monitor, VerboseMonitor,
         LoggingMonitor, VerboseLoggingMonitor; k in {None, 1, -1, 2, 0.5, 3}).  The model is
         plain python lists of (x, y, id) per monitor.  After every operation *every* monitor
         of the pool is compared with its model (so aliasing between a result and its source
         shows up as soon as one of them is written to), the result of + / slicing / index
         lists equals the model's concatenation / slice, and the monitor that was only an
         argument (or the source of a non-mutating operation) has a bit-identical fingerprint.
log      LoggingMonitor / VerboseLoggingMonitor with interval 1-3 writing into a per-case temp
         dir; logfile_reader / read_history give back the iteration tuples, parameters and
         costs of exactly the records whose index is a multiple of the interval.
files    write_raw_file / write_support_file / write_converge_file / write_monitor and their
         readers (read_raw_file, read_history, monitors._load, read_converge_file,
         read_monitor), with the format's transposition computed by the harness itself.

Oracle: the recorded values themselves (python floats decoded from the case).  Costs are exact
(including the sign of zero, NaN compared as NaN) when every k involved is a power of two or
None; with k=3 the value read back went through (y*k)/k, so n roundings allow n ulp (2 for a
plain record, +3 per transfer between monitors whose k differ, see _transfer).
"""
import os, sys, math, hashlib, importlib
from numbers import Integral
import numpy as np
from hypothesis import strategies as st
from hypothesis.stateful import rule, initialize
from vp.runner import Test, fold_run, canon, Violation, _in_repo_frames
from vp.util import F, FL

PROP = 'C20'
RULE = ("machine: header (dim 1-4, cost shape scalar / vector of length 1-3 or 'ragged', value forms python / numpy / "
        "mixed, id mode, 2-3 initial monitors of class Monitor/Verbose/Logging/VerboseLogging with k in "
        "{None,1,-1,2,0.5,3} and 0-3 initial records) + up to 16/40 operations out of record(1-3 records: x as "
        "list/tuple/array, y as float/int/numpy scalar/0-d array/list/tuple/array, values from a pool incl. inf, -inf, "
        "nan, -0.0, +-1e-300, +-1e300 and arbitrary floats, id None/int), extend, prepend, +, m[i], m[i:j:s], "
        "m[[...]], min, _solutions, new monitor, Null arguments; every monitor is compared with its list model after "
        "every operation.  log: 1-2 writer segments on one file (interval 1-3, k, info lines, ids) read back by "
        "logfile_reader/read_history.  files: one monitor written by write_raw/support/converge_file and "
        "write_monitor and read back.  Non-trivial: >= 3 records and (machine) at least one combine operation and "
        "one special value (inf/nan/-0.0/tiny/huge); (log/files) >= 3 records and one special value.  Distinct = "
        "canonical JSON of the case / the whole trace.")
ASSUME = ["finite values are 0 or have magnitude in [1e-300, 1e300] (the property's range; y*k does not leave the "
          "normal range for the k drawn)",
          "a.extend(a) / a.prepend(a) (a monitor combined with itself in place) are outside the domain: prepend "
          "always, extend for k != None, never returns because the source is consumed lazily while it grows",
          "combine operations are skipped once the combined history would exceed 48 records (repeated a+a doubles it)",
          "a call into mystic that never returns (e.g. in-place combination of two monitors that alias the same list) "
          "is not detected by the harness: such a regression shows up as a hanging/killed worker, not as a VIOLATION",
          "index lists and min()/_solutions are exercised only on rectangular monitors (same dimension and cost shape "
          "in every record, non-empty); min() only for scalar costs without NaN",
          "file names handed to the munge readers are fresh module names (unique per case), the harness calls "
          "importlib.invalidate_caches() before and drops the module from sys.modules after each read, i.e. every read "
          "happens as in a fresh process; the in-process re-read is the separate sub-check C20.reread",
          "with k=3 (not a power of two) equality of costs is up to n ulp for n floating point roundings"]

KS = [None, 1, -1, 2, 0.5, 3]
EXACT_K = (None, 1, -1, 2, 0.5)
CLASSES = ['Monitor', 'Monitor', 'Monitor', 'VerboseMonitor', 'LoggingMonitor', 'VerboseLoggingMonitor']
MAXPOOL = 6
MAXLEN = 48          # histories are kept short: repeated a+a / extend would double them every step
SPECIALS = ['inf', '-inf', 'nan']
POOLV = [0.0, -0.0, 1.0, -1.0, 0.1, -2.5, 3.0, 1e-300, -1e-300, 1e300, -1e300, 1e-7, 123456.789,
         0.30000000000000004, 2.0, 0.5]
XFORMS = {'python': ['list', 'list', 'tuple'], 'numpy': ['array'], 'mixed': ['list', 'array', 'tuple', 'array']}
YSFORMS = {'python': ['float', 'float', 'int'], 'numpy': ['npfloat'], 'mixed': ['float', 'npfloat', 'int', 'npfloat']}
YVFORMS = {'python': ['list', 'tuple'], 'numpy': ['array'], 'mixed': ['list', 'array', 'tuple']}


# --------------------------------------------------------------------------- generators
def _clean(v):
    if v != 0 and abs(v) < 1e-300:
        return 0.0
    return v


def values(special=True):
    alts = [st.sampled_from(POOLV),
            st.floats(min_value=-1e300, max_value=1e300, allow_nan=False, allow_infinity=False).map(_clean),
            st.floats(min_value=-100, max_value=100, allow_nan=False).map(_clean)]
    if special:
        alts.append(st.sampled_from(SPECIALS))
    return st.one_of(*alts)


# strategies are built once (building and validating them per draw dominated the run time)
_V = {True: values(True), False: values(False)}
_VLIST = {(sp, n): st.lists(_V[sp], min_size=n, max_size=n) for sp in (True, False) for n in range(1, 5)}
_SF = {}


def _sampled(*items):
    s = _SF.get(items)
    if s is None:
        s = _SF[items] = st.sampled_from(list(items))
    return s


_DIMS = st.integers(1, 4)
_SMALLINT = st.integers(-5, 5)


@st.composite
def records(draw, h):
    """one record [xform, x, yform, y, id] (plain data)"""
    dim, ydim = h['dim'], h['ydim']
    if h.get('ragged'):
        dim = draw(_DIMS); ydim = draw(_sampled(0, 0, 1, 2, 3))
    forms = h['forms']
    xform = draw(_sampled(*XFORMS[forms]))
    x = draw(_VLIST[(bool(h.get('xspecial', False)), dim)])
    if ydim == 0:
        yform = draw(_sampled(*(YSFORMS[forms] + (['0d', '0d'] if h.get('zero_d') else []))))
        y = draw(_SMALLINT) if yform == 'int' else draw(_V[True])
    else:
        yform = draw(_sampled(*YVFORMS[forms]))
        y = draw(_VLIST[(True, ydim)])
    mode = h['idmode']
    if mode == 'none':
        id = None
    elif mode == 'const':
        id = h['id0']
    else:
        id = draw(_sampled(None, 0, 1, 2, 7))
    return [xform, x, yform, y, id]


@st.composite
def common(draw):
    h = dict(dim=draw(st.integers(1, 4)), ydim=draw(st.sampled_from([0, 0, 0, 1, 2, 3])),
             forms=draw(st.sampled_from(['python', 'python', 'numpy', 'mixed', 'mixed'])),
             zero_d=draw(st.integers(0, 5)) == 0,
             xspecial=draw(st.integers(0, 3)) == 0,
             idmode=draw(st.sampled_from(['none', 'none', 'const', 'mixed', 'mixed'])))
    h['id0'] = draw(st.integers(0, 9)) if h['idmode'] == 'const' else None
    return h


@st.composite
def headers(draw, tier):
    h = draw(common())
    h['ragged'] = draw(st.integers(0, 6)) == 0
    nm = draw(st.integers(2, 3))
    mons = []
    for _ in range(nm):
        mons.append(dict(cls=draw(st.sampled_from(CLASSES)), k=draw(st.sampled_from(KS)),
                         recs=draw(st.lists(records(h), min_size=0, max_size=3))))
    h['mons'] = mons
    return h


@st.composite
def log_cases(draw, tier):
    h = draw(common())
    h['cls'] = draw(st.sampled_from(['LoggingMonitor', 'VerboseLoggingMonitor']))
    h['interval'] = draw(st.sampled_from([1, 2, 3]))
    h['k'] = draw(st.sampled_from(KS + ['absent']))
    h['as_file'] = draw(st.booleans())
    segs = []
    for s in range(draw(st.sampled_from([1, 1, 2]))):
        recs = draw(st.lists(records(h), min_size=0 if s else 1, max_size=7))
        segs.append(dict(new=draw(st.sampled_from([False, False, True])),
                         label=draw(st.sampled_from([None, None, 'Cost'])),
                         recs=recs,
                         info=sorted(set(draw(st.lists(st.integers(0, 6), max_size=2))))))
    h['segments'] = segs
    return h


@st.composite
def file_cases(draw, tier):
    h = draw(common())
    h['k'] = draw(st.sampled_from(KS))
    h['recs'] = draw(st.lists(records(h), min_size=0, max_size=6))
    h['header'] = draw(st.sampled_from([None, None, 'my header']))
    h['npts'] = draw(st.sampled_from([None, None, [2, 2], [1, 3]]))
    return h


# --------------------------------------------------------------------------- building live values
def mk_x(form, vals):
    v = FL(vals)
    if form == 'array':
        return np.array(v, float)
    if form == 'tuple':
        return tuple(v)
    return list(v)


def mk_y(form, val):
    if form == 'float':
        return F(val)
    if form == 'int':
        return int(val)
    if form == 'npfloat':
        return np.float64(F(val))
    if form == '0d':
        return np.array(F(val))
    v = FL(val)
    if form == 'array':
        return np.array(v, float)
    if form == 'tuple':
        return tuple(v)
    return list(v)


def want_y(rec):
    y = rec[3]
    if isinstance(y, list):
        return [float(v) for v in FL(y)]
    if rec[2] == 'int':
        return int(y)           # an integer cost: zero has no sign
    return float(F(y))


def want_x(rec):
    return [float(v) for v in FL(rec[1])]


def make_monitor(cls, k, path=None, interval=1, new=False, label=None, absent=False):
    import mystic.monitors as M
    kw = {}
    if not absent:
        kw['k'] = k
    if label:
        kw['label'] = label
    if cls == 'Monitor':
        return M.Monitor(**kw)
    if cls == 'VerboseMonitor':
        return M.VerboseMonitor(2, 3, **kw)
    if cls == 'LoggingMonitor':
        return M.LoggingMonitor(interval, filename=path, new=new, **kw)
    return M.VerboseLoggingMonitor(interval, 2, 3, filename=path, new=new, **kw)


def feed(m, rec):
    x = mk_x(rec[0], rec[1]); y = mk_y(rec[2], rec[3])
    if rec[4] is None:
        m(x, y)
    else:
        m(x, y, rec[4])
    # the caller goes on using its own buffers (the usual 'x[i] += step' loop): what was recorded
    # is what was passed at the time of the call
    for buf in (x, y):
        if isinstance(buf, list) or (isinstance(buf, np.ndarray) and buf.ndim):
            for i in range(len(buf)):
                buf[i] = 12345.0 + i
        elif isinstance(buf, np.ndarray):
            buf[()] = 12345.0


def special_kinds(rec):
    out = set()
    ys = rec[3] if isinstance(rec[3], list) else [rec[3]]
    for v in list(ys) + list(rec[1]):
        if isinstance(v, str):
            out.add('special:' + v)
        elif isinstance(v, float):
            if v == 0 and math.copysign(1, v) < 0:
                out.add('special:-0.0')
            elif v != 0 and abs(v) <= 1e-300:
                out.add('special:tiny')
            elif abs(v) >= 1e300:
                out.add('special:huge')
    return out


# --------------------------------------------------------------------------- comparison helpers
def feq(got, want, n=0):
    """got equals the float want: exactly incl. sign of zero (n == 0) or within n ulp; NaN == NaN"""
    try:
        if np.ndim(got) != 0:
            return False
        g = float(got)
    except Exception:
        return False
    if isinstance(want, int):
        return g == want if n == 0 else abs(g - want) <= n * math.ulp(float(want))
    if want != want:
        return g != g
    if g != g:
        return False
    if math.isinf(want) or math.isinf(g):
        return g == want
    if want == 0 or n == 0:
        return g == want and math.copysign(1, g) == math.copysign(1, want)
    return abs(g - want) <= n * math.ulp(want)


def yeq(got, want, n=0):
    if isinstance(want, list):
        try:
            if np.ndim(got) != 1 or len(got) != len(want):
                return False
        except Exception:
            return False
        return all(feq(g, w, n) for g, w in zip(got, want))
    return feq(got, want, n)


def xeq(got, want):
    """a parameter vector: a flat sequence of the recorded floats"""
    try:
        if isinstance(got, (str, bytes)) or len(got) != len(want):
            return False
    except Exception:
        return False
    return all(feq(g, w, 0) for g, w in zip(got, want))


def ideq(got, want):
    if want is None:
        return got is None
    return isinstance(got, Integral) and not isinstance(got, bool) and got == want


def flat(o):
    if isinstance(o, (list, tuple)) or (isinstance(o, np.ndarray) and o.ndim > 0):
        out = []
        for i in o:
            out.extend(flat(i))
        return out
    return [o]


def fp(o):
    """bit-exact, type-aware fingerprint of a nested value"""
    if isinstance(o, (list, tuple)):
        return (type(o).__name__, tuple(fp(i) for i in o))
    if isinstance(o, np.ndarray):
        return ('nd', o.dtype.str, o.shape, o.tobytes())
    if isinstance(o, (float, np.floating)):
        return (type(o).__name__, float(o).hex())
    return (type(o).__name__, repr(o))


def mon_fp(m):
    extra = tuple((a, repr(getattr(m, a, None))) for a in ('_yinterval', '_xinterval', '_vyinterval', '_vxinterval',
                                                            '_all', '_filename', '_npts'))
    return (type(m).__name__, repr(m.k), m.label, fp(m._x), fp(m._y), fp(m._id), fp(m._info), extra)


def _shares(a, b):
    """two monitors use the same list object for their records (writing to one would write to the other;
    combining them in place would never terminate)"""
    return a._x is b._x or a._y is b._y or a._id is b._id


def show(v):
    try:
        return repr(v)[:400]
    except Exception:
        return '<unprintable>'


def iter_tuples(ids):
    """documented iteration tuples of a history: (iteration,) when no record has an id, else
    (iteration of that id, id)"""
    if all(i is None for i in ids):
        return [(t,) for t in range(len(ids))]
    out = []; seen = {}
    for j in ids:
        c = seen.get(j, 0)
        out.append((c, j)); seen[j] = c + 1
    return out


def tuples_eq(got, want):
    try:
        if len(got) != len(want):
            return False
        for g, w in zip(got, want):
            if not isinstance(g, tuple) or len(g) != len(w):
                return False
            if not all(ideq(a, b) for a, b in zip(g, w)):
                return False
        return True
    except Exception:
        return False


def support_of(xs):
    """'support' layout of a trajectory: params[d][t] == (x_t[d],)"""
    if not xs:
        return []
    return [[(x[d],) for x in xs] for d in range(len(xs[0]))]


def support_eq(got, xs):
    want = support_of(xs)
    try:
        if len(got) != len(want):
            return False
        for grow, wrow in zip(got, want):
            if len(grow) != len(wrow):
                return False
            for g, w in zip(grow, wrow):
                if not xeq(g, list(w)):
                    return False
        return True
    except Exception:
        return False


def call(ctx, sub, fn, extra=None):
    """run a call into the code under test; an exception escaping from it is the failure of
    sub-check `sub` (the case continues if a known finding matches)"""
    try:
        res = fn()
    except Violation:
        raise
    except Exception as e:
        if _in_repo_frames(e.__traceback__) is None:
            raise
        fs = _in_repo_frames(e.__traceback__)
        d = dict(exception=type(e).__name__, message=str(e)[:200],
                 at='%s:%s in %s' % (os.path.basename(fs.filename), fs.lineno, fs.name))
        d.update(extra() if callable(extra) else (extra or {}))
        ctx.expect(False, sub, d)
        return False, None
    ctx.expect(True, sub)
    return True, res


# --------------------------------------------------------------------------- the machine's state
def _inexact(*ks):
    return any(k not in EXACT_K for k in ks)


def _transfer(r, ksrc, kdst):
    """a record copied from a monitor with k=ksrc into one with k=kdst: the stored value is divided by
    float(ksrc)/kdst and later by kdst - up to 3 further roundings unless all factors are powers of two"""
    x, y, i, n = r
    if _inexact(ksrc, kdst):
        n += 3
    return (x, y, i, n)


class MonState(object):
    def __init__(self, case, ctx):
        self.case = case; self.ctx = ctx
        self.dead = False
        self.tmp = None
        self.pool = []          # live monitors
        self.model = []         # [dict(k=..., recs=[(x, y, id, nround)])]
        self.nrec = 0; self.ncombine = 0; self.kinds = set(); self.opkinds = set()
        for spec in case['mons']:
            self._new(spec['cls'], spec['k'])
            self._record(len(self.pool) - 1, spec.get('recs', []))
            if self.dead:
                break
        if not self.dead:
            self.check_all('open')
        self.mark()

    # -- helpers
    def _path(self):
        if self.tmp is None:
            self.tmp = self.ctx.mkdtemp()
        return os.path.join(self.tmp, 'log%d.txt' % len(self.pool))

    def _new(self, cls, k):
        path = self._path() if 'Logging' in cls else None
        self.pool.append(make_monitor(cls, k, path))
        self.model.append(dict(k=k, cls=cls, recs=[]))
        self.ctx.label('k:%s' % (k,), 'cls:' + cls)

    def _record(self, mi, recs):
        m = self.pool[mi]; mod = self.model[mi]
        for rec in recs:
            ok, _ = call(self.ctx, 'C20.record', lambda: feed(m, rec),
                         lambda: dict(k=mod['k'], cls=mod['cls'], xform=rec[0], yform=rec[2], y=rec[3]))
            if not ok:
                # the monitor is left half-written by the failed call: nothing more can be
                # concluded from this history
                self.dead = True
                self.ctx.label('aborted-after-known-finding')
                return
            n = 2 if _inexact(mod['k']) else 0
            mod['recs'].append((want_x(rec), want_y(rec), rec[4], n))
            self.nrec += 1
            self.kinds |= special_kinds(rec)
            self.ctx.label('yform:' + rec[2], 'xform:' + rec[0])
            if isinstance(rec[3], list):
                self.ctx.label('vector-cost')
            if rec[4] is not None:
                self.ctx.label('id:int')

    def rect(self, mi, scalar=False, nonan=False):
        recs = self.model[mi]['recs']
        if not recs:
            return False
        d = len(recs[0][0]); yl = len(recs[0][1]) if isinstance(recs[0][1], list) else None
        for x, y, i, n in recs:
            if len(x) != d or (len(y) if isinstance(y, list) else None) != yl:
                return False
            if nonan and (isinstance(y, list) or y != y):
                return False
        if scalar and yl is not None:
            return False
        return True

    # -- the invariant: every monitor equals its model
    def check_monitor(self, m, recs, where, who):
        ctx = self.ctx
        n = len(recs)
        ln = len(m)
        ctx.expect(ln == n, 'C20.len', lambda: dict(where=where, monitor=who, len=ln, recorded=n))
        xs = m.x; ys = m.y; ids = m.id
        ctx.expect(len(xs) == n and len(ys) == n and len(ids) == n, 'C20.len',
                   lambda: dict(where=where, monitor=who, lens=[len(xs), len(ys), len(ids)], recorded=n))
        for i, (x, y, id_, nr) in enumerate(recs):
            ctx.expect(isinstance(xs[i], list) and xeq(xs[i], x), 'C20.x',
                       lambda: dict(where=where, monitor=who, index=i, got=show(xs[i]), recorded=x))
            ctx.expect(yeq(ys[i], y, nr), 'C20.y',
                       lambda: dict(where=where, monitor=who, index=i, got=show(ys[i]), recorded=y, k=show(m.k),
                                    ulps_allowed=nr))
            ctx.expect(ideq(ids[i], id_), 'C20.id',
                       lambda: dict(where=where, monitor=who, index=i, got=show(ids[i]), recorded=id_))
        # the other documented views of the same data
        iy = list(m.iy); ix = list(m.ix)
        ctx.expect(len(iy) == n and all(yeq(g, r[1], r[3]) for g, r in zip(iy, recs)) and
                   len(ix) == n and all(xeq(g, r[0]) for g, r in zip(ix, recs)), 'C20.views',
                   lambda: dict(where=where, monitor=who, iy=show(iy), ix=show(ix)))
        ctx.expect(m.get_x() is not None and len(m.get_id()) == n and m._step == n, 'C20.views',
                   lambda: dict(where=where, monitor=who, step=m._step))

    def check_all(self, where):
        for i, (m, mod) in enumerate(zip(self.pool, self.model)):
            self.check_monitor(m, mod['recs'], where, i)
            if mod['recs'] and self._is_rect(mod['recs']):
                ay = m.ay; ax = m.ax
                self.ctx.expect(len(ay) == len(mod['recs']) and all(yeq(g, r[1], r[3]) for g, r in zip(ay, mod['recs']))
                                and all(xeq(g, r[0]) for g, r in zip(ax, mod['recs'])), 'C20.views',
                                lambda: dict(where=where, monitor=i, ay=show(ay), ax=show(ax)))

    @staticmethod
    def _is_rect(recs):
        d = len(recs[0][0]); yl = len(recs[0][1]) if isinstance(recs[0][1], list) else None
        return all(len(r[0]) == d and (len(r[1]) if isinstance(r[1], list) else None) == yl for r in recs)

    def _keep(self, mon, recs, k):
        """a monitor produced by + / slicing joins the pool (while there is room)"""
        if len(self.pool) < MAXPOOL:
            self.pool.append(mon)
            self.model.append(dict(k=k, cls=type(mon).__name__, recs=list(recs)))

    def _unchanged(self, sub, where, who, m, before):
        after = mon_fp(m)
        self.ctx.expect(after == before, sub, lambda: dict(where=where, monitor=who, note='monitor was modified',
                                                           x=show(m._x), y=show(m._y), id=show(m._id)))

    # -- operations
    def apply(self, op):
        if self.dead:
            return
        import mystic.monitors as M
        ctx = self.ctx; kind = op[0]
        if kind == 'record':
            self._record(op[1], op[2])
            if self.dead:
                return
        elif kind == 'new':
            if len(self.pool) < MAXPOOL:
                self._new(op[1], op[2])
        elif kind in ('extend', 'prepend'):
            a, b = op[1], op[2]
            ma = self.pool[a]; moda = self.model[a]
            if b is None:
                mb = M.Null(); modb = dict(k=None, recs=[]); before = None
                ctx.label('null-argument')
            else:
                if a == b:
                    ctx.exclude('self-%s (outside the domain: loops forever)' % kind); return
                mb = self.pool[b]; modb = self.model[b]; before = mon_fp(mb)
            if len(moda['recs']) + len(modb['recs']) > MAXLEN:
                ctx.exclude('combined history longer than %d records (op skipped)' % MAXLEN); return
            getattr(ma, kind)(mb)
            moved = [_transfer(r, modb['k'], moda['k']) for r in modb['recs']]
            moda['recs'] = (moda['recs'] + moved) if kind == 'extend' else (moved + moda['recs'])
            if before is not None:
                self._unchanged('C20.arg_unchanged', kind, b, mb, before)
                if modb['recs']:
                    self.ncombine += 1; self.opkinds.add(kind)
                    if modb['k'] != moda['k']:
                        ctx.label('combine-different-k')
                        if _inexact(modb['k'], moda['k']):
                            ctx.label('combine-k3')
        elif kind == 'add':
            a, b = op[1], op[2]
            ma = self.pool[a]; moda = self.model[a]
            if b is None:
                mb = M.Null(); modb = dict(k=None, recs=[])
                ctx.label('null-argument')
            else:
                mb = self.pool[b]; modb = self.model[b]
            if len(moda['recs']) + len(modb['recs']) > MAXLEN:
                ctx.exclude('combined history longer than %d records (op skipped)' % MAXLEN); return
            fa = mon_fp(ma); fb = None if b is None else mon_fp(mb)
            res = ma + mb
            self._unchanged('C20.source_unchanged', 'add', a, ma, fa)
            if fb is not None:
                self._unchanged('C20.arg_unchanged', 'add', b, mb, fb)
            rk = res.k
            want = list(moda['recs']) + [_transfer(r, modb['k'], rk) for r in modb['recs']]
            ctx.expect(res is not ma and res is not mb and not _shares(res, ma) and (b is None or not _shares(res, mb)),
                       'C20.result', lambda: dict(where='add', note='result is, or shares its record lists with, an operand'))
            self.check_monitor(res, want, 'add(%s,%s)' % (a, b), 'result')
            self._keep(res, want, rk)
            if modb['recs'] and moda['recs']:
                self.ncombine += 1; self.opkinds.add('add')
                if modb['k'] != moda['k']:
                    ctx.label('combine-different-k')
                    if _inexact(modb['k'], moda['k']):
                        ctx.label('combine-k3')
        elif kind == 'geti':
            mi, i, form = op[1], op[2], op[3]
            m = self.pool[mi]; recs = self.model[mi]['recs']
            if not (-len(recs) <= i < len(recs)):
                ctx.exclude('index out of range (op skipped)'); return
            f0 = mon_fp(m)
            got = m[np.int64(i) if form == 'npint' else i]
            x, y, id_, nr = recs[i]
            ctx.expect(isinstance(got, tuple) and len(got) == 2 and xeq(got[0], x) and yeq(got[1], y, nr), 'C20.item',
                       lambda: dict(monitor=mi, index=i, got=show(got), recorded=[x, y]))
            self._unchanged('C20.source_unchanged', 'm[i]', mi, m, f0)
            self.opkinds.add('geti')
        elif kind == 'slice':
            mi = op[1]; sl = slice(op[2], op[3], op[4])
            m = self.pool[mi]; mod = self.model[mi]
            f0 = mon_fp(m)
            res = m[sl]
            want = mod['recs'][sl]
            self._unchanged('C20.source_unchanged', 'm[i:j]', mi, m, f0)
            ctx.expect(res is not m and not _shares(res, m), 'C20.result',
                       lambda: dict(where='slice', note='result is, or shares its record lists with, the source'))
            self.check_monitor(res, want, 'slice(%s,%s)' % (mi, op[2:]), 'result')
            self._keep(res, want, res.k)
            self.opkinds.add('slice')
            if len(want) not in (0, len(mod['recs'])):
                ctx.label('proper-slice')
        elif kind == 'take':
            mi, idx, form = op[1], op[2], op[3]
            m = self.pool[mi]; mod = self.model[mi]
            n = len(mod['recs'])
            if not self.rect(mi) or not idx or not all(-n <= i < n for i in idx):
                ctx.exclude('index list on an empty/ragged monitor or out of range (op skipped)'); return
            f0 = mon_fp(m)
            res = m[np.array(idx) if form == 'array' else list(idx)]
            want = [mod['recs'][i] for i in idx]
            self._unchanged('C20.source_unchanged', 'm[[...]]', mi, m, f0)
            ctx.expect(res is not m and not _shares(res, m), 'C20.result',
                       lambda: dict(where='take', note='result is, or shares its record lists with, the source'))
            self.check_monitor(res, want, 'take(%s,%s)' % (mi, idx), 'result')
            self._keep(res, want, res.k)
            self.opkinds.add('take')
        elif kind == 'min':
            mi = op[1]
            m = self.pool[mi]; recs = self.model[mi]['recs']
            if not self.rect(mi, scalar=True, nonan=True):
                ctx.exclude('min() undefined here: empty, vector-valued or NaN costs (op skipped)'); return
            f0 = mon_fp(m)
            got = m.min()
            ymin = min(r[1] for r in recs)
            nr = max(r[3] for r in recs)
            if nr == 0:
                cands = [next(r for r in recs if r[1] == ymin)]       # first occurrence
            else:
                cands = [r for r in recs if feq(r[1], ymin, 2 * nr) or r[1] == ymin]
            ctx.expect(isinstance(got, tuple) and len(got) == 2 and
                       any(xeq(got[0], r[0]) and yeq(got[1], r[1], r[3]) for r in cands), 'C20.min',
                       lambda: dict(monitor=mi, got=show(got), minimum=ymin,
                                    candidates=[[r[0], r[1]] for r in cands]))
            self._unchanged('C20.source_unchanged', 'min', mi, m, f0)
            self.opkinds.add('min')
        elif kind == 'solutions':
            mi, last = op[1], op[2]
            m = self.pool[mi]; recs = self.model[mi]['recs']
            if not self.rect(mi):
                ctx.exclude('_solutions on an empty/ragged monitor (op skipped)'); return
            got = M._solutions(m, last)
            want = [r[0] for r in (recs if last is None else recs[-last:])]
            ctx.expect(isinstance(got, np.ndarray) and got.shape == (len(want), len(want[0])) and
                       all(xeq(g, w) for g, w in zip(got, want)), 'C20.solutions',
                       lambda: dict(monitor=mi, last=last, got=show(got), want=want))
        else:
            raise ValueError(op)
        self.check_all(kind)
        self.mark()

    def mark(self):
        ctx = self.ctx
        for k in self.kinds:
            ctx.label(k)
        for k in self.opkinds:
            ctx.label('op:' + k)
        if self.case.get('ragged'):
            ctx.label('ragged')
        ctx.nontrivial(self.nrec >= 3 and self.ncombine >= 1 and bool(self.kinds))

    def close(self):
        pass


def machine_factory(tier, Base):
    class MonitorMachine(Base):
        OPEN = staticmethod(lambda case, ctx: MonState(case, ctx))
        APPLY = staticmethod(lambda state, op, ctx: state.apply(op))
        CLOSE = staticmethod(lambda state: state.close())

        @initialize(h=headers(tier))
        def init(self, h):
            self.start(h)

        def live(self):
            s = self.state
            if s is None or s.dead or self.case is None:
                return None
            return s

        def pick(self, data, s, pred=None):
            idx = [i for i in range(len(s.pool)) if pred is None or pred(i)]
            if not idx:
                return None
            return data.draw(st.sampled_from(idx))

        @rule(data=st.data())
        def record(self, data):
            s = self.live()
            if s is None: return
            mi = self.pick(data, s)
            self.do(['record', mi, data.draw(st.lists(records(self.case), min_size=1, max_size=3))])

        @rule(data=st.data())
        def record_more(self, data):
            self.record(data)

        @rule(cls=st.sampled_from(CLASSES), k=st.sampled_from(KS))
        def new(self, cls, k):
            s = self.live()
            if s is None or len(s.pool) >= MAXPOOL: return
            self.do(['new', cls, k])

        @rule(data=st.data(), kind=st.sampled_from(['extend', 'prepend']))
        def combine(self, data, kind):
            s = self.live()
            if s is None: return
            a = self.pick(data, s)
            if data.draw(st.integers(0, 11)) == 0:
                b = None
            else:
                b = self.pick(data, s, lambda i: i != a and len(s.model[i]['recs']) + len(s.model[a]['recs']) <= MAXLEN)
                if b is None: return
            self.do([kind, a, b])

        @rule(data=st.data())
        def add(self, data):
            s = self.live()
            if s is None: return
            a = self.pick(data, s)
            if data.draw(st.integers(0, 11)) == 0:
                b = None
            else:
                b = self.pick(data, s, lambda i: len(s.model[i]['recs']) + len(s.model[a]['recs']) <= MAXLEN)
                if b is None: return
            self.do(['add', a, b])

        @rule(data=st.data(), form=st.sampled_from(['int', 'int', 'npint']))
        def geti(self, data, form):
            s = self.live()
            if s is None: return
            mi = self.pick(data, s, lambda i: len(s.model[i]['recs']) > 0)
            if mi is None: return
            n = len(s.model[mi]['recs'])
            self.do(['geti', mi, data.draw(st.integers(-n, n - 1)), form])

        @rule(data=st.data(), step=st.sampled_from([None, None, 1, 2, -1]))
        def slice_(self, data, step):
            s = self.live()
            if s is None: return
            mi = self.pick(data, s)
            n = len(s.model[mi]['recs'])
            b = st.one_of(st.none(), st.integers(-n - 1, n + 1))
            self.do(['slice', mi, data.draw(b), data.draw(b), step])

        @rule(data=st.data(), form=st.sampled_from(['list', 'array']))
        def take(self, data, form):
            s = self.live()
            if s is None: return
            mi = self.pick(data, s, lambda i: s.rect(i))
            if mi is None: return
            n = len(s.model[mi]['recs'])
            self.do(['take', mi, data.draw(st.lists(st.integers(-n, n - 1), min_size=1, max_size=4)), form])

        @rule(data=st.data())
        def min_(self, data):
            s = self.live()
            if s is None: return
            mi = self.pick(data, s, lambda i: s.rect(i, scalar=True, nonan=True))
            if mi is None: return
            self.do(['min', mi])

        @rule(data=st.data(), last=st.sampled_from([None, 1, 2, 3]))
        def solutions(self, data, last):
            s = self.live()
            if s is None: return
            mi = self.pick(data, s, lambda i: s.rect(i))
            if mi is None: return
            self.do(['solutions', mi, last])

    return MonitorMachine


_run_machine = fold_run(lambda case, ctx: MonState(case, ctx), lambda s, op, ctx: s.apply(op), lambda s: s.close())


# --------------------------------------------------------------------------- log files
def _labels(case, ctx, recs):
    ctx.label('k:%s' % (case['k'],), 'forms:' + case['forms'], 'idmode:' + case['idmode'])
    kinds = set()
    for r in recs:
        kinds |= special_kinds(r)
        ctx.label('yform:' + r[2], 'xform:' + r[0])
        if isinstance(r[3], list):
            ctx.label('vector-cost')
    for k in kinds:
        ctx.label(k)
    return kinds


def run_log(case, ctx):
    from mystic import munge
    d = ctx.mkdtemp(); path = os.path.join(d, 'log.txt')
    interval = case['interval']
    absent = case['k'] == 'absent'
    k = None if absent else case['k']
    nr = 2 if _inexact(k) else 0
    expected = []          # (iteration tuple, x, y)
    allrecs = []
    for si, seg in enumerate(case['segments']):
        new = bool(seg['new'])
        m = make_monitor(case['cls'], k, path, interval=interval, new=new, label=seg['label'], absent=absent)
        if new:
            expected = []
        model = []
        for i, rec in enumerate(seg['recs']):
            ok, _ = call(ctx, 'C20.record', lambda: feed(m, rec),
                         lambda: dict(k=k, cls=case['cls'], xform=rec[0], yform=rec[2], y=rec[3]))
            if not ok:
                ctx.label('aborted-after-known-finding')
                return
            model.append((want_x(rec), want_y(rec), rec[4], nr))
            allrecs.append(rec)
            if i % interval == 0:
                expected.append(((i,) if rec[4] is None else (i, rec[4]), want_x(rec), want_y(rec)))
            if i in seg['info']:
                m.info('note %d after this record' % i)
        # the monitor itself holds every record, whatever the interval
        MonState.check_monitor(_Shim(ctx), m, model, 'log segment %d' % si, si)
    ctx.label('interval:%d' % interval, 'cls:' + case['cls'], 'segments:%d' % len(case['segments']))
    if any(s['new'] for s in case['segments'][1:]):
        ctx.label('second-writer-truncates')
    elif len(case['segments']) > 1:
        ctx.label('second-writer-appends')
    if any(s['info'] for s in case['segments']):
        ctx.label('info-lines')
    kinds = _labels(case, ctx, allrecs)
    nlines = len(expected)
    if nlines < len(allrecs):
        ctx.label('some-records-not-logged')

    def compare(sub, steps, params, cost, layout):
        ctx.expect(tuples_eq(steps, [e[0] for e in expected]), sub + '_iter',
                   lambda: dict(got=show(steps), written=[list(e[0]) for e in expected], interval=interval))
        if layout == 'rows':
            okp = len(params) == nlines and all(xeq(g, e[1]) for g, e in zip(params, expected))
        else:
            okp = support_eq(params, [e[1] for e in expected])
        ctx.expect(okp, sub + '_params', lambda: dict(got=show(params), written=[e[1] for e in expected], layout=layout))
        ctx.expect(len(cost) == nlines and all(yeq(g, e[2], nr) for g, e in zip(cost, expected)), sub + '_cost',
                   lambda: dict(got=show(cost), written=[e[2] for e in expected], k=k, ulps_allowed=nr))

    txt = lambda: dict(file=open(path).read()[-600:])
    ok, res = call(ctx, 'C20.log_readable', lambda: munge.logfile_reader(path, iter=True), txt)
    if ok:
        ctx.expect(isinstance(res, tuple) and len(res) == 3, 'C20.log_iter', lambda: dict(got=show(res)))
        compare('C20.log', res[0], res[1], res[2], 'rows')
    ok, res = call(ctx, 'C20.log_readable', lambda: munge.logfile_reader(path), txt)
    if ok:
        ctx.expect(isinstance(res, tuple) and len(res) == 2, 'C20.log_params', lambda: dict(got=show(res)))
        compare('C20.log', [e[0] for e in expected], res[0], res[1], 'rows')
    if case['as_file']:
        def rh():
            with open(path) as fh:
                return munge.read_history(fh, iter=True)
        ok, res = call(ctx, 'C20.history_readable', rh, txt)
        ctx.label('read_history(open file)')
    else:
        ok, res = call(ctx, 'C20.history_readable', lambda: munge.read_history(path, iter=True), txt)
    if ok:
        compare('C20.history', res[0], res[1], res[2], 'support')
        ok, res2 = call(ctx, 'C20.history_readable', lambda: munge.read_history(path), txt)
        if ok:
            compare('C20.history', [e[0] for e in expected], res2[0], res2[1], 'support')
    ctx.nontrivial(len(allrecs) >= 3 and bool(kinds) and nlines >= 2)


class _Shim(object):
    """lets the log/file tests reuse MonState.check_monitor"""
    def __init__(self, ctx):
        self.ctx = ctx


# --------------------------------------------------------------------------- parameter files
def _has_numpy_scalars(m):
    return any(isinstance(v, (np.generic, np.ndarray)) for v in flat(m._x) + flat(m.y))


def _mixed_scalar_types(m):
    ys = m.y
    return bool(ys) and hasattr(ys[0], 'tolist') and any(not hasattr(v, 'tolist') for v in ys)


def _loose(got, want, k):
    """got is want/k up to a few ulp (sign of zero ignored): only used to classify a failure"""
    try:
        if isinstance(want, list):
            return len(got) == len(want) and all(_loose(g, w, k) for g, w in zip(got, want))
        g = float(got); w = float(want) / k
        return (g != g and w != w) or g == w or (math.isfinite(w) and abs(g - w) <= 8 * math.ulp(w))
    except Exception:
        return False


def _fresh_read(modname, fn):
    importlib.invalidate_caches()
    try:
        return fn()
    finally:
        sys.modules.pop(modname, None)


def run_files(case, ctx):
    from mystic import munge
    import mystic.monitors as M
    d = ctx.mkdtemp()
    tag = 'vpc20_' + hashlib.sha1(canon(case).encode()).hexdigest()[:12]
    k = case['k']
    nr = 2 if _inexact(k) else 0
    recs = case['recs']
    m = make_monitor('Monitor', k)
    for rec in recs:
        ok, _ = call(ctx, 'C20.record', lambda: feed(m, rec),
                     lambda: dict(k=k, cls='Monitor', xform=rec[0], yform=rec[2], y=rec[3]))
        if not ok:
            ctx.label('aborted-after-known-finding')
            return
    xs = [want_x(r) for r in recs]; ys = [want_y(r) for r in recs]; ids = [r[4] for r in recs]
    T = len(recs)
    its = iter_tuples(ids)
    kinds = _labels(case, ctx, recs)
    ctx.label('records:%s' % (T if T < 3 else '3+'))
    facts = dict(numpy_scalars=_has_numpy_scalars(m), mixed_scalar_types=_mixed_scalar_types(m), k=k)
    if facts['numpy_scalars']:
        ctx.label('numpy-scalars-in-monitor')
    kw = {}
    if case['header']:
        kw['header'] = case['header']
    if case['npts']:
        kw['npts'] = tuple(case['npts'])
    def info(p):
        def f():
            txt = open(p).read() if os.path.exists(p) else ''
            return dict(facts, file=txt[-500:], np_repr_in_file=('np.float64(' in txt or 'array(' in txt))
        return f

    def cost_ok(sub, cost, n):
        ok = len(cost) == T and all(yeq(g, w, n) for g, w in zip(cost, ys))
        over_k = (not ok) and k not in (None, 1) and len(cost) == T and \
            all(_loose(g, w, k) for g, w in zip(cost, ys))
        ctx.expect(ok, sub, lambda: dict(got=show(cost), recorded=ys, k=k, ulps_allowed=n, got_is_cost_over_k=bool(over_k)))

    def ids_ok(sub, got):
        if T == 0:
            ctx.expect(got is None or len(got) == 0, sub, lambda: dict(got=show(got), recorded=[]))
        else:
            ctx.expect(tuples_eq(got, its), sub, lambda: dict(got=show(got), want=[list(t) for t in its], ids=ids))

    # -- own transposition vs the documented converters (pure functions)
    if T and not facts['mixed_scalar_types']:
        sp, sc = munge.raw_to_support([list(x) for x in xs], list(ys))
        ctx.expect(support_eq(sp, xs) and len(sc) == T and all(yeq(g, w) for g, w in zip(sc, ys)), 'C20.transposition',
                   lambda: dict(got=show(sp), want=show(support_of(xs))))
        cp, cc = munge.raw_to_converge([list(x) for x in xs], list(ys))
        ctx.expect(len(cp) == T and all(len(g) == len(x) and all(xeq(gi, [xi]) for gi, xi in zip(g, x))
                                        for g, x in zip(cp, xs)), 'C20.transposition',
                   lambda: dict(got=show(cp), note='raw_to_converge: params[t][d] == (x_t[d],)'))
        bp, bc = munge.converge_to_support(cp, cc)
        ctx.expect(support_eq(bp, xs), 'C20.transposition', lambda: dict(got=show(bp), note='converge_to_support'))

    # -- raw file
    raw = os.path.join(d, tag + '_raw.py')
    ok, _ = call(ctx, 'C20.raw_writable', lambda: munge.write_raw_file(m, raw, **kw), facts)
    if ok:
        ok, res = call(ctx, 'C20.raw_readable', lambda: _fresh_read(tag + '_raw', lambda: munge.read_raw_file(raw, iter=True)),
                       info(raw))
        if ok:
            ctx.expect(len(res) == 3, 'C20.raw_params', lambda: dict(got=show(res)))
            ids_ok('C20.raw_iter', res[0])
            ctx.expect(len(res[1]) == T and all(xeq(g, w) for g, w in zip(res[1], xs)), 'C20.raw_params',
                       lambda: dict(got=show(res[1]), recorded=xs))
            cost_ok('C20.raw_cost', res[2], nr)
            ok, res = call(ctx, 'C20.raw_readable', lambda: _fresh_read(tag + '_raw', lambda: munge.read_raw_file(raw)), info(raw))
            if ok:
                ctx.expect(len(res) == 2 and len(res[0]) == T and all(xeq(g, w) for g, w in zip(res[0], xs)),
                           'C20.raw_params', lambda: dict(got=show(res)))
                cost_ok('C20.raw_cost', res[1], nr)
            if case['npts']:
                ok, res = call(ctx, 'C20.raw_readable', lambda: _fresh_read(tag + '_raw', lambda: munge.read_import(raw, 'npts')), info(raw))
                if ok:
                    ctx.expect(list(res) == list(case['npts']), 'C20.raw_extra', lambda: dict(got=show(res), written=case['npts']))
            # re-reading a file that was rewritten in the meantime (same process, module not dropped)
            if not facts['numpy_scalars']:
                importlib.invalidate_caches()
                try:
                    ok, first = call(ctx, 'C20.raw_readable', lambda: munge.read_raw_file(raw), info(raw))
                    m2 = make_monitor('Monitor', k)
                    for rec in recs:
                        feed(m2, rec)
                    m2([7.0] * case['dim'], 7.0)
                    munge.write_raw_file(m2, raw, **kw)
                    importlib.invalidate_caches()
                    ok2, second = call(ctx, 'C20.raw_readable', lambda: munge.read_raw_file(raw), info(raw))
                    if ok and ok2:
                        ctx.expect(len(second[1]) == T + 1 and len(second[0]) == T + 1, 'C20.reread',
                                   lambda: dict(records_in_file=T + 1, records_read=len(second[1]),
                                                got_is_first_content=(len(second[1]) == T and len(first[1]) == T),
                                                note='file rewritten between two reads in one process'))
                finally:
                    sys.modules.pop(tag + '_raw', None)

    # -- the same with a bare file name in the working directory (as the default log_file='paramlog.py' is used)
    if T and not facts['numpy_scalars'] and not facts['mixed_scalar_types']:
        cwd = os.getcwd()
        rel = tag + '_rel.py'
        try:
            os.chdir(d)
            importlib.invalidate_caches()
            ok, _ = call(ctx, 'C20.raw_writable', lambda: munge.write_raw_file(m, rel, **kw), facts)
            ok1, first = call(ctx, 'C20.raw_readable', lambda: munge.read_raw_file(rel), info(os.path.join(d, rel)))
            m2 = make_monitor('Monitor', k)
            for rec in recs:
                feed(m2, rec)
            m2([7.0] * case['dim'], 7.0)
            munge.write_raw_file(m2, rel, **kw)
            importlib.invalidate_caches()
            ok2, second = call(ctx, 'C20.raw_readable', lambda: munge.read_raw_file(rel), info(os.path.join(d, rel)))
            if ok and ok1 and ok2:
                ctx.label('reread:bare-name')
                ctx.expect(len(first[0]) == T and len(second[1]) == T + 1 and len(second[0]) == T + 1, 'C20.reread',
                           lambda: dict(records_in_file=T + 1, records_read=len(second[1]), first_read=len(first[0]),
                                        got_is_first_content=(len(second[1]) == T and len(first[1]) == T),
                                        note='bare file name, rewritten between two reads in one process'))
                ok3, hist = call(ctx, 'C20.support_readable', lambda: munge.read_history(rel), info(os.path.join(d, rel)))
                if ok3:
                    ctx.expect(len(hist[1]) == T + 1, 'C20.reread',
                               lambda: dict(records_in_file=T + 1, records_read=len(hist[1]), reader='read_history',
                                            note='bare file name, rewritten between two reads in one process'))
        finally:
            os.chdir(cwd)
            sys.modules.pop(tag + '_rel', None)

    # -- support file
    sup = os.path.join(d, tag + '_sup.py')
    ok, _ = call(ctx, 'C20.support_writable', lambda: munge.write_support_file(m, sup, **kw), facts)
    if ok:
        ok, res = call(ctx, 'C20.support_readable', lambda: _fresh_read(tag + '_sup', lambda: munge.read_history(sup, iter=True)),
                       info(sup))
        if ok:
            ids_ok('C20.support_iter', res[0])
            ctx.expect(support_eq(res[1], xs), 'C20.support_params',
                       lambda: dict(got=show(res[1]), want=show(support_of(xs)), note='params[d][t] == (x_t[d],)'))
            cost_ok('C20.support_cost', res[2], 2 * nr)
        if T:
            ok, res = call(ctx, 'C20.load_readable', lambda: _fresh_read(tag + '_sup', lambda: M._load(sup)), info(sup))
            if ok:
                ctx.expect(len(res) == T and all(xeq(g, w) for g, w in zip(res.x, xs)), 'C20.load_params',
                           lambda: dict(got=show(res.x), recorded=xs))
                cost_ok('C20.load_cost', res.y, 2 * nr)
                if case['npts']:
                    ctx.expect(res._npts is not None and list(res._npts) == list(case['npts']), 'C20.raw_extra',
                               lambda: dict(got=show(res._npts), written=case['npts']))

    # -- converge file
    con = os.path.join(d, tag + '_con.py')
    ok, _ = call(ctx, 'C20.converge_writable', lambda: munge.write_converge_file(m, con, **kw), facts)
    if ok:
        ok, res = call(ctx, 'C20.converge_readable', lambda: _fresh_read(tag + '_con', lambda: munge.read_converge_file(con, iter=True)),
                       info(con))
        if ok:
            ctx.expect(len(res) == 2 and len(res[1]) == 2, 'C20.converge_params', lambda: dict(got=show(res)))
            ids_ok('C20.converge_iter', res[0])
            params, cost = res[1]
            # reading back reverts the transposition: params[t] holds x_t
            ctx.expect(len(params) == T and all(xeq(flat(g), w) for g, w in zip(params, xs)), 'C20.converge_params',
                       lambda: dict(got=show(params), recorded=xs))
            cost_ok('C20.converge_cost', cost, 2 * nr)
        ok, res = call(ctx, 'C20.converge_readable', lambda: _fresh_read(tag + '_con', lambda: munge.read_raw_file(con)), info(con))
        if ok:
            # as stored: params[t][d] == (x_t[d],)
            ctx.expect(len(res[0]) == T and all(len(g) == len(x) and all(xeq(gi, [xi]) for gi, xi in zip(g, x))
                                                for g, x in zip(res[0], xs)), 'C20.converge_params',
                       lambda: dict(got=show(res[0]), recorded=xs, note='stored layout'))

    # -- monitor <-> raw data
    ok, res = call(ctx, 'C20.read_monitor', lambda: munge.read_monitor(m, id=True), facts)
    if ok:
        ctx.expect(len(res) == 3 and len(res[0]) == T and all(xeq(g, w) for g, w in zip(res[0], xs)) and
                   len(res[2]) == T and all(ideq(g, w) for g, w in zip(res[2], ids)), 'C20.read_monitor',
                   lambda: dict(got=show(res)))
        cost_ok('C20.read_monitor', res[1], nr)
        before = mon_fp(m)
        ok, m3 = call(ctx, 'C20.write_monitor', lambda: munge.write_monitor(res[0], res[1], res[2], k=k), facts)
        if ok:
            model = [(x, y, i, 2 * nr) for x, y, i in zip(xs, ys, ids)]
            MonState.check_monitor(_Shim(ctx), m3, model, 'write_monitor', 'written')
            ctx.expect(m3.k == k or (m3.k is None and k is None), 'C20.write_monitor', lambda: dict(k=show(m3.k), asked=k))
            m3([0.0] * case['dim'], 0.0)
            ctx.expect(mon_fp(m) == before, 'C20.arg_unchanged',
                       lambda: dict(where='write_monitor(read_monitor(m))', note='writing to the copy changed the source'))
    ok, res = call(ctx, 'C20.history_monitor_readable', lambda: munge.read_history(m, iter=True), facts)
    if ok:
        ids_ok('C20.history_monitor', res[0])
        ctx.expect(support_eq(res[1], xs), 'C20.history_monitor', lambda: dict(got=show(res[1]), want=show(support_of(xs))))
        cost_ok('C20.history_monitor', res[2], nr)
    ctx.nontrivial(T >= 3 and bool(kinds))


# --------------------------------------------------------------------------- tests
# libFuzzer executions per shard and @given test of the coverage-guided extra of the thorough tier (vp/fuzz.py)
FUZZ = 2000

TESTS = [
    Test('machine', _run_machine, machine=machine_factory,
         examples={'quick': 1800, 'thorough': 30000}, steps={'quick': 16, 'thorough': 40}),
    Test('log', run_log, strategy=lambda tier: log_cases(tier),
         examples={'quick': 2000, 'thorough': 80000}),
    Test('files', run_files, strategy=lambda tier: file_cases(tier),
         examples={'quick': 2000, 'thorough': 80000}),
]


# --------------------------------------------------------------------------- known findings
def _kf_np_repr(case, sub, detail):
    """a monitor holding numpy scalars (any monitor fed numpy arrays, e.g. every solver's step monitor) is written
    as 'np.float64(1.0)' under numpy >= 2; the file defines inf and nan but not np"""
    if not (sub.endswith('_readable') and isinstance(detail, dict) and detail.get('numpy_scalars') is True
            and detail.get('np_repr_in_file') is True):
        return False
    if sub == 'C20.load_readable':          # monitors._load wraps every error in OSError
        return detail.get('exception') == 'OSError' and 'error reading' in detail.get('message', '')
    return detail.get('exception') == 'NameError' and ("'np'" in detail.get('message', '') or
                                                       "'array'" in detail.get('message', ''))


def _kf_zero_d(case, sub, detail):
    """Monitor(k != None) called with a 0-d array cost raises TypeError (and leaves x appended without y)"""
    return (sub == 'C20.record' and isinstance(detail, dict) and detail.get('exception') == 'TypeError'
            and '0-d' in detail.get('message', '') and detail.get('yform') == '0d' and detail.get('k') is not None)


def _kf_cost_over_k(case, sub, detail):
    """write_support_file / write_converge_file write cost/k for a monitor with k not in (None, 1)"""
    return (sub in ('C20.support_cost', 'C20.converge_cost', 'C20.load_cost') and isinstance(detail, dict)
            and detail.get('k') not in (None, 1) and detail.get('got_is_cost_over_k') is True)


def _kf_tolist(case, sub, detail):
    """raw_to_converge calls .tolist() on every cost when the first one has it: AttributeError for a history whose
    first cost is a numpy scalar and a later one a python float (read_history(monitor) then fails with the TypeError
    of its fallback branch)"""
    if not isinstance(detail, dict) or detail.get('mixed_scalar_types') is not True:
        return False
    if sub in ('C20.support_writable', 'C20.converge_writable'):
        return detail.get('exception') == 'AttributeError' and 'tolist' in detail.get('message', '')
    if sub == 'C20.history_monitor_readable':
        return detail.get('exception') == 'TypeError' and 'is not a monitor instance' in detail.get('message', '')
    return False


def _kf_stale_import(case, sub, detail):
    """read_import leaves the imported file in sys.modules: a second read of a rewritten file (or of another file
    with the same base name) returns the first content"""
    return sub == 'C20.reread' and isinstance(detail, dict) and detail.get('got_is_first_content') is True


KNOWN = {}      # the defects this check found were repaired in /repo (see known_findings.json); predicates kept for reference
