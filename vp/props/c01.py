"""C01 - the reported optimum is a genuinely evaluated point with its true energy."""
import math
import numpy as np
from hypothesis import strategies as st
from vp.runner import Test
from vp import lab
from vp.solver_run import Run, configs, feq, red_tol
from vp.util import F, FL, finite_floats

PROP = 'C01'
RULE = ("@given configurations: solver in {DE, DE2, Nelder-Mead, Powell} x dim 1-4 x cost family (quadratic, "
        "Rosenbrock-type, |x|, cosine bowl, floor plateau, inf on a half-space, array-valued+reducer) x return type x "
        "start point / random box x bounds (integer boxes, tight/clip modes except the randomising clip=False) x "
        "box-compatible idempotent constraint (pin, clamp, grid, tie, sort, symbolic; pure/in-place; list/array) x "
        "penalty (8 mystic types or plain) x DE strategy/CR/F/NP x limits/termination; driven with Step() so every "
        "iteration boundary is observed.  Second test: the one-call wrappers fmin, fmin_powell, diffev, diffev2, lattice, "
        "buckshot, sparsity.  Non-trivial: >= 2 completed iterations, the best changed after generation 0, and at least "
        "one of bounds/constraint/penalty/reducer active; distinct by canonical JSON.")
ASSUME = ["the recording cost object and its unrecorded twin (harness) compute the same pure function",
          "mystic.penalty objects are used as-is to evaluate penalty(x) (their formulas are C15's subject)",
          "constraints are idempotent and map the box into itself by construction (checked by lab.box_compatible)",
          "NaN-valued costs are outside the domain; inf is inside"]


def check_boundary(run, ctx, b):
    s = run.solver
    be = float(s.bestEnergy)
    bs = lab.fvec(s.bestSolution)
    where = dict(solver=run.kind, boundary=b, generations=int(s.generations))
    if math.isfinite(be):
        rec = run.cost.lookup(bs)
        ctx.expect(rec is not None, 'C01.evaluated',
                   lambda: dict(where, bestSolution=bs, note='bestSolution was never passed to the cost function'))
        if rec is not None:
            want = run.energy_from_record(bs)
            ulps = 4 if run.red else 0
            ctx.expect(feq(be, want, ulps, red_tol(run, bs)), 'C01.energy',
                       lambda: dict(where, bestEnergy=be, expected=float(want), bestSolution=bs,
                                    recorded=rec, penalty=float(run.penalty_at(bs))))
    # members
    pop = [lab.fvec(p) for p in s.population]
    en = [float(e) for e in s.popEnergy]
    if run.kind != 'NM' or int(s.generations) >= 1:
        for i, (m, e) in enumerate(zip(pop, en)):
            want = run.objective(m)
            ulps = 4 if run.red else 0
            ctx.expect(feq(e, want, ulps, red_tol(run, m) if math.isfinite(want) else 0.0), 'C01.members',
                       lambda: dict(where, member=i, x=m, stored=e, objective=float(want)))
    return be


def run_class(case, ctx):
    run = Run(case, ctx)
    s = run.solver
    first = None; changed = False; it = 0
    nmax = case['maxiter'] + 3
    e0 = None
    for b in range(nmax):
        msg = run.step()
        if len(run.callbacks) == b + 1:      # an iteration was performed
            it += 1
            be = check_boundary(run, ctx, b)
            if e0 is None:
                # the energy of the (clipped, constrained) initial guess: first recorded call
                if run.cost.calls:
                    x_first = run.cost.calls[0][0]
                    e0 = run.energy_from_record(x_first)
                    if run.kind in ('NM', 'PW'):
                        ctx.expect(not (be > e0 + red_tol(run, x_first)), 'C01.not_worse', lambda: dict(solver=run.kind, best=be, initial=float(e0)))
            elif run.kind in ('NM', 'PW'):
                ctx.expect(not (float(s.bestEnergy) > e0 + red_tol(run, run.cost.calls[0][0])), 'C01.not_worse',
                           lambda: dict(solver=run.kind, best=float(s.bestEnergy), initial=float(e0), boundary=b))
            if first is None:
                first = lab.fvec(s.bestSolution)
            elif lab.fvec(s.bestSolution) != first:
                changed = True
        if msg:
            break
    if run.kind in ('DE', 'DE2') and run.cost.calls and case['init']['kind'] == 'point':
        # DE: the initial guess is member 0; its energy is the first evaluation
        x_first = run.cost.calls[0][0]
        e_init = run.energy_from_record(x_first)
        ctx.expect(not (float(s.bestEnergy) > e_init + red_tol(run, x_first)), 'C01.not_worse',
                   lambda: dict(solver=run.kind, best=float(s.bestEnergy), initial=float(e_init)))
    ctx.label('solver:' + run.kind, 'cost:' + case['cost']['fam'])
    active = []
    for k in ('bounds', 'constraint', 'penalty', 'reducer'):
        if case.get(k):
            active.append(k); ctx.label(k)
    if case.get('constraint'):
        ctx.label('con:' + case['constraint']['kind'])
        if run.con.moved: ctx.label('constraint-moved-a-point')
    if case.get('bounds'):
        ctx.label('mode:%s/%s' % (case['bounds'].get('tight'), case['bounds'].get('clip')))
    ctx.nontrivial(it - 1 >= 2 and changed and bool(active))


# --------------------------------------------------------------------------- reconfiguration mid-run
@st.composite
def reconfig_cases(draw, tier='quick'):
    """a class-API configuration plus benign re-decorations of the objective between iterations (the same
    penalty / constraints / ranges installed again, a fresh evaluation monitor, Finalize) and a resume after
    the stop (limits raised): none of them changes the objective, so every clause of the property still
    applies at every later boundary"""
    cfg = draw(configs(tier, clip_modes=((None, None), (True, None), (False, None), (True, True), (None, True))))
    n = cfg['maxiter']
    hows = ['evalmon', 'penalty', 'constraints', 'finalize'] + (['ranges', 'ranges'] if cfg.get('bounds') else [])
    if cfg['solver'] == 'NM' and cfg.get('bounds') and not cfg.get('reducer'):
        # one change that is not benign, where the solver is built to follow it: Nelder-Mead with strict ranges evaluates
        # its whole simplex again after a re-decoration, so from the next boundary on every stored energy is the new objective
        hows += ['penalty2', 'penalty2']
    k = draw(st.integers(1, 3))
    cfg['reconfig'] = [[draw(st.integers(0, max(0, n - 1))), draw(st.sampled_from(hows))] for _ in range(k)]
    cfg['resume'] = draw(st.sampled_from([0, 0, 2, 4]))
    return cfg


def _reconfigure(run, how):
    from mystic.monitors import Monitor
    s = run.solver
    if how == 'evalmon':
        s.SetEvaluationMonitor(Monitor())
    elif how == 'penalty':
        s.SetPenalty(run.pen)
    elif how == 'constraints':
        s.SetConstraints(run.con)
    elif how == 'finalize':
        s.Finalize()
    elif how == 'penalty2':
        run.pen = lab.make_penalty(dict(kind='plain', i=0, c=-0.5, k=3.0))
        s.SetPenalty(run.pen)
    elif how == 'ranges':
        b = run.cfg['bounds']
        s.SetStrictRanges(list(run.box[0]), list(run.box[1]), tight=b.get('tight'), clip=b.get('clip'))


def run_reconfig(case, ctx):
    run = Run(case, ctx)
    s = run.solver
    plan = {}
    for at, how in case['reconfig']:
        plan.setdefault(at, []).append(how)
    nmax = case['maxiter'] + 3
    boundaries = 0; resumed = False; did = []
    b = 0
    while b < nmax + 8:
        msg = run.step()
        if len(run.callbacks) == boundaries + 1:
            boundaries += 1
            check_boundary(run, ctx, b)
            did_here = []
            for how in plan.pop(boundaries - 1, []):
                if not msg:
                    _reconfigure(run, how); did.append(how)
                    # nothing has been evaluated: the best and its energy are what they were
                    if how == 'penalty2' or 'penalty2' in did_here:
                        did_here.append(how)     # (the energies are those of the old objective until the next iteration)
                    else:
                        check_best_only(run, ctx, 'after ' + how)
        b += 1
        if msg:
            if case['resume'] and not resumed and boundaries >= 1:
                resumed = True
                s.SetEvaluationLimits(generations=int(s.generations) + case['resume'], evaluations=10 ** 6)
                if not s.Terminated():
                    did.append('resume')
                    continue
            break
    ctx.label('solver:' + run.kind, *['reconfig:' + h for h in sorted(set(did))])
    for k in ('bounds', 'constraint', 'penalty', 'reducer'):
        if case.get(k): ctx.label(k)
    ctx.nontrivial(bool(did) and boundaries >= 3)


def check_best_only(run, ctx, where):
    s = run.solver
    be = float(s.bestEnergy); bs = lab.fvec(s.bestSolution)
    if math.isfinite(be):
        rec = run.cost.lookup(bs)
        ctx.expect(rec is not None, 'C01.evaluated', lambda: dict(solver=run.kind, where=where, bestSolution=bs))
        if rec is not None:
            want = run.energy_from_record(bs)
            ctx.expect(feq(be, want, 4 if run.red else 0, red_tol(run, bs)), 'C01.energy',
                       lambda: dict(solver=run.kind, where=where, bestEnergy=be, expected=float(want), bestSolution=bs))


# --------------------------------------------------------------------------- wrappers
@st.composite
def wrapper_cases(draw, tier='quick'):
    w = draw(st.sampled_from(['fmin', 'fmin_powell', 'diffev', 'diffev2', 'lattice', 'buckshot', 'sparsity']))
    dim = draw(st.integers(1, 3 if w not in ('sparsity',) else 2))
    c = dict(wrapper=w, dim=dim, seed=draw(st.integers(0, 2 ** 20)))
    c['cost'] = draw(lab.cost_specs(dim, families=('quad', 'rosen', 'abs', 'cos', 'plateau')))
    lo, hi = draw(lab.boxes(dim, integer=True))
    hi = [h if h > l else l + 1.0 for l, h in zip(lo, hi)]
    need_box = w in ('lattice', 'buckshot', 'sparsity')
    c['bounds'] = dict(lo=lo, hi=hi) if (need_box or draw(st.booleans())) else None
    if c['bounds'] and draw(st.integers(0, 2)) == 0:
        spec = draw(lab.constraint_specs(dim, box=(lo, hi), symbolic=False))
        if lab.box_compatible(spec, lo, hi):
            c['constraint'] = spec
    if draw(st.integers(0, 2)) == 0:
        c['penalty'] = draw(lab.penalty_specs(dim))
    if c['bounds'] and draw(st.booleans()):
        fr = draw(st.lists(st.sampled_from([0.0, 0.25, 0.5, 1.0]), min_size=dim, max_size=dim))
        c['x0'] = [l + f * (h - l) for l, h, f in zip(lo, hi, fr)]
    else:
        c['x0'] = draw(st.lists(finite_floats(-3, 3), min_size=dim, max_size=dim))
    if w in ('diffev', 'diffev2'):
        c['npop'] = draw(st.integers(4, 8))
        c['x0_as_box'] = bool(c['bounds']) and draw(st.booleans())
    c['maxiter'] = draw(st.integers(1, 10))
    c['maxfun'] = draw(st.sampled_from([None, None, 30, 100]))
    if w == 'lattice':
        c['nbins'] = draw(st.lists(st.integers(1, 2), min_size=dim, max_size=dim))
    if w in ('buckshot', 'sparsity'):
        c['npts'] = draw(st.integers(1, 4 if w == 'buckshot' else 3))
    return c


def run_wrapper(case, ctx):
    import mystic.solvers as ms
    lab.reset_registry(); lab.seed_rng(case['seed'])
    w = case['wrapper']; dim = case['dim']
    cost = lab.Cost('c0', case['cost'])
    con = lab.Constraint(case['constraint']) if case.get('constraint') else None
    pen = lab.make_penalty(case.get('penalty'))
    kw = dict(full_output=1, disp=0, maxiter=case['maxiter'], maxfun=case['maxfun'])
    if con is not None: kw['constraints'] = con
    if pen is not None: kw['penalty'] = pen
    b = case.get('bounds')
    box = (FL(b['lo']), FL(b['hi'])) if b else None
    bounds = list(zip(*box)) if box else None
    cbs = []
    kw['callback'] = lambda x: cbs.append(lab.fvec(x))
    if w == 'fmin':
        res = ms.fmin(cost, FL(case['x0']), bounds=bounds, **kw)
    elif w == 'fmin_powell':
        res = ms.fmin_powell(cost, FL(case['x0']), bounds=bounds, **kw)
    elif w in ('diffev', 'diffev2'):
        x0 = bounds if case.get('x0_as_box') else FL(case['x0'])
        res = getattr(ms, w)(cost, x0, case['npop'], bounds=bounds, **kw)
    elif w == 'lattice':
        kw.pop('callback')
        res = ms.lattice(cost, dim, tuple(case['nbins']), bounds=bounds, **kw)
    elif w == 'buckshot':
        kw.pop('callback')
        res = ms.buckshot(cost, dim, case['npts'], bounds=bounds, **kw)
    else:
        kw.pop('callback')
        res = ms.sparsity(cost, dim, case['npts'], bounds=bounds, **kw)
    x, fval, iters, funcalls, warnflag = res[:5]
    xs = lab.fvec(x); fv = float(fval)
    ctx.label('wrapper:' + w)
    pen_at = (lambda v: pen(list(v))) if pen is not None else (lambda v: 0.0)
    if math.isfinite(fv):
        rec = cost.lookup(xs)
        ctx.expect(rec is not None, 'C01.wrapper', lambda: dict(wrapper=w, x=xs, note='returned x was never evaluated'))
        if rec is not None:
            want = rec + pen_at(xs)
            ctx.expect(feq(fv, want), 'C01.wrapper', lambda: dict(wrapper=w, x=xs, fval=fv, expected=float(want)))
        if con is not None:
            ctx.expect(con.sat(xs), 'C01.wrapper', lambda: dict(wrapper=w, x=xs, note='returned x violates the constraint'))
        if box:
            ctx.expect(lab.in_box(xs, *box), 'C01.wrapper', lambda: dict(wrapper=w, x=xs, note='returned x outside the bounds'))
    if w in ('fmin', 'fmin_powell', 'diffev', 'diffev2'):
        ctx.expect(int(funcalls) == cost.ncalls(), 'C01.wrapper',
                   lambda: dict(wrapper=w, funcalls=int(funcalls), real_calls=cost.ncalls()))
        ctx.expect(int(iters) == max(0, len(cbs) - 1), 'C01.wrapper',
                   lambda: dict(wrapper=w, iter=int(iters), callbacks=len(cbs)))
    else:
        total = int(res[5])      # ensembles: funcalls is the best member's count, allfuncalls the total
        ctx.expect(total == cost.ncalls(), 'C01.wrapper',
                   lambda: dict(wrapper=w, allfuncalls=total, real_calls=cost.ncalls(), note='ensemble total'))
    ctx.nontrivial(int(iters) >= 2 and bool(b or con or pen))


# --------------------------------------------------------------------------- ensembles, observed after every Step
def _ens_cases(tier):
    """the C09 ensemble configurations, always driven Step by Step, with DE members as often as simplex ones"""
    from vp.props import c09

    def fix(c):
        c = dict(c); c['mode'] = 'step'
        if c['map'] == 'forked': c['map'] = 'serial'
        if c['as'] == 'bare': c['as'] = 'class'       # (bare configured instances: known finding F57, recorded under C09)
        return c
    return c09.ens_cases(tier).map(fix)


def run_ensemble(case, ctx):
    from vp.props import c09
    s, cost, pen, sink = c09.build(case)
    pen_at = (lambda v: pen(list(v))) if pen is not None else (lambda v: 0.0)
    s.SetObjective(cost)
    where = dict(kind=case['kind'], nested=case['nested'], given_as=case['as'], map=case['map'])
    changed = 0; last = None; steps = 0
    for k in range(case['maxiter'] + 5):
        msg = s.Step(disp=0, **(s._vp_first_kw if k == 0 else {}))
        steps += 1
        be = float(s.bestEnergy)
        if math.isfinite(be):
            bs = lab.fvec(s.bestSolution)
            rec = cost.lookup(bs)
            ctx.expect(rec is not None, 'C01.evaluated', lambda: dict(where, boundary=k, bestSolution=bs, bestEnergy=be,
                                                                      note='the ensemble reports a point the cost was never called at'))
            if rec is not None:
                want = rec + pen_at(bs)
                ctx.expect(feq(be, want), 'C01.energy', lambda: dict(where, boundary=k, bestSolution=bs, bestEnergy=be, recorded=rec,
                                                                     penalty=float(pen_at(bs)), expected=float(want)))
            if last is not None and (bs, be) != last: changed += 1
            last = (bs, be)
        if msg:
            break
    ctx.label('ens:' + case['kind'], 'nested:' + case['nested'], 'as:' + case['as'], 'map:' + case['map'])
    if case.get('penalty'): ctx.label('penalty')
    if case.get('constraint'): ctx.label('constraint')
    ctx.nontrivial(steps >= 3 and changed >= 1)


TESTS = [
    Test('class', run_class, strategy=lambda tier: configs(tier, clip_modes=((None, None), (True, None), (False, None), (True, True), (None, True))),
         examples={'quick': 8000, 'thorough': 120000}),
    Test('wrapper', run_wrapper, strategy=lambda tier: wrapper_cases(tier),
         examples={'quick': 1600, 'thorough': 30000}),
    Test('reconfig', run_reconfig, strategy=lambda tier: reconfig_cases(tier),
         examples={'quick': 4000, 'thorough': 80000}),
    # Nelder-Mead with a grid constraint on a rugged cost, long enough for shrink steps (generator shared with C03): a
    # shrunk vertex that becomes the best must be a point the cost was called at
    Test('nm_shrink', run_class, strategy=lambda tier: _shrink_cases(tier),
         examples={'quick': 2400, 'thorough': 50000}),
    # 'or an ensemble of them': Lattice / Buckshot / Sparsity driven Step by Step, the reported pair checked at every boundary
    Test('ensemble', run_ensemble, strategy=lambda tier: _ens_cases(tier),
         examples={'quick': 1200, 'thorough': 20000}),
]

def _shrink_cases(tier):
    from vp.props.c03 import shrink_cases
    return shrink_cases(tier)


def _kf_f8(case, subcheck, detail):
    # F8: penalty is added before the reducer, so a sum-type reducer counts it once per component
    return bool(case.get('reducer')) and case['reducer']['kind'] in ('sum', 'add2', 'sumsq', 'maxabs') and bool(case.get('penalty')) \
        and subcheck in ('C01.energy', 'C01.members', 'C01.not_worse')


KNOWN = {'F8-sum-reducer-counts-penalty-per-component': _kf_f8}
