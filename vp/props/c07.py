"""C07 - results depend only on configuration and seed, not on call order or schedule."""
import math
import numpy as np
from hypothesis import strategies as st
from vp.runner import Test
from vp import lab
from vp.solver_run import configs
from vp.util import F, FL

PROP = 'C07'
RULE = ("(order) a solver configuration (as C01) whose Set* calls - objective, constraints, penalty, strict ranges, limits, "
        "termination, both monitors, reducer, DE parameters - are applied in a Hypothesis-drawn permutation, the initial-points "
        "call at a drawn position with the RNG reseeded immediately before it (and not afterwards), optionally with setters "
        "repeated; the complete trajectory (snapshot after every Step) must equal that of the canonical order.  (map) DE2 under "
        "harness-owned maps (serial, reversed, shuffled, threaded; forked in the thorough tier) vs python_map.  (ensemble) "
        "Lattice/Buckshot with Nelder-Mead/Powell members under each map and in step-wise vs run-to-completion mode.  "
        "Non-trivial: the permutation is not the identity / the map really reorders or runs in parallel, and >= 2 generations; "
        "distinct by canonical JSON.")
ASSUME = ["thread/process schedules are sampled (the OS schedules the pool); reversed/shuffled evaluation orders are systematic",
          "with a non-default map DE2 deliberately uses no evaluation monitor; monitors are compared only under python_map"]

SETTERS = ['objective', 'constraints', 'penalty', 'ranges', 'limits', 'termination', 'stepmon', 'evalmon', 'reducer', 'deparams']


def build(cfg, ctx, order, init_pos, dups):
    """apply the configuration's setters in the given order; returns (solver, cost)"""
    lab.reset_registry()
    lab.seed_rng(cfg['seed'] + 17)       # a different stream before the initial points: must not matter
    kind = cfg['solver']; dim = cfg['dim']
    s = lab.make_solver(kind, dim, cfg.get('npop'))
    extra = cfg.get('extra') if cfg.get('extra_by_objective') else None
    cost = lab.Cost('c0', cfg['cost'], extra=len(extra) if extra else 0)
    con = lab.Constraint(cfg['constraint']) if cfg.get('constraint') else None
    pen = lab.make_penalty(cfg.get('penalty'))

    def apply(name):
        if name == 'objective':
            if extra:
                s.SetObjective(cost, ExtraArgs=tuple(FL(extra)))    # the arguments are part of the objective's configuration
            else:
                s.SetObjective(cost)
        elif name == 'constraints':
            s.SetConstraints(con)
        elif name == 'penalty':
            s.SetPenalty(pen)
        elif name == 'ranges':
            b = cfg.get('bounds')
            if b: s.SetStrictRanges(FL(b['lo']), FL(b['hi']), tight=b.get('tight'), clip=b.get('clip'))
        elif name == 'limits':
            s.SetEvaluationLimits(cfg.get('maxiter'), cfg.get('maxfun'))
        elif name == 'termination':
            t = lab.make_termination(cfg.get('term', 'never'))
            if t is not None: s.SetTermination(t)
        elif name == 'stepmon':
            if cfg.get('stepmon'): s.SetGenerationMonitor(lab.make_monitor(cfg['stepmon'], ctx))
        elif name == 'evalmon':
            if cfg.get('evalmon'): s.SetEvaluationMonitor(lab.make_monitor(cfg['evalmon'], ctx))
        elif name == 'reducer':
            if cfg.get('reducer'):
                fn, arr = lab.reducer_fn(cfg['reducer']); s.SetReducer(fn, arraylike=arr)
        elif name == 'deparams':
            if kind in ('DE', 'DE2'):
                s.strategy = cfg['strategy']; s.probability = F(cfg['CR']); s.scale = F(cfg['F'])
        elif name == 'init':
            lab.seed_rng(cfg['seed'])
            init = cfg['init']
            lab.apply_init(s, init)

    seq = list(order)
    seq.insert(min(init_pos, len(seq)), 'init')
    done = []
    for i, name in enumerate(seq):
        apply(name); done.append(name)
        for d in dups:
            if d[0] == i and d[1] in done and d[1] != 'init':
                apply(d[1])
    return s, cost


def trajectory(s, nsteps):
    out = []
    for b in range(nsteps):
        msg = s.Step()
        out.append(lab.snapshot(s))
        if msg: break
    return out


@st.composite
def order_cases(draw, tier):
    cfg = draw(configs(tier))
    cfg['stepmon'] = draw(st.sampled_from([None, 'plain', 'verbose']))
    cfg['evalmon'] = draw(st.sampled_from([None, 'plain']))
    cfg['maxiter'] = draw(st.integers(2, 8))
    if draw(st.integers(0, 2)) == 0:
        cfg['extra'] = [draw(st.sampled_from([0.5, -1.0, 2.0]))]
        cfg['extra_by_objective'] = True
    perm = draw(st.permutations(SETTERS))
    cfg['perm'] = list(perm)
    cfg['init_pos'] = draw(st.integers(0, len(SETTERS)))
    cfg['dups'] = draw(st.lists(st.tuples(st.integers(0, len(SETTERS)), st.sampled_from(SETTERS)), max_size=3).map(lambda l: [list(t) for t in l]))
    return cfg


def run_order(case, ctx):
    n = case['maxiter'] + 2
    s0, c0 = build(case, ctx, SETTERS, 0, [])
    T0 = trajectory(s0, n)
    calls0 = list(c0.calls)
    s1, c1 = build(case, ctx, case['perm'], case['init_pos'], case['dups'])
    T1 = trajectory(s1, n)
    ctx.expect(len(T0) == len(T1), 'C07.order', lambda: dict(solver=case['solver'], steps_canonical=len(T0), steps_permuted=len(T1),
                                                             perm=case['perm'], init_pos=case['init_pos'], dups=case['dups']))
    for b, (a, c) in enumerate(zip(T0, T1)):
        d = lab.snap_equal(a, c)
        ctx.expect(d is None, 'C07.order' if not case['dups'] else 'C07.dup',
                   lambda: dict(solver=case['solver'], boundary=b, differs=d, perm=case['perm'], init_pos=case['init_pos'],
                                dups=case['dups'], canonical=_brief(a, d), permuted=_brief(c, d)))
    ctx.expect([x for x, _ in calls0] == [x for x, _ in c1.calls], 'C07.order',
               lambda: dict(solver=case['solver'], note='sequence of evaluated points differs', perm=case['perm']))
    ctx.label('solver:' + case['solver'])
    if case['dups']: ctx.label('with-duplicates')
    if case.get('extra_by_objective'): ctx.label('ExtraArgs-through-SetObjective')
    ident = case['perm'] == SETTERS and case['init_pos'] == 0
    ctx.nontrivial((not ident) and len(T0) >= 3)


def _brief(snap, key):
    if key is None or key not in snap: return None
    v = snap[key]
    return v if len(str(v)) < 300 else str(v)[:300]


# --------------------------------------------------------------------------- maps: DE2
@st.composite
def map_cases(draw, tier):
    cfg = draw(configs(tier, solvers=('DE2',)))
    cfg['maxiter'] = draw(st.integers(2, 8))
    maps = ['serial', 'reversed', 'shuffled', 'threaded'] + (['forked'] if tier == 'thorough' else [])
    cfg['map'] = draw(st.sampled_from(maps))
    cfg['order_seed'] = draw(st.integers(0, 1000))
    return cfg


KEYS_NOMON = ['population', 'popEnergy', 'bestSolution', 'bestEnergy', 'generations', 'evaluations', 'energy_history',
              'stepmon_x', 'stepmon_y']


def run_map(case, ctx):
    n = case['maxiter'] + 2
    s0, c0 = build(case, ctx, SETTERS, 0, [])
    T0 = trajectory(s0, n)
    s1, c1 = build(case, ctx, SETTERS, 0, [])
    s1.SetMapper(lab.get_map(case['map'], case['order_seed']))
    T1 = trajectory(s1, n)
    ctx.expect(len(T0) == len(T1), 'C07.map', lambda: dict(map=case['map'], steps_python_map=len(T0), steps=len(T1)))
    for b, (a, c) in enumerate(zip(T0, T1)):
        d = lab.snap_equal(a, c, keys=KEYS_NOMON)
        ctx.expect(d is None, 'C07.map', lambda: dict(map=case['map'], boundary=b, differs=d, python_map=_brief(a, d), other=_brief(c, d)))
    if case['map'] != 'forked':
        ctx.expect(sorted(x for x, _ in c0.calls) == sorted(x for x, _ in c1.calls), 'C07.map',
                   lambda: dict(map=case['map'], note='multiset of evaluated points differs'))
    ctx.label('map:' + case['map'])
    ctx.nontrivial(len(T0) >= 3)


# --------------------------------------------------------------------------- ensembles
@st.composite
def ens_cases(draw, tier):
    dim = draw(st.integers(1, 2))
    lo, hi = draw(lab.boxes(dim, integer=True, degenerate=False))
    c = dict(kind=draw(st.sampled_from(['lattice', 'lattice', 'buckshot', 'buckshot', 'sparsity'])), dim=dim, lo=lo, hi=hi, seed=draw(st.integers(0, 2 ** 20)),
             nested=draw(st.sampled_from(['NM', 'PW'])),
             cost=draw(lab.cost_specs(dim, families=('quad', 'rosen', 'abs', 'cos'))),
             maxiter=draw(st.integers(2, 10)),
             map=draw(st.sampled_from(['serial', 'reversed', 'shuffled', 'threaded', 'copying', 'copying'] + (['forked'] if tier == 'thorough' else []))),
             order_seed=draw(st.integers(0, 1000)), step=draw(st.booleans()))
    if c['kind'] == 'lattice':
        c['nbins'] = draw(st.lists(st.integers(1, 3), min_size=dim, max_size=dim))
        if draw(st.integers(0, 2)) == 0:
            c['nbins'] = draw(st.sampled_from([2, 3, 4, 6, 6, 8]))      # a total: spread over the dimensions with the global random source
    else:
        c['npts'] = draw(st.integers(2, 5))
    if draw(st.integers(0, 2)) == 0:
        c['penalty'] = draw(lab.penalty_specs(dim))
    c['mons'] = draw(st.booleans())          # evaluation and generation monitors on the ensemble (handed on to the members)
    # a termination that some members meet at their very first evaluation while the others go on iterating
    c['term'] = draw(st.sampled_from([None, None, ['vtr', 0.5], ['vtr', 5.0], ['vtr', 1e-3], ['or', 0.5], ['or', 5.0], ['cog']]))
    if c['term'] and c['term'][0] in ('vtr', 'or') and c['kind'] == 'lattice' and isinstance(c['nbins'], list) and draw(st.booleans()):
        # put the optimum of a quadratic bowl on one cell centre: that member starts at energy 0
        cell = [draw(st.integers(0, n - 1)) for n in c['nbins']]
        centre = [float(l) + (j + 0.5) * (float(h) - float(l)) / n for l, h, j, n in zip(lo, hi, cell, c['nbins'])]
        c['cost'] = dict(fam='quad', a=centre, w=[1.0] * dim, ret='float')
    return c


def ens_run(case, ctx, mapname, step):
    from mystic.solvers import LatticeSolver, BuckshotSolver, SparsitySolver, NelderMeadSimplexSolver, PowellDirectionalSolver
    lab.reset_registry(); lab.seed_rng(case['seed'])
    dim = case['dim']
    cost = lab.Cost('c0', case['cost'])
    if case['kind'] == 'lattice':
        s = LatticeSolver(dim, tuple(case['nbins']) if isinstance(case['nbins'], list) else int(case['nbins']))
    elif case['kind'] == 'sparsity':
        s = SparsitySolver(dim, case['npts'])
    else:
        s = BuckshotSolver(dim, case['npts'])
    s.SetNestedSolver(NelderMeadSimplexSolver if case['nested'] == 'NM' else PowellDirectionalSolver)
    s.SetStrictRanges(FL(case['lo']), FL(case['hi']))
    s.SetEvaluationLimits(generations=case['maxiter'])
    pen = lab.make_penalty(case.get('penalty'))
    if pen is not None: s.SetPenalty(pen)
    t = case.get('term')
    if t:
        import mystic.termination as T
        if t[0] == 'vtr': s.SetTermination(T.VTR(F(t[1]), 0.0))
        elif t[0] == 'or': s.SetTermination(T.Or(T.VTR(F(t[1]), 0.0), T.ChangeOverGeneration(1e-8, 3)))
        else: s.SetTermination(T.ChangeOverGeneration(1e-6, 2))
    if case.get('mons'):
        from mystic.monitors import Monitor
        s.SetEvaluationMonitor(Monitor()); s.SetGenerationMonitor(Monitor())
    if mapname != 'python':
        s.SetMapper(lab.get_map(mapname, case['order_seed']))
    s.Solve(cost, disp=0, step=step)
    res = dict(bestSolution=lab.lst(s.bestSolution), bestEnergy=float(s.bestEnergy),
               all_bestEnergy=[float(e) for e in s._all_bestEnergy],
               all_bestSolution=[lab.lst(x) for x in s._all_bestSolution],
               total_evals=int(s._total_evals), all_evals=[int(e) for e in s._all_evals],
               all_iters=[int(e) for e in s._all_iters])
    return res, cost


def run_ens(case, ctx):
    base, c0 = ens_run(case, ctx, 'python', False)
    other, c1 = ens_run(case, ctx, case['map'], case['step'])
    for k in sorted(base):
        ctx.expect(lab._eq(base[k], other[k]), 'C07.ensemble',
                   lambda: dict(kind=case['kind'], nested=case['nested'], map=case['map'], step=case['step'], differs=k,
                                python_map_solve=base[k], other=other[k]))
    ctx.label('ens:' + case['kind'], 'nested:' + case['nested'], 'map:' + case['map'], 'step' if case['step'] else 'solve')
    ctx.label('term:%s' % (case['term'][0] if case.get('term') else 'default'))
    if case.get('mons'): ctx.label('ensemble-with-monitors')
    if min(base['all_iters']) == 0 and max(base['all_iters']) >= 1:
        ctx.label('a-member-stopped-at-generation-0')
    ctx.nontrivial(len(base['all_bestEnergy']) >= 2 and max(base['all_iters']) >= 2)


TESTS = [
    Test('order', run_order, strategy=lambda tier: order_cases(tier), examples={'quick': 2400, 'thorough': 60000}),
    Test('map', run_map, strategy=lambda tier: map_cases(tier), examples={'quick': 800, 'thorough': 20000}),
    Test('ensemble', run_ens, strategy=lambda tier: ens_cases(tier), examples={'quick': 640, 'thorough': 12000}),
]

KNOWN = {}
