"""C15 - penalty methods are zero on the feasible set and follow their formulas.

Code under test: the nine decorators of ``mystic.penalty``.

A *stack* is a base function ``b + w.x + shift`` decorated by 1-3 penalties
(innermost first).  Every operation goes through the outermost function, as a
user (or a solver callback) would do it.  The harness keeps a python model of
the iteration count ``n`` and, per Lagrange level, of the stored-multiplier list
(a dict index -> condition value, missing = 0), and compares

* every level's value with ``value of the function it decorates + documented
  expression`` (so "stacked penalties add" is checked level by level *and* end to
  end against ``base + sum of the documented expressions``),
* exactly the decorated value where the condition is satisfied, a strictly
  larger value where it is violated (seven plain types; Lagrange types only while
  the accumulated multiplier is zero; never demanded of ``barrier_inequality``),
* ``error(x)`` with ``|f|`` resp. ``max(0,f)`` in quadrature over the levels,
* ``iteration()`` / ``stored()`` of every level with the model after every
  operation, ``clear()`` restoring the n=0 value bit for bit,
* ``inf`` wherever a condition raises ``ZeroDivisionError``.

Three tests: ``formula`` (depth 1, @given), ``stack`` (depth 2-3, @given),
``machine`` (RuleBasedStateMachine over iter/store/clear/eval histories).
"""
import math
from hypothesis import strategies as st
from hypothesis.stateful import rule, initialize
from vp.runner import Test, fold_run
from vp.util import F, FL

PROP = 'C15'
RULE = ("stack of 1-3 penalties (all nine types; k in [1e-3,1e3] int/float, inf for the uniform types; h in [1,10] "
        "int/float) over conditions from a catalog of linear forms (general a.x-c, x[j]-c, c-x[j]) plus two that "
        "divide by a coordinate (1/x[j]-c, x[i]/x[j]-c), decorating b+w.x(+shift); histories of iter(), iter(i), "
        "store(x), store(x,i), clear() through the outermost function, then evaluation of every level at points "
        "from a small pool / constructed exactly on a level's boundary / with a zero divisor / arbitrary. "
        "Non-trivial: an evaluation at a violated or boundary point of some level with n>0 or nesting depth>1; "
        "distinct by canonical JSON of the whole case (trace).")
ASSUME = ["the condition callables are harness code; the oracle evaluates the same expression to classify the point",
          "operations are issued through the outermost function only (what a solver sees); the index handed to inner "
          "levels when levels are driven separately is undocumented and not asserted",
          "Lagrange types: docstring read as the standard augmented Lagrangian recursion over the stored history: "
          "lam += 2*k_i*y_i resp. beta += 2*k_i*max(-beta/(2*k_i), y_i) with k_i = k*h**i, i < n, missing y_i = 0",
          "barrier_inequality: documented log barrier (inf at and beyond the boundary); the blanket 'no added penalty "
          "where satisfied' clause is not demanded of it, nor of the Lagrange types once a multiplier is non-zero",
          "0*inf cases (an infinite stored multiplier met at f(x)=0, inf-inf between levels) are undefined by the "
          "documented expression: excluded and counted",
          "k=inf only for the two uniform types (their default); n stays small enough that k*h**n is finite"]

EQ = ('quadratic_equality', 'linear_equality', 'uniform_equality', 'lagrange_equality')
INEQ = ('uniform_inequality', 'barrier_inequality', 'quadratic_inequality', 'linear_inequality', 'lagrange_inequality')
PTYPES = EQ + INEQ
LAGRANGE = ('lagrange_equality', 'lagrange_inequality')
REL = 1e-12
INF = float('inf')
ZD = 'zerodiv'

POOL = [-2.0, -1.0, -0.5, 0.0, 0.5, 1.0, 2.0, 3.0, 4.0]
KPOOL = [1, 20, 100, 1000, 2, 0.5, 1e-3, 2.5, 100.0]
HPOOL = [1, 2, 5, 10, 1.0, 1.5, 5.0, 3]


# --------------------------------------------------------------------------- conditions (harness code)
def dot(a, x):
    """plain left-to-right accumulation (the builtin sum() compensates for python floats but not for
    numpy scalars, so it would make the value depend on the container of x)"""
    acc = 0.0
    for ai, xi in zip(a, x):
        acc = acc + ai * xi
    return acc


def cond_value(spec, x):
    """value of the catalog condition at x (a sequence of python floats); raises ZeroDivisionError"""
    kind = spec[0]
    if kind == 'lin':
        return dot(spec[1], x) - spec[2]
    if kind == 'coord':
        return x[spec[1]] - spec[2]
    if kind == 'neg':
        return spec[2] - x[spec[1]]
    if kind == 'recip':
        return 1.0 / x[spec[1]] - spec[2]
    if kind == 'ratio':
        return x[spec[1]] / x[spec[2]] - spec[3]
    raise AssertionError(kind)


def make_cond(spec):
    """(callable, args, kwds): the condition as handed to mystic, parameters through args/kwds"""
    kind = spec[0]
    if kind == 'lin':
        def lin(x, a, c=0.0):
            return dot(a, x) - c
        return lin, (list(spec[1]),), {'c': spec[2]}
    if kind == 'coord':
        def coord(x, j, c):
            return x[j] - c
        return coord, (spec[1], spec[2]), None
    if kind == 'neg':
        def neg(x, j=0, c=0.0):
            return c - x[j]
        return neg, None, {'j': spec[1], 'c': spec[2]}
    if kind == 'recip':
        def recip(x, j, c=0.0):
            return 1.0 / x[j] - c
        return recip, (spec[1],), {'c': spec[2]}
    if kind == 'ratio':
        def ratio(x, i, j, c):
            return x[i] / x[j] - c
        return ratio, (spec[1], spec[2], spec[3]), {}
    raise AssertionError(kind)


def safe_value(spec, x):
    try:
        return cond_value(spec, x)
    except ZeroDivisionError:
        return ZD


def on_boundary(spec, x):
    """a copy of x moved onto f(x) == 0.0 exactly, or None if that is not representable"""
    x = list(x)
    kind = spec[0]
    try:
        if kind in ('coord', 'neg'):
            x[spec[1]] = spec[2]
        elif kind == 'recip':
            if spec[2] == 0:
                return None
            x[spec[1]] = 1.0 / spec[2]
        elif kind == 'ratio':
            i, j, c = spec[1], spec[2], spec[3]
            if i == j or x[j] == 0:
                return None
            x[i] = c * x[j]
        else:
            a, c = spec[1], spec[2]
            js = [j for j in range(len(a)) if a[j] != 0]
            if not js:
                return None
            j = js[-1]
            rest = dot([a[i] for i in range(len(a)) if i != j], [x[i] for i in range(len(a)) if i != j])
            x[j] = (c - rest) / a[j]
        if not all(math.isfinite(v) and abs(v) <= 1e4 for v in x):
            return None
        if cond_value(spec, x) == 0.0:
            return x
    except ZeroDivisionError:
        pass
    return None


# --------------------------------------------------------------------------- generators
def coords():
    return st.one_of(st.sampled_from(POOL), st.sampled_from(POOL),
                     st.floats(-100, 100, allow_nan=False).map(lambda v: round(v, 3)))


def small():
    return st.one_of(st.sampled_from([-2.0, -1.0, 0.0, 1.0, 2.0, 0.5, 3.0]),
                     st.floats(-10, 10, allow_nan=False).map(lambda v: round(v, 2)))


@st.composite
def conds(draw, dim):
    kind = draw(st.sampled_from(['lin', 'lin', 'lin', 'coord', 'coord', 'neg', 'neg', 'recip', 'recip', 'ratio']))
    j = draw(st.integers(0, dim - 1))
    if kind == 'lin':
        a = draw(st.lists(small(), min_size=dim, max_size=dim))
        return ['lin', a, draw(small())]
    if kind in ('coord', 'neg'):
        return [kind, j, draw(coords())]
    if kind == 'recip':
        return ['recip', j, draw(st.sampled_from([0.5, 1.0, 2.0, 4.0, -1.0, 0.25, 0.0, -0.5, 3.0]))]
    i = draw(st.integers(0, dim - 1))
    return ['ratio', i, j, draw(st.sampled_from([0.5, 1.0, 2.0, -1.0, 0.0, 3.0]))]


@st.composite
def levels_(draw, dim, depth):
    out = []
    for _ in range(depth):
        ptype = draw(st.sampled_from(PTYPES))
        k = draw(st.one_of(st.sampled_from(KPOOL), st.floats(1e-3, 1e3, allow_nan=False)))
        if ptype.startswith('uniform') and draw(st.integers(0, 2)) == 0:
            k = 'inf'
        h = draw(st.one_of(st.sampled_from(HPOOL), st.floats(1, 10, allow_nan=False)))
        out.append(dict(ptype=ptype, cond=draw(conds(dim)), k=k, h=h))
    return out


@st.composite
def bases(draw, dim):
    b = draw(st.one_of(st.sampled_from([0.0, 0.0, 1.0, -3.5, 100.0]), st.floats(-1e3, 1e3, allow_nan=False)))
    w = draw(st.one_of(st.just([0.0] * dim), st.lists(small(), min_size=dim, max_size=dim)))
    return dict(b=b, w=w)


@st.composite
def points(draw, levels, dim):
    x = draw(st.lists(coords(), min_size=dim, max_size=dim))
    mode = draw(st.sampled_from(['free', 'free', 'bd', 'bd', 'bd', 'zd']))
    if mode == 'bd':
        lv = levels[draw(st.integers(0, len(levels) - 1))]
        y = on_boundary(lv['cond'], x)
        if y is not None:
            x = y
    elif mode == 'zd':
        divs = [lv['cond'][2] if lv['cond'][0] == 'ratio' else lv['cond'][1]
                for lv in levels if lv['cond'][0] in ('recip', 'ratio')]
        if divs:
            x[draw(st.sampled_from(divs))] = draw(st.sampled_from([0.0, 0.0, -0.0]))
    return x


def styles():
    """how the stack is called: [container, extra-argument style, extra value]"""
    return st.tuples(st.sampled_from(['list', 'list', 'tuple', 'array']),
                     st.sampled_from(['none', 'none', 'pos', 'kw']),
                     st.sampled_from([0.0, 1.0, -2.5, 10.0])).map(list)


def steps_(levels, dim, maxlen):
    it = st.one_of(st.just(['iter', None]), st.just(['iter', None]),
                   st.integers(0, 6).map(lambda i: ['iter', i]))
    if any(lv['ptype'] in LAGRANGE for lv in levels):
        sto = st.tuples(points(levels, dim), st.one_of(st.none(), st.none(), st.integers(0, 6))).map(
            lambda t: ['store', t[0], t[1]])
        one = st.one_of(it, sto)
        # the canonical augmented-Lagrangian loop: store the multiplier estimate, then advance
        alm = st.lists(points(levels, dim), min_size=1, max_size=3).map(
            lambda ps: [op for p in ps for op in (['store', p, None], ['iter', None])])
        return st.one_of(st.lists(one, min_size=0, max_size=maxlen),
                         st.tuples(alm, st.lists(one, min_size=0, max_size=2)).map(lambda t: t[0] + t[1]))
    return st.lists(it, min_size=0, max_size=maxlen)


@st.composite
def eval_cases(draw, lo, hi):
    dim = draw(st.integers(1, 3))
    levels = draw(levels_(dim, draw(st.integers(lo, hi))))
    return dict(dim=dim, levels=levels, base=draw(bases(dim)),
                steps=draw(steps_(levels, dim, 6)),
                x=draw(points(levels, dim)), style=draw(styles()))


@st.composite
def headers(draw):
    dim = draw(st.integers(1, 3))
    levels = draw(levels_(dim, draw(st.sampled_from([1, 2, 2, 3, 3]))))
    return dict(dim=dim, levels=levels, base=draw(bases(dim)), probe=draw(points(levels, dim)))


# --------------------------------------------------------------------------- the oracle
def side_of(ptype, pf):
    if pf == ZD:
        return ZD
    if ptype in EQ:
        return 'satisfied' if pf == 0 else ('violated+' if pf > 0 else 'violated-')
    return 'feasible' if pf < 0 else ('boundary' if pf == 0 else 'violated')


def is_satisfied(ptype, pf):
    return pf == 0 if ptype in EQ else pf <= 0


def term_of(ptype, k, h, n, ys, pf):
    """documented penalty expression -> (value, error scale, accumulated multiplier is zero)"""
    k = float(k); h = float(h); pf = float(pf)
    pk = k * h ** n
    if ptype == 'quadratic_equality':
        t = pk * pf * pf
        return t, abs(t), True
    if ptype == 'linear_equality':
        t = pk * abs(pf)
        return t, abs(t), True
    if ptype == 'uniform_equality':
        t = pk if pf != 0 else 0.0
        return t, abs(t), True
    if ptype == 'uniform_inequality':
        t = pk if pf > 0 else 0.0
        return t, abs(t), True
    if ptype == 'quadratic_inequality':
        m = pf if pf > 0 else 0.0
        t = 2 * pk * m * m
        return t, abs(t), True
    if ptype == 'linear_inequality':
        m = pf if pf > 0 else 0.0
        t = 2 * pk * m
        return t, abs(t), True
    if ptype == 'barrier_inequality':
        if pf >= 0:                       # violated, or log(0) on the boundary
            return INF, 0.0, True
        t = -math.log(-pf) / (2 * pk)
        return t, abs(t), True
    if ptype == 'lagrange_equality':
        lam = 0.0; S = 0.0; zero = True
        for i in range(n):
            y = ys.get(i, 0.0)
            if y != 0:
                zero = False
            d = 2 * (k * h ** i) * y
            lam += d; S += abs(d)
        if zero:
            t = pk * pf * pf
            return t, abs(t), True
        t = pk * pf * pf + lam * pf
        sc = pk * pf * pf + S * abs(pf)
        return t, sc, False
    if ptype == 'lagrange_inequality':
        beta = 0.0; S = 0.0; zero = True
        for i in range(n):
            y = ys.get(i, 0.0)
            if y > 0:
                zero = False
            ki = k * h ** i
            d = 2 * ki * max(-beta / (2 * ki), y)
            beta += d; S += abs(d)
        if zero:
            m = pf if pf > 0 else 0.0
            t = pk * m * m
            return t, abs(t), True
        mpf = max(-beta / (2 * pk), pf)
        t = pk * mpf * mpf + beta * mpf
        sc = pk * mpf * mpf + S * abs(mpf) + S * S / (2 * pk)
        return t, sc, False
    raise AssertionError(ptype)


def violation_of(ptype, pf):
    pf = float(pf)
    return abs(pf) if ptype in EQ else (pf if pf > 0 else 0.0)


def near(got, want, scale):
    got = float(got); want = float(want)
    if want != want:
        return got != got
    if math.isinf(want):
        return got == want
    if got != got or math.isinf(got):
        return False
    return abs(got - want) <= REL * scale


# --------------------------------------------------------------------------- the code under test + model
def make_base(base):
    b = F(base['b']); w = FL(base['w'])

    def basefn(x, shift=0.0):
        return b + dot(w, x) + shift
    return basefn


class Stack(object):
    def __init__(self, case, ctx):
        import mystic.penalty as mp
        self.ctx = ctx
        self.levels = [dict(ptype=lv['ptype'], cond=lv['cond'], k=F(lv['k']), h=F(lv['h'])) for lv in case['levels']]
        self.L = len(self.levels)
        self.basefn = make_base(case['base'])
        self.n = 0
        self.ys = [dict() for _ in self.levels]        # model: index -> stored condition value
        self.ylen = [0] * self.L
        f = self.basefn
        self.fs = [f]
        self.decs = []
        for lv in self.levels:
            cond, args, kwds = make_cond(lv['cond'])
            kw = dict(k=lv['k'], h=lv['h'])
            if args is not None:
                kw['args'] = args
            if kwds is not None:
                kw['kwds'] = kwds
            dec = getattr(mp, lv['ptype'])(cond, **kw)
            f = dec(f)
            self.decs.append(dec)
            self.fs.append(f)
        self.top = f
        ctx.label('depth:%d' % self.L)
        self.check_state('fresh')

    # -- model ---------------------------------------------------------------
    def model_stored(self, l):
        return [self.ys[l].get(j, 0.0) for j in range(self.ylen[l])]

    def check_state(self, after):
        ctx = self.ctx
        for l in range(self.L):
            f = self.fs[l + 1]
            got = f.iteration()
            ctx.expect(got == self.n, 'C15.iteration',
                       lambda: dict(after=after, level=l, ptype=self.levels[l]['ptype'], got=got, model=self.n))
            sto = list(f.stored())
            want = self.model_stored(l)
            ctx.expect(sto == want, 'C15.stored',
                       lambda: dict(after=after, level=l, ptype=self.levels[l]['ptype'], got=sto, model=want))
            beyond = f.stored(len(want) + 1)
            ctx.expect(beyond == 0.0, 'C15.stored',
                       lambda: dict(after=after, level=l, beyond=beyond, note='stored(i) past the end is 0.0'))

    # -- operations ------------------------------------------------------------
    def do_iter(self, i):
        if i is None:
            self.top.iter()
            self.n += 1
        else:
            self.top.iter(i)
            self.n = i
        self.ctx.label('op:iter' if i is None else 'op:iter(i)')
        self.check_state('iter(%s)' % i)

    def do_store(self, x, i):
        x = FL(x)
        if i is None:
            self.top.store(list(x))
        else:
            self.top.store(list(x), i)
        idx = self.n if i is None else i
        for l, lv in enumerate(self.levels):
            if lv['ptype'] in LAGRANGE:
                y = safe_value(lv['cond'], x)
                y = INF if y == ZD else y
                self.ys[l][idx] = y
                self.ylen[l] = max(self.ylen[l], idx + 1)
                if y == INF:
                    self.ctx.label('stored-inf')
        self.ctx.label('op:store' if i is None else 'op:store(x,i)')
        self.check_state('store(%s)' % i)

    def do_clear(self, v0=None, probe=None):
        had = self.n > 0 or any(self.ylen)
        self.top.clear()
        self.n = 0
        self.ys = [dict() for _ in self.levels]
        self.ylen = [0] * self.L
        self.ctx.label('op:clear', 'clear-after-state' if had else 'clear-noop')
        self.check_state('clear')
        if probe is not None:
            again = [float(f(list(probe))) for f in self.fs]
            ok = all(a == b or (a != a and b != b) for a, b in zip(again, v0))
            self.ctx.expect(ok, 'C15.clear_restores',
                            lambda: dict(probe=probe, fresh=v0, after_clear=again,
                                         note='value of every level at the probe point, fresh vs after clear()'))

    def reuse_decorators(self, x):
        """at the end of a case: every configured decorator object is used once more, on another function; the functions
        decorated before go on returning their own function's value plus their penalty"""
        before = [float(f(list(x))) for f in self.fs[1:]]
        for dec in self.decs:
            dec(lambda x, *a, **k: 54321.0)
        after = [float(f(list(x))) for f in self.fs[1:]]
        ok = all(a == b or (a != a and b != b) for a, b in zip(before, after))
        self.ctx.expect(ok, 'C15.formula',
                        lambda: dict(x=list(x), before=before, after=after, ptypes=[lv['ptype'] for lv in self.levels],
                                     note='value changed after the same decorator object decorated another function'))

    def call(self, f, x, style):
        cont, how, extra = style
        if cont == 'array' and not any(lv['cond'][0] in ('recip', 'ratio') for lv in self.levels):
            import numpy as np
            xx = np.array(x, float)
        elif cont == 'tuple':
            xx = tuple(x)
        else:
            xx = list(x)
        if how == 'pos':
            return float(f(xx, extra))
        if how == 'kw':
            return float(f(xx, shift=extra))
        return float(f(xx))

    def do_eval(self, x, style):
        ctx = self.ctx
        x = FL(x)
        n = self.n
        shift = style[2] if style[1] != 'none' else 0.0
        b0 = self.basefn(x, shift)
        vals = [b0] + [self.call(f, x, style) for f in self.fs[1:]]
        errs = [float(f.error(list(x))) for f in self.fs[1:]]
        ctx.label('n>0' if n > 0 else 'n=0')
        if n > 3:
            ctx.label('n>3')
        want_total = b0; scale_total = abs(b0)
        sq = []; anyzd = False; interesting = False
        for l, lv in enumerate(self.levels):
            pt = lv['ptype']
            pf = safe_value(lv['cond'], x)
            sd = side_of(pt, pf)
            ctx.label(pt + ':' + sd)
            inner = vals[l]; got = vals[l + 1]
            info = lambda: dict(level=l, ptype=pt, cond=lv['cond'], k=lv['k'], h=lv['h'], n=n, x=x, f=pf,
                                stored=self.model_stored(l), decorated_value=inner, got=got)
            if pf == ZD:
                anyzd = True
                ctx.expect(got == INF, 'C15.zerodiv_inf', info)
                want_total = INF
                ctx.expect(errs[l] == INF, 'C15.error_zerodiv', lambda: dict(info(), error=errs[l]))
                continue
            if sd not in ('feasible', 'satisfied'):
                interesting = True
            term, sc, multzero = term_of(pt, lv['k'], lv['h'], n, self.ys[l], pf)
            if pt in LAGRANGE:
                ctx.label('lagrange:mult=0' if multzero else 'lagrange:mult!=0')
            # -- error: quadrature over this level and everything below
            sq.append(violation_of(pt, pf) ** 2)
            if not anyzd:
                wante = math.sqrt(math.fsum(sq))
                ctx.expect(near(errs[l], wante, wante), 'C15.error',
                           lambda: dict(info(), error=errs[l], expected=wante))
            else:
                ctx.expect(errs[l] == INF, 'C15.error_zerodiv', lambda: dict(info(), error=errs[l]))
            # -- running end-to-end expectation (pure oracle)
            if pt == 'barrier_inequality' and pf > 0:
                want_total = INF
            else:
                want_total = want_total + term
                scale_total += sc
            # -- this level against the value of the function it decorates
            want = inner + term
            if term != term or want != want or inner != inner:
                ctx.exclude('undefined: inf multiplier times zero / inf-inf')
                continue
            if pt == 'barrier_inequality' and pf > 0:
                want = INF
            if pt != 'barrier_inequality' and multzero:
                if is_satisfied(pt, pf):
                    ctx.expect(got == inner, 'C15.feasible_exact', lambda: dict(info(), expected=inner))
                elif math.isfinite(inner):
                    if term > 4e-16 * abs(inner):
                        ctx.expect(got > inner, 'C15.violated_positive', lambda: dict(info(), penalty=term))
                    else:
                        ctx.exclude('violated but penalty below half an ulp of the decorated value')
            ctx.expect(near(got, want, abs(inner) + sc), 'C15.formula',
                       lambda: dict(info(), expected=want, penalty=term))
        if want_total != want_total:
            ctx.exclude('undefined: end-to-end sum contains inf-inf or 0*inf')
        else:
            name = 'C15.stack_adds' if self.L > 1 else 'C15.formula_total'
            ctx.expect(near(vals[-1], want_total, scale_total), name,
                       lambda: dict(levels=self.levels, n=n, x=x, base_value=b0, got=vals[-1], expected=want_total,
                                    level_values=vals))
        if anyzd:
            ctx.label('zerodiv')
        if interesting and (n > 0 or self.L > 1):
            ctx.nontrivial(True)


# --------------------------------------------------------------------------- @given tests
def run_eval(case, ctx):
    s = Stack(case, ctx)
    for st_ in case['steps']:
        if st_[0] == 'iter':
            s.do_iter(st_[1])
        else:
            s.do_store(st_[1], st_[2])
    s.do_eval(case['x'], case['style'])
    # evaluation must not have advanced anything
    s.check_state('eval')
    s.reuse_decorators(FL(case['x']))


# --------------------------------------------------------------------------- state machine
def OPEN(case, ctx):
    s = Stack(case, ctx)
    s.probe = FL(case['probe'])
    s.v0 = [float(f(list(s.probe))) for f in s.fs]
    return s


def APPLY(s, op, ctx):
    kind = op[0]
    if kind == 'iter':
        s.do_iter(op[1])
    elif kind == 'store':
        s.do_store(op[1], op[2])
    elif kind == 'clear':
        s.do_clear(s.v0, s.probe)
    elif kind == 'eval':
        s.do_eval(op[1], op[2])
        s.check_state('eval')
    else:
        raise AssertionError(op)


def CLOSE(s):
    pass


def machine_factory(tier, Base):
    class PenaltyMachine(Base):
        OPEN = staticmethod(OPEN)
        APPLY = staticmethod(APPLY)
        CLOSE = staticmethod(CLOSE)

        @initialize(h=headers())
        def init(self, h):
            self.start(h)

        def _pt(self, data):
            return data.draw(points(self.case['levels'], self.case['dim']))

        @rule()
        def it(self):
            self.do(['iter', None])

        @rule(i=st.integers(0, 6))
        def iti(self, i):
            self.do(['iter', i])

        @rule(data=st.data(), i=st.one_of(st.none(), st.none(), st.integers(0, 6)))
        def sto(self, data, i):
            if self.case is None:
                return
            self.do(['store', self._pt(data), i])

        @rule(data=st.data())
        def alm(self, data):
            # the canonical augmented-Lagrangian step: store the multiplier estimate, then advance
            if self.case is None or not any(lv['ptype'] in LAGRANGE for lv in self.case['levels']):
                return
            self.do(['store', self._pt(data), None])
            self.do(['iter', None])

        @rule()
        def clr(self):
            self.do(['clear'])

        @rule(data=st.data(), style=styles())
        def ev(self, data, style):
            if self.case is None:
                return
            self.do(['eval', self._pt(data), style])

        @rule(data=st.data(), style=styles())
        def ev2(self, data, style):
            if self.case is None:
                return
            self.do(['eval', self._pt(data), style])

    return PenaltyMachine


# libFuzzer executions per shard and @given test of the coverage-guided extra of the thorough tier (vp/fuzz.py)
FUZZ = 2000

TESTS = [
    Test('formula', run_eval, strategy=lambda tier: eval_cases(1, 1),
         examples={'quick': 12000, 'thorough': 400000}),
    Test('stack', run_eval, strategy=lambda tier: eval_cases(2, 3),
         examples={'quick': 6000, 'thorough': 200000}),
    Test('machine', fold_run(OPEN, APPLY, CLOSE), machine=machine_factory,
         examples={'quick': 2400, 'thorough': 80000}, steps={'quick': 14, 'thorough': 30}),
]

KNOWN = {}
