"""C12 - symbolic rewriting preserves the solution set.

Constraint systems are generated as trees (vp.exprgen), rendered to mystic's text
syntax, handed to ``simplify`` / ``solve``; matrices and bounds are handed to
``linear_symbolic`` / ``symbolic_bounds``.  The oracle is the harness's own
tree interpreter on the input side and an independent ``eval`` of mystic's
*output* text on the other; the two must agree at generated points (random,
small integers, and points constructed on each boundary and a relative 1e-3 to
either side of it).

Floating point: a relation is only decided away from its boundary.  Both sides
use the same measure, ``|lhs - rhs| / (sum of the absolute values of all terms)``;
below 1e-9 a point is *near* (skipped and counted), except that '=' holds when
the measure is <= 1e-11.  Systems whose numbers are all short dyadics
(+-2^k coefficients, k/64 constants and points) are *exact*: there every
comparison is an exact float comparison, and strict/non-strict boundaries and
the exact zero of a sign factor are asserted.
"""
import math
import numpy as np
from hypothesis import strategies as st
from vp.runner import Test
from vp.util import F, FL, enc
from vp import exprgen as E
from vp.exprgen import NEAR, UNDEF

PROP = 'C12'
RULE = ("simplify: systems of 1-4 lines over 1-5 variables as trees: linear (in)equalities (comparators < <= > >= =; "
        "coefficients from +-2^k / short decimals / 1e-6..1e6 / arbitrary floats, zero-coefficient terms, variables on "
        "both sides) and rational relations whose direction depends on one variable factor (a/x_k, x_j/(x_k+c), "
        "x_j*x_k, optionally + a linear form in other variables), opposed pairs and bands on the same form; naming "
        "x0..xN, another base, sparse indices incl. >= 10, explicit name lists with unused extra names (names are "
        "drawn from a pool that avoids substrings of function names / float literals such as 'x' in 'max', 'e' in "
        "'1e-06': documented FIXME of replace_variables, not exercised); options target (ordered name list), cycle, "
        "all; 8 base points (small integers/halves, short dyadics, arbitrary floats) plus, per line, points "
        "constructed on its boundary and at a relative 1e-3 to either side, plus the exact zero of every sign "
        "factor +-1e-3.  solve: consistent linear systems of 1-4 equations over 2-6 variables built from a "
        "generated solution (full row rank by construction: unit-pivot rows mixed by a generated matrix).  matrix: "
        "generated A,b,G,h and bound vectors incl. None / +-inf / 0.05 / -0.0 / 1e-5.  Non-trivial: a comparator had "
        "to flip (every candidate isolated variable has a negative net coefficient) or >= 2 sign cases came back, "
        "and decided points on both sides of a boundary were evaluated (simplify); a system with >= 1 free variable "
        "and >= 2 equations or a re-ordered target (solve); both satisfied and violated points (matrix).  Distinct = "
        "canonical JSON of the case.")
ASSUME = ["'!=' and '==' are not generated as input comparators (simplify documents neither); they are interpreted in output text",
          "a relation is decided only at relative margin >= 1e-9 (sum-of-|terms| scale, both on the input tree and on the "
          "output text); nearer points are skipped and counted, except in systems of short dyadic numbers where float "
          "arithmetic is exact",
          "variable names that are substrings of function names or float literals in the same text are not generated",
          "an exception or a None/'' result of simplify/solve is 'no result' (the property is conditional); counted as excluded",
          "python's eval, float arithmetic and math functions"]

QUICK_SIMPLIFY = 1500


# =========================================================================== C12.simplify
MODES = ['dyadic', 'dyadic', 'short', 'mixed', 'scale']


@st.composite
def simplify_cases(draw, tier):
    n = draw(st.integers(1, 5))
    nl = draw(st.sampled_from([1, 1, 2, 2, 3, 4]))
    mode = draw(st.sampled_from(MODES))
    system = []
    for _ in range(nl):
        what = draw(st.sampled_from(['lin', 'lin', 'lin', 'rat', 'rat', 'pair', 'band'])) if system else \
            draw(st.sampled_from(['lin', 'lin', 'lin', 'rat', 'rat']))
        if what == 'lin':
            system.append(draw(E.linear_relations(n, mode, both_sides=(mode != 'dyadic' or draw(st.booleans())))))
        elif what == 'rat':
            rel, shape, k = draw(E.rational_relations(n, mode))
            system.append(rel)
        else:
            # same form as an earlier line, opposed comparator: a band (different constant)
            # or an opposed pair (same constant: x >= c and x <= c, x < c and x > c, ...)
            src = system[draw(st.integers(0, len(system) - 1))]
            cmp = draw(st.sampled_from(['<', '<=', '>', '>=']))
            rhs = src[3]
            if what == 'band' and rhs[0] in ('const', 'lin'):
                c = draw(E.constants(mode))
                rhs = ['const', c] if rhs[0] == 'const' else ['lin', rhs[1], c]
            system.append(['rel', src[1], cmp, rhs])
    scheme = draw(E.naming_schemes(n))
    style = {'minus': draw(st.booleans()), 'unit': draw(st.booleans())}
    target = None
    if draw(st.integers(0, 2)) == 0:
        m = draw(st.integers(1, n))
        target = list(draw(st.permutations(list(range(n)))))[:m]
    opts = {'target': target, 'cycle': draw(st.booleans()), 'all': draw(st.integers(0, 6)) != 0}
    pk = 'dyadic' if mode == 'dyadic' else 'mixed'
    pts = draw(st.lists(E.points(n, pk), min_size=8, max_size=8))
    return dict(nvars=n, system=system, scheme=scheme, style=style, opts=opts, points=pts,
                seed=draw(st.integers(0, 2 ** 31 - 1)))


def exact_tree(t):
    """all numbers in the tree are short dyadics and every coefficient / numerator that can
    end up as a divisor is +-2^k"""
    k = t[0]
    if k == 'const':
        return E.is_short_dyadic(t[1], 8, 64)
    if k == 'var':
        return True
    if k == 'lin':
        return all(float(c) == 0 or E.is_pow2(c) and 0.125 <= abs(float(c)) <= 8 for _, c in t[1]) \
            and E.is_short_dyadic(t[2] or 0.0, 8, 64)
    if k in ('add', 'sub', 'mul', 'div', 'neg'):
        return all(exact_tree(s) for s in t[1:])
    return False


def exact_relation(rel):
    if not (exact_tree(rel[1]) and exact_tree(rel[3])):
        return False
    # net coefficients of variables occurring on both sides / repeatedly must stay +-2^k
    if rel[1][0] == 'lin' and rel[3][0] == 'lin':
        for v in E.net_coefficients(rel[1], rel[3]).values():
            if v != 0 and not E.is_pow2(v):
                return False
    elif rel[1][0] == 'lin' and len(set(i for i, _ in rel[1][1])) != len(rel[1][1]):
        return False
    # constants that become divisors: the right-hand side of a/x <cmp> b, coefficient of c*x*x
    for d in E.subtrees(rel, 'div'):
        if d[1][0] == 'const' and rel[3][0] == 'const' and float(rel[3][1]) != 0 and not E.is_pow2(rel[3][1]):
            return False
    for m in E.subtrees(rel, 'mul'):
        for s in m[1:]:
            if s[0] == 'const' and not E.is_pow2(s[1]):
                return False
    return True


def exact_point(p):
    return all(E.is_short_dyadic(v, 64, 64) for v in p)


def _nudge(p, var, rel):
    q = list(p)
    q[var] = p[var] * (1.0 + rel) if p[var] != 0 else rel
    return q


def simplify_points(case):
    """[(point, origin-tag)]: base points; per line, boundary points and +-1e-3; sign-factor zeros +-1e-3"""
    system = case['system']; n = case['nvars']
    base = [FL(p) for p in case['points']]
    out = [(p, 'base') for p in base]
    for li, rel in enumerate(system):
        vs = E.variables_in(rel)
        for bi, p in enumerate(base[:3]):
            if not vs:
                continue
            var = vs[(li + bi) % len(vs)]
            q = E.on_boundary(rel, p, var)
            if q is None:
                continue
            out.append((q, 'on'))
            out.append((_nudge(q, var, 1e-3), 'side'))
            out.append((_nudge(q, var, -1e-3), 'side'))
    seen = set()
    for rel in system:
        for f in E.sign_factors(rel):
            vs = E.variables_in(f)
            if len(vs) != 1 or repr(f) in seen:
                continue
            seen.add(repr(f))
            p = base[3]
            q = E.on_boundary(['rel', f, '=', ['const', 0.0]], p, vs[0]) if f[0] != 'var' else \
                [0.0 if i == vs[0] else v for i, v in enumerate(p)]
            if q is None:
                continue
            out.append((q, 'factor0'))
            out.append((_nudge(q, vs[0], 1e-3) if q[vs[0]] != 0 else [1e-3 if i == vs[0] else v for i, v in enumerate(q)], 'side'))
            out.append((_nudge(q, vs[0], -1e-3) if q[vs[0]] != 0 else [-1e-3 if i == vs[0] else v for i, v in enumerate(q)], 'side'))
    return out


def product_factor_vars(system):
    """variables that are a bare factor of a product of two variable factors and occur in no denominator"""
    inden = set()
    for rel in system:
        for d in E.denominators(rel):
            inden.update(E.variables_in(d))
    out = set()
    for rel in system:
        for m in E.subtrees(rel, 'mul'):
            if E.variables_in(m[1]) and E.variables_in(m[2]):
                for s in (m[1], m[2]):
                    if s[0] == 'var':
                        out.add(s[1])
                    elif s[0] == 'mul':
                        out.update(x[1] for x in s[1:] if x[0] == 'var')
    return out - inden


def call_simplify(case, ctx, names, variables, text):
    from mystic.symbolic import simplify
    from vp import lab
    opts = case['opts']
    kw = dict(variables=variables, all=bool(opts['all']))
    if opts['target'] is not None:
        kw['target'] = [names[i] for i in opts['target']]
    if opts['cycle']:
        kw['cycle'] = True
    lab.seed_rng(case['seed'])
    try:
        out = simplify(text, **kw)
    except Exception as e:                     # 'no result': the property is conditional on one
        ctx.exclude('simplify-raised:' + type(e).__name__)
        ctx.label('no-result:raised')
        return None
    if out is None or (isinstance(out, str) and not out.strip()):
        ctx.exclude('simplify-no-result')
        ctx.label('no-result:empty')
        return None
    cases = list(out) if isinstance(out, tuple) else [out]
    cases = [c for c in cases if c is not None]
    if not cases or not all(isinstance(c, str) for c in cases):
        ctx.exclude('simplify-no-result')
        ctx.label('no-result:empty')
        return None
    return cases


def run_simplify(case, ctx):
    n = case['nvars']; system = case['system']; opts = case['opts']
    names, variables = E.names_of(case['scheme'], n)
    text = E.render(system, names, case['style'])
    exact_sys = all(exact_relation(r) for r in system)
    cmps = sorted(set(r[2] for r in system))
    ctx.label(*['cmp:' + c for c in cmps])
    ctx.label(E.scheme_label(case['scheme']), 'lines:%d' % len(system), 'exact-system' if exact_sys else 'float-system')
    kinds = set()
    for r in system:
        if E.subtrees(r, 'div'):
            kinds.add('kind:x/(x+c)' if any(E.variables_in(d[1]) for d in E.subtrees(r, 'div')) else 'kind:a/x')
        elif E.subtrees(r, 'mul'):
            kinds.add('kind:x*x')
        else:
            kinds.add('kind:linear')
    ctx.label(*sorted(kinds))
    if opts['target'] is not None: ctx.label('opt:target')
    if opts['cycle']: ctx.label('opt:cycle')
    ctx.label('opt:all' if opts['all'] else 'opt:one')
    for a in range(len(system)):
        for b in range(a):
            if system[a][1] == system[b][1]:
                ctx.label('opposed-pair' if system[a][3] == system[b][3] else 'band')

    cases = call_simplify(case, ctx, names, variables, text)
    if cases is None:
        return
    for c in cases:
        for l in E.text_lines(c):
            ctx.expect(E.comparator(l) != '', 'C12.simplify_wellformed', lambda: dict(input=text, output=cases, line=l))
    nc = len(cases)
    ctx.label('cases:%s' % (nc if nc <= 2 else '3-4' if nc <= 4 else '5+'))

    # did a comparator have to flip?  (every candidate isolated variable of a linear
    # inequality has a negative net coefficient)
    out_lhs = set()
    for l in E.text_lines(cases[0]):
        try:
            out_lhs.add(E.split_line(l)[0])
        except ValueError:
            pass
    flip = False
    for r in system:
        if r[2] == '=' or r[1][0] != 'lin' or r[3][0] != 'lin':
            continue
        net = E.net_coefficients(r[1], r[3])
        cand = [v for i, v in net.items() if names[i] in out_lhs and v != 0]
        if cand and all(v < 0 for v in cand):
            flip = True
    if flip:
        ctx.label('flip')

    pfv = product_factor_vars(system)
    seen_true = seen_false = False
    npts = 0
    for p, tag in simplify_points(case):
        if not all(math.isfinite(v) for v in p):
            continue
        exact = exact_sys and exact_point(p)
        want = E.system_truth(system, p, exact)
        if want is UNDEF:
            ctx.exclude('point:input-undefined')
            continue
        if want is NEAR:
            ctx.exclude('point:near-input-boundary(%s)' % tag)
            continue
        pd = E.point_dict(p, names)
        per_case = [E.text_truth(c, pd, exact) for c in cases]
        got = E.any_truth(per_case)
        if got is NEAR:
            ctx.exclude('point:near-output-boundary')
            continue
        npts += 1
        if UNDEF in per_case:
            ctx.label('output-line-undefined-at-point')
        if exact and tag == 'on':
            ctx.label('exact-on-boundary')
        if tag == 'factor0':
            ctx.label('factor-exactly-zero')
        zero_factor = [names[i] for i in sorted(pfv) if p[i] == 0]

        def detail(p=p, want=want, got=got, per_case=per_case, tag=tag, exact=exact, zero_factor=zero_factor):
            return dict(input=text, output=cases, point=E.point_dict(p, names), input_holds=want,
                        cases_hold=per_case, origin=tag, exact=exact, options=opts,
                        zero_product_factors=zero_factor,
                        f10=bool(want is True and zero_factor))
        if opts['all']:
            ctx.expect(got == want, 'C12.simplify', detail)
        else:
            # one case of several was returned: it may not cover the input, but it must not exceed it
            ctx.expect((got is not True) or want is True, 'C12.simplify_one', detail)
        if want: seen_true = True
        else: seen_false = True
    if npts:
        ctx.label('evaluated')
    if (flip or nc >= 2) and seen_true and seen_false and opts['all']:
        ctx.nontrivial()


def _known_f10(case, subcheck, detail):
    """the sign-case split (x_k > 0 / x_k < 0) drops the slice x_k == 0 of a product-form input"""
    return (subcheck == 'C12.simplify' and isinstance(detail, dict) and detail.get('f10') is True
            and detail.get('input_holds') is True and not any(v is True for v in detail.get('cases_hold', [True])))


TESTS = [
    Test('simplify', run_simplify, strategy=lambda tier: simplify_cases(tier),
         examples={'quick': QUICK_SIMPLIFY, 'thorough': 40000}),
]

KNOWN = {'F10-sign-split-drops-zero-factor': _known_f10}
