"""C12 - symbolic rewriting preserves the solution set.

Constraint systems are generated as trees (vp.exprgen), rendered to mystic's text
syntax, handed to ``simplify`` / ``solve``; matrices and bounds are handed to
``linear_symbolic`` / ``symbolic_bounds``.  The oracle is the harness's own
tree interpreter on the input side and an independent ``eval`` of mystic's
*output* text on the other; the two must agree at generated points (random,
small integers, and points constructed on each boundary and a relative 1e-3 to
either side of it).

Floating point: a relation is only decided away from its boundary.  Both sides
use the same measure, ``|lhs - rhs| / (sum of the absolute values of all terms)``;
below 1e-9 a point is *near* (skipped and counted), except that '=' holds when
the measure is <= 1e-11.  Systems whose numbers are all short dyadics
(+-2^k coefficients, k/64 constants and points) are *exact*: there every
comparison is an exact float comparison, and strict/non-strict boundaries and
the exact zero of a sign factor are asserted.
"""
import math
import numpy as np
from hypothesis import strategies as st
from vp.runner import Test
from vp.util import F, FL, enc
from vp import exprgen as E
from vp.exprgen import NEAR, UNDEF

PROP = 'C12'
RULE = ("simplify: systems of 1-4 lines over 1-5 variables as trees: linear (in)equalities (comparators < <= > >= =; "
        "coefficients from +-2^k / short decimals / 1e-6..1e6 / arbitrary floats, zero-coefficient terms, variables on "
        "both sides) and rational relations whose direction depends on one variable factor (a/x_k, x_j/(x_k+c), "
        "x_j*x_k, optionally + a linear form in other variables), opposed pairs and bands on the same form; naming "
        "x0..xN, another base, sparse indices incl. >= 10, explicit name lists with unused extra names (names are "
        "drawn from a pool that avoids substrings of function names / float literals such as 'x' in 'max', 'e' in "
        "'1e-06': documented FIXME of replace_variables, not exercised); options target (ordered name list), cycle, "
        "all; 8 base points (small integers/halves, short dyadics, arbitrary floats) plus, per line, points "
        "constructed on its boundary and at a relative 1e-3 to either side, plus the exact zero of every sign "
        "factor +-1e-3.  solve: consistent linear systems of 1-4 equations over 2-6 variables built from a "
        "generated solution (full row rank by construction: unit-pivot rows mixed by a generated matrix).  matrix: "
        "generated A,b,G,h and bound vectors incl. None / +-inf / 0.05 / -0.0 / 1e-5.  Non-trivial: a comparator had "
        "to flip (every candidate isolated variable has a negative net coefficient) or >= 2 sign cases came back, "
        "and decided points on both sides of a boundary were evaluated (simplify); a system with >= 1 free variable "
        "and >= 2 equations or a re-ordered target (solve); both satisfied and violated points (matrix).  Distinct = "
        "canonical JSON of the case.")
ASSUME = ["'!=' and '==' are not generated as input comparators (simplify documents neither); they are interpreted in output text",
          "a relation is decided only at relative margin >= 1e-9 (sum-of-|terms| scale, both on the input tree and on the "
          "output text); nearer points are skipped and counted, except in systems of short dyadic numbers where float "
          "arithmetic is exact",
          "variable names that are substrings of function names or float literals in the same text are not generated",
          "an exception or a None/'' result of simplify/solve is 'no result' (the property is conditional); counted as excluded",
          "solve: residuals are compared within 1e-9 * max(1, cond(A)) of the row magnitude (sympy's float elimination is "
          "not backward stable on badly scaled rows); systems with cond(A) > 1e5 are excluded and counted",
          "python's eval, float arithmetic and math functions"]

QUICK_SIMPLIFY = 1500


# =========================================================================== C12.simplify
MODES = ['dyadic', 'dyadic', 'short', 'mixed', 'scale']


@st.composite
def simplify_cases(draw, tier):
    n = draw(st.integers(1, 5))
    nl = draw(st.sampled_from([1, 1, 2, 2, 3, 4]))
    mode = draw(st.sampled_from(MODES))
    system = []
    for _ in range(nl):
        what = draw(st.sampled_from(['lin'] * 14 + ['rat'] * 8 + ['band'] * 2)) if system else \
            draw(st.sampled_from(['lin', 'lin', 'lin', 'rat', 'rat']))
        if what == 'lin':
            system.append(draw(E.linear_relations(n, mode, both_sides=(mode != 'dyadic' or draw(st.booleans())))))
        elif what == 'rat':
            rel, shape, k = draw(E.rational_relations(n, mode))
            system.append(rel)
        else:
            # same form as an earlier line, opposed comparator: a band (different constant)
            # or an opposed pair (same constant: x >= c and x <= c, x < c and x > c, ...)
            src = system[draw(st.integers(0, len(system) - 1))]
            cmp = draw(st.sampled_from(['<', '<=', '>', '>=']))
            rhs = src[3]
            if what == 'band' and rhs[0] in ('const', 'lin'):
                c = draw(E.constants(mode))
                rhs = ['const', c] if rhs[0] == 'const' else ['lin', rhs[1], c]
            system.append(['rel', src[1], cmp, rhs])
    scheme = draw(E.naming_schemes(n))
    style = {'minus': draw(st.booleans()), 'unit': draw(st.booleans()), 'opspace': draw(st.integers(0, 2)) == 0}
    # solve() falls back to _solve_nonlinear whenever it cannot solve for either of the two leading
    # candidate variables of a line (absent from it: common with cycle=True / a long target; zero
    # coefficient; no solution); that builds permutations(x0..xmax) and does not return for max >= 10.
    # With indices >= 9 the options are therefore left at their defaults and such lines are avoided.
    big = scheme['kind'] == 'base' and max(scheme['index']) >= 9
    if big:
        system = [_no_fallback(r) for r in system]
    target = None
    if not big and draw(st.integers(0, 2)) == 0:
        m = draw(st.integers(1, n))
        target = list(draw(st.permutations(list(range(n)))))[:m]
    opts = {'target': target, 'cycle': (not big) and draw(st.booleans()), 'all': draw(st.integers(0, 6)) != 0}
    pk = 'dyadic' if mode == 'dyadic' else 'mixed'
    pts = draw(st.lists(E.points(n, pk), min_size=8, max_size=8))
    if draw(st.integers(0, 3)) == 0:
        # one of the numbers of the system is handed over by name through the documented locals= option - also under a
        # name that the math / numpy namespaces define
        vals = []
        for r in system:
            vals += [float(c_[1]) for c_ in E.subtrees(r, 'const')]
            for l_ in E.subtrees(r, 'lin'):
                vals += [float(c) for _, c in l_[1]] + ([float(l_[2])] if l_[2] is not None else [])
        vals = [v for v in vals if v == v and abs(v) not in (0.0, 1.0) and abs(v) < 1e15]
        dvals = []
        for r in system:                    # numbers inside a divisor place the sign cases: preferred
            for d_ in E.subtrees(r, 'div'):
                dvals += [float(c_[1]) for c_ in E.subtrees(d_[2], 'const')]
                for l_ in E.subtrees(d_[2], 'lin'):
                    dvals += [float(c) for _, c in l_[1]] + ([float(l_[2])] if l_[2] is not None else [])
        dvals = [v for v in dvals if v == v and abs(v) not in (0.0, 1.0) and abs(v) < 1e15]
        if dvals and draw(st.integers(0, 3)) > 0:
            vals = dvals
        if vals:
            style['named'] = [draw(st.sampled_from(['tau', 'e', 'pi', 'kappa', 'c_0'])), vals[draw(st.integers(0, len(vals) - 1))]]
    return dict(nvars=n, system=system, scheme=scheme, style=style, opts=opts, points=pts,
                seed=draw(st.integers(0, 2 ** 31 - 1)))


def _no_fallback(rel):
    """the same relation without what makes solve() give up on the two leading candidate variables
    (zero-coefficient terms; a/x_k compared with 0, which has no solved form)"""
    def strip(t):
        if t[0] == 'lin':
            terms = [[i, c] for i, c in t[1] if float(c) != 0]
            return ['lin', terms, t[2]]
        if t[0] in ('const', 'var'):
            return t
        return [t[0]] + [strip(x) if isinstance(x, list) else x for x in t[1:]]
    lhs, cmp, rhs = strip(rel[1]), rel[2], strip(rel[3])
    if lhs[0] == 'div' and lhs[1][0] == 'const' and rhs[0] == 'const' and float(rhs[1]) == 0:
        rhs = ['const', 1.0]
    return ['rel', lhs, cmp, rhs]


def exact_tree(t):
    """all numbers in the tree are short dyadics and every coefficient / numerator that can
    end up as a divisor is +-2^k"""
    k = t[0]
    if k == 'const':
        return E.is_short_dyadic(t[1], 8, 64)
    if k == 'var':
        return True
    if k == 'lin':
        return all(float(c) == 0 or E.is_pow2(c) and 0.125 <= abs(float(c)) <= 8 for _, c in t[1]) \
            and E.is_short_dyadic(t[2] or 0.0, 8, 64)
    if k in ('add', 'sub', 'mul', 'div', 'neg'):
        return all(exact_tree(s) for s in t[1:])
    return False


def exact_relation(rel):
    if not (exact_tree(rel[1]) and exact_tree(rel[3])):
        return False
    # net coefficients of variables occurring on both sides / repeatedly must stay +-2^k
    if rel[1][0] == 'lin' and rel[3][0] == 'lin':
        for v in E.net_coefficients(rel[1], rel[3]).values():
            if v != 0 and not E.is_pow2(v):
                return False
    elif rel[1][0] == 'lin' and len(set(i for i, _ in rel[1][1])) != len(rel[1][1]):
        return False
    # constants that become divisors: the right-hand side of a/x <cmp> b, coefficient of c*x*x
    for d in E.subtrees(rel, 'div'):
        if d[1][0] == 'const' and rel[3][0] == 'const' and float(rel[3][1]) != 0 and not E.is_pow2(rel[3][1]):
            return False
    for m in E.subtrees(rel, 'mul'):
        for s in m[1:]:
            if s[0] == 'const' and not E.is_pow2(s[1]):
                return False
    return True


_NUM = None


def output_exact(texts):
    """every numeric literal mystic printed is a short dyadic: only then was nothing rounded on the way
    (isolating a variable may divide by a non-power-of-two constant of the input - x_j/(x_k+1) <= 6
    gives 0.166666666666667*x_j - and elimination may produce thirds), and only then are the exact
    float comparisons of the 'exact' mode meaningful for the output side"""
    global _NUM
    import re
    if _NUM is None:
        _NUM = re.compile(r'(?<![A-Za-z_0-9.])(\d+\.?\d*(?:[eE][-+]?\d+)?|\.\d+(?:[eE][-+]?\d+)?)')
    for t in texts:
        for m in _NUM.findall(t):
            try:
                if not E.is_short_dyadic(float(m), 4096, 1e6):
                    return False
            except ValueError:
                return False
    return True


def exact_point(p):
    return all(E.is_short_dyadic(v, 64, 64) for v in p)


def _nudge(p, var, rel):
    q = list(p)
    q[var] = p[var] * (1.0 + rel) if p[var] != 0 else rel
    return q


IN_BAND = (1e-13, 1e-9)      # input tree: '=' holds at a vouched point within 1e-13, anything is decided from 1e-9
OUT_BAND = (1e-10, 1e-9)     # output text: the same, with room for sympy's 15 printed digits


def simplify_points(case):
    """[(point, origin, vouched)]: base points; per line, points constructed on its boundary
    ('on') and at a relative 1e-3 to either side along the moved variable ('side'); the exact
    zero of every single-variable sign factor ('factor0') and +-1e-3.  vouched: the point was
    put on the boundary of an '=' line and that is well conditioned (both side points are at
    margin >= 1e-5 of that line), so the equality may be taken to hold there."""
    system = case['system']
    base = [FL(p) for p in case['points']]
    out = [(p, 'base', False) for p in base]
    for li, rel in enumerate(system):
        vs = E.variables_in(rel)
        for bi, p in enumerate(base[:3]):
            if not vs:
                continue
            var = vs[(li + bi) % len(vs)]
            q = E.on_boundary(rel, p, var)
            if q is None:
                continue
            sides = [_nudge(q, var, 1e-3), _nudge(q, var, -1e-3)]
            m0 = E.rel_margin(rel, q)
            vouched = rel[2] == '=' and m0 is not None and m0 <= IN_BAND[0]
            if vouched:
                # every variable of the line must matter at q (whichever one mystic isolates, the
                # isolated form is then as well conditioned as the line itself)
                for v in vs:
                    if float(dict(E.net_coefficients(rel[1], rel[3])).get(v, 1.0) if rel[1][0] == rel[3][0] == 'lin' else 1.0) == 0:
                        continue
                    ms = [E.rel_margin(rel, _nudge(q, v, d)) for d in (1e-3, -1e-3)]
                    if not all(m is not None and m >= 1e-5 for m in ms):
                        vouched = False
            out.append((q, 'on', vouched))
            out.extend((x, 'side', False) for x in sides)
    seen = set()
    for rel in system:
        for f in E.sign_factors(rel):
            vs = E.variables_in(f)
            if len(vs) != 1 or repr(f) in seen:
                continue
            seen.add(repr(f))
            p = base[3]; v = vs[0]
            if f[0] == 'var':
                q = [0.0 if i == v else x for i, x in enumerate(p)]
            else:
                q = E.on_boundary(['rel', f, '=', ['const', 0.0]], p, v)
            if q is None:
                continue
            out.append((q, 'factor0', False))
            for d in (1e-3, -1e-3):
                out.append((_nudge(q, v, d), 'side', False))
    return out


def on_split_boundary(cases, pdict):
    """[(name, threshold text)]: the output excludes name == threshold in *every* case by a condition that
    comes from dividing by a factor -- either the cases split on its sign (some carry
    'name > threshold', the others 'name < threshold') or every case carries 'name != threshold' --
    and the point has name == threshold exactly.  Read from the output text only to *classify* a
    failure for the known-finding predicate F10."""
    per_case = []
    for c in cases:
        found = set()
        for l in E.text_lines(c):
            try:
                lhs, cmp, rhs = E.split_line(l)
                if cmp in ('<', '>', '!=', '<=', '>='):
                    # the threshold may be a number ('x1 > 0') or an expression ('x1 > -1.0*x2': the factor x1 + x2)
                    lv, _, rv = E.line_sides(l, pdict)
                    if lv == rv:
                        found.add((lhs.strip(), rhs.strip(), cmp))
            except (ValueError, E.Undefined, NameError):
                pass
        per_case.append(found)
    out = []
    for (name, t) in sorted(set((n_, t_) for f in per_case for (n_, t_, _) in f)):
        dirs = [set(c for (n_, t_, c) in f if (n_, t_) == (name, t)) for f in per_case]
        strict = [d & {'<', '>', '!='} for d in dirs]
        if not all(strict):
            continue
        kinds = set().union(*strict)
        # the signature of an added sign condition (as opposed to an input line that came out with the wrong
        # strictness): '!=' ; both signs over several cases ; or - when contradictory sign cases were merged away and
        # one sign survives - the strict condition stands next to the same line in its non-strict form
        # ('x0 <= 0' from the input and 'x0 < 0' from the division, in one case)
        twin = all(('<' in d and '<=' in d) or ('>' in d and '>=' in d) for d in dirs)
        if kinds == {'!='} or (len(cases) >= 2 and {'<', '>'} <= kinds) or twin:
            out.append([name, t])
    return out


def _only_factors(t):
    return t[0] in ('var', 'const') or (t[0] == 'mul' and all(_only_factors(s) for s in t[1:]))


def pure_product(t):
    """c * x_j * x_k with nothing added"""
    return t[0] == 'mul' and _only_factors(t) and len(E.variables_in(t)) >= 2


def degenerate_lines(system):
    """lines that are in the class but degenerate: a product compared with 0 (the isolated form
    x_j <cmp> 0/x_k loses the factor) and a/x_k = 0 (no solution)"""
    prod0 = unsolvable = False
    for r in system:
        if r[3][0] == 'const' and float(r[3][1]) == 0:
            if pure_product(r[1]):
                prod0 = True
            if r[2] == '=' and r[1][0] == 'div' and r[1][1][0] == 'const':
                unsolvable = True
    return prod0, unsolvable


_OPPOSED = {('<', '>'), ('>', '<'), ('<=', '>='), ('>=', '<='), ('<', '>='), ('>=', '<'), ('>', '<='), ('<=', '>')}


def opposed_text_pairs(text):
    """pairs of input lines with identical left- and right-hand text and opposed comparators
    (x >= c with x <= c, x < c with x > c, x > c with x <= c, ...)"""
    parts = [E.split_line(l) for l in E.text_lines(text)]
    out = []
    for a in range(len(parts)):
        for b in range(a):
            if parts[a][0] == parts[b][0] and parts[a][2] == parts[b][2] and (parts[a][1], parts[b][1]) in _OPPOSED:
                out.append([' '.join(parts[b]), ' '.join(parts[a])])
    return out


class _Watchdog(Exception):
    """the isolated call did not come back in time"""


def _count_vars(variables, names):
    """how many variables solve()'s fallback would permute: all of base0..base<max> for a base name,
    the whole list for a name list"""
    if isinstance(variables, str):
        return 1 + max([int(n[len(variables):]) for n in names if n[len(variables):].isdigit()] or [0])
    return len(variables)


def guarded_call(fn, nperm, seconds=4.0):
    """solve() falls back to _solve_nonlinear, which builds list(permutations(all variables x0..xmax)) before
    doing anything: with 9 or more variables (sparse indices >= 8, long name lists) that does not return.
    Calls that could get there run in a forked child (same code, same seeded RNG state) that is killed after
    `seconds`; the case then counts as 'no result'.  Small systems are called in-process.  (A SIGALRM watchdog
    was tried first: an exception raised from a signal handler at an arbitrary bytecode left a lock held and
    dead-locked workers.)"""
    if nperm < 9:
        return fn()
    import os, pickle, select
    r, w = os.pipe()
    pid = os.fork()
    if pid == 0:
        try:
            os.close(r)
            try:
                res = ('ok', fn())
            except BaseException as e:
                res = ('exc', type(e).__name__, str(e)[:300])
            with os.fdopen(w, 'wb') as fh:
                pickle.dump(res, fh)
        finally:
            os._exit(0)
    os.close(w)
    try:
        ready, _, _ = select.select([r], [], [], seconds)
        if not ready:
            os.kill(pid, 9)
            raise _Watchdog()
        chunks = []
        while True:
            b = os.read(r, 65536)
            if not b:
                break
            chunks.append(b)
        res = pickle.loads(b''.join(chunks)) if chunks else ('exc', 'ChildDied', '')
    finally:
        os.close(r)
        try:
            os.waitpid(pid, 0)
        except ChildProcessError:
            pass
    if res[0] == 'ok':
        return res[1]
    raise _IsolatedError(res[1], res[2])


class _IsolatedError(Exception):
    def __init__(self, name, msg):
        Exception.__init__(self, '%s: %s' % (name, msg)); self.name = name


def call_simplify(case, ctx, names, variables, text):
    from mystic.symbolic import simplify
    from vp import lab
    opts = case['opts']
    kw = dict(variables=variables, all=bool(opts['all']))
    if opts['target'] is not None:
        kw['target'] = [names[i] for i in opts['target']]
    if opts['cycle']:
        kw['cycle'] = True
    if case['style'].get('named'):
        kw['locals'] = {case['style']['named'][0]: float(case['style']['named'][1])}
        ctx.label('constant-through-locals:' + case['style']['named'][0])
        if case['seed'] % 2 == 0:
            # the same text simplified first with another value of the constant: the second call is about its own value
            other = dict(kw); other['locals'] = {case['style']['named'][0]: float(case['style']['named'][1]) + 3.0}
            lab.seed_rng(case['seed'] + 1)
            try:
                guarded_call(lambda: simplify(text, **other), _count_vars(variables, names))
            except BaseException as e:
                if isinstance(e, (KeyboardInterrupt, SystemExit)): raise
            ctx.label('same-text-simplified-before-with-another-constant')
    lab.seed_rng(case['seed'])
    try:
        try:
            out = guarded_call(lambda: simplify(text, **kw), _count_vars(variables, names))
        except _Watchdog:
            ctx.exclude('simplify-timeout')
            ctx.label('no-result:timeout')
            return None
    except Exception as e:                     # 'no result': the property is conditional on one
        ctx.exclude('simplify-raised:' + getattr(e, 'name', type(e).__name__))
        ctx.label('no-result:raised')
        return None
    if out is None or (isinstance(out, str) and not out.strip()):
        ctx.exclude('simplify-no-result')
        ctx.label('no-result:empty')
        return None
    cases = list(out) if isinstance(out, tuple) else [out]
    cases = [c for c in cases if c is not None]
    if not cases or not all(isinstance(c, str) for c in cases):
        ctx.exclude('simplify-no-result')
        ctx.label('no-result:empty')
        return None
    return cases


def run_simplify(case, ctx):
    n = case['nvars']; system = case['system']; opts = case['opts']
    names, variables = E.names_of(case['scheme'], n)
    text = E.render(system, names, case['style'])
    exact_sys = all(exact_relation(r) for r in system)
    cmps = sorted(set(r[2] for r in system))
    ctx.label(*['cmp:' + c for c in cmps])
    ctx.label(E.scheme_label(case['scheme']), 'lines:%d' % len(system), 'exact-system' if exact_sys else 'float-system')
    kinds = set()
    for r in system:
        if E.subtrees(r, 'div'):
            kinds.add('kind:x/(x+c)' if any(E.variables_in(d[1]) for d in E.subtrees(r, 'div')) else 'kind:a/x')
        elif E.subtrees(r, 'mul'):
            kinds.add('kind:x*x')
        else:
            kinds.add('kind:linear')
    ctx.label(*sorted(kinds))
    if opts['target'] is not None: ctx.label('opt:target')
    if opts['cycle']: ctx.label('opt:cycle')
    if case['style'].get('opspace') and any(E.subtrees(r, 'div') or E.subtrees(r, 'mul') for r in system): ctx.label('blanks-around-operators')
    ctx.label('opt:all' if opts['all'] else 'opt:one')
    for a in range(len(system)):
        for b in range(a):
            if system[a][1] == system[b][1]:
                ctx.label('opposed-pair' if system[a][3] == system[b][3] else 'band')

    far = any(abs(float(c_[1])) >= 1e15 for r in system for c_ in E.subtrees(r, 'const')) or \
        any(abs(float(l_[2] or 0.0)) >= 1e15 for r in system for l_ in E.subtrees(r, 'lin'))
    if far: ctx.label('far-pole')
    cases = call_simplify(case, ctx, names, variables, text)
    if cases is None:
        return
    if far: ctx.label('far-pole:result')
    for c in cases:
        for l in E.text_lines(c):
            ctx.expect(E.comparator(l) != '', 'C12.simplify_wellformed', lambda: dict(input=text, output=cases, line=l))
    nc = len(cases)
    ctx.label('cases:%s' % (nc if nc <= 2 else '3-4' if nc <= 4 else '5+'))

    # did a comparator have to flip?  (every candidate isolated variable of a linear
    # inequality has a negative net coefficient)
    out_lhs = set()
    for l in E.text_lines(cases[0]):
        try:
            out_lhs.add(E.split_line(l)[0])
        except ValueError:
            pass
    flip = False
    for r in system:
        if r[2] == '=' or r[1][0] != 'lin' or r[3][0] != 'lin':
            continue
        net = E.net_coefficients(r[1], r[3])
        cand = [v for i, v in net.items() if names[i] in out_lhs and v != 0]
        if cand and all(v < 0 for v in cand):
            flip = True
    if flip:
        ctx.label('flip')

    opposed = opposed_text_pairs(text)
    prod0, unsolvable = degenerate_lines(system)
    if prod0: ctx.label('product-vs-zero')
    if unsolvable: ctx.label('a/x=0')
    empty_line = any(c != '\n'.join(E.text_lines(c)) for c in cases)
    if empty_line: ctx.label('output-has-empty-line')
    seen_true = seen_false = False
    npts = 0
    out_exact = output_exact(cases)
    if exact_sys and not out_exact:
        ctx.label('exact-input-rounded-output')
    for p, tag, vouched in simplify_points(case):
        if not all(math.isfinite(v) for v in p):
            continue
        exact = exact_sys and out_exact and exact_point(p)
        want = E.system_truth(system, p, exact, IN_BAND, vouched)
        if want is UNDEF:
            ctx.exclude('point:input-undefined')
            continue
        if want is NEAR:
            ctx.exclude('point:near-input-boundary(%s)' % tag)
            continue
        pd = E.point_dict(p, names)
        if case['style'].get('named'):       # (should the result keep the name instead of the number)
            pd[case['style']['named'][0]] = float(case['style']['named'][1])
        per_case = [E.text_truth(c, pd, exact, OUT_BAND, vouched) for c in cases]
        got = E.any_truth(per_case)
        if got is NEAR:
            ctx.exclude('point:near-output-boundary')
            continue
        npts += 1
        if UNDEF in per_case:
            ctx.label('output-line-undefined-at-point')
        if exact and tag == 'on':
            ctx.label('exact-on-boundary')
        if vouched and not exact:
            ctx.label('float-equality-on-boundary')
        if tag == 'factor0':
            ctx.label('factor-exactly-zero')

        def detail(p=p, want=want, got=got, per_case=per_case, tag=tag, exact=exact, pd=pd):
            split = on_split_boundary(cases, pd) if (want is True and got is False) else []
            return dict(input=text, output=cases, point=pd, input_holds=want,
                        cases_hold=per_case, origin=tag, exact=exact, options=opts,
                        on_split_boundary=split, f10=bool(split),
                        opposed_lines=opposed, product_vs_zero=prod0, output_has_empty_line=empty_line)
        if opts['all']:
            ctx.expect(got == want, 'C12.simplify', detail)
        else:
            # one case of several was returned: it may not cover the input, but it must not exceed it
            ctx.expect((got is not True) or want is True, 'C12.simplify_one', detail)
        if want: seen_true = True
        else: seen_false = True
    if npts:
        ctx.label('evaluated')
    if (flip or nc >= 2) and seen_true and seen_false and opts['all']:
        ctx.nontrivial()


def _known_f10(case, subcheck, detail):
    """isolating a variable divides by a factor f; the result excludes f == 0 in every case (sign cases
    f > 0 / f < 0 are strict only; equalities get 'f != 0') although the input is defined (does not
    divide by f) and holds there"""
    return (subcheck == 'C12.simplify' and isinstance(detail, dict) and detail.get('f10') is True
            and detail.get('input_holds') is True and not any(v is True for v in detail.get('cases_hold', [True])))


def _known_product_zero(case, subcheck, detail):
    """x_j*x_k <cmp> 0: sympy's isolated form is x_j <cmp> 0 (0/x_k is simplified away), so no sign
    split on x_k is made and the result ignores the sign of x_k"""
    return (subcheck in ('C12.simplify', 'C12.simplify_one') and isinstance(detail, dict)
            and detail.get('product_vs_zero') is True)


def _known_unsolved(case, subcheck, detail):
    """solve() returned '' for a line (a/x_k = 0 has no solution; sympy's check rejects some float
    solutions): _simplify1 does not notice, the line becomes an empty line of the result and its
    constraint is lost"""
    return (subcheck in ('C12.simplify', 'C12.simplify_one') and isinstance(detail, dict)
            and detail.get('output_has_empty_line') is True and detail.get('input_holds') is False)


def _known_redundant(case, subcheck, detail):
    """solve() on a consistent system with a redundant (repeated / scaled) equation and a target list: one
    dependent variable per *line* is solved for, so the solved form has more lines than the rank and pins
    a free variable (x1 = 0.5 ...): it describes a proper subset of the solutions; or - without a target - an
    independent equation is lost together with the repeated one and the solved form has fewer lines than the rank"""
    return (subcheck in ('C12.solve_contains', 'C12.solve_sound') and isinstance(case, dict) and case.get('redundant') is not None
            and isinstance(detail, dict) and len(E.text_lines(detail.get('output', ''))) != len(case.get('A', [])))


def _known_singular_choice(case, subcheck, detail):
    """solve() eliminates in floats and takes a pivot of rounding noise (5e-17) for a coefficient: when the variables it
    chose to solve for are not independent given the others (x4 is forced to 0 by the system, yet x0..x3 are expressed
    through x4), the solved form carries coefficients of 1e15..1e16 instead of the choice being rejected"""
    if subcheck not in ('C12.solve_contains', 'C12.solve_sound') or not isinstance(detail, dict):
        return False
    import re
    nums = re.findall(r'(?<![A-Za-z_0-9.])(\d+\.?\d*(?:[eE][-+]?\d+)?)', detail.get('output', '') or '')
    big = [float(n) for n in nums if float(n) >= 1e12]
    ins = re.findall(r'(?<![A-Za-z_0-9.])(\d+\.?\d*(?:[eE][-+]?\d+)?)', detail.get('input', '') or '')
    return bool(big) and all(float(n) < 1e7 for n in ins)


# =========================================================================== C12.solve
@st.composite
def solve_cases(draw, tier):
    n = draw(st.integers(2, 6))
    ne = draw(st.integers(1, min(4, n)))
    mode = draw(st.sampled_from(['dyadic', 'dyadic', 'short', 'mixed']))
    ck = 'dyadic' if mode == 'dyadic' else mode
    sol = draw(E.points(n, 'dyadic' if mode == 'dyadic' else 'mixed'))
    # full row rank by construction: reduced rows (unit pivot in distinct columns, anything in the
    # non-pivot columns, zeros in the other pivot columns) mixed by a unit-triangular matrix
    piv = list(draw(st.permutations(list(range(n)))))[:ne]
    R = []
    for r in range(ne):
        row = [0.0] * n
        for j in range(n):
            if j not in piv:
                row[j] = float(draw(E.coefficients(ck)))
        row[piv[r]] = float(draw(E.coefficients(ck, allow_zero=False)))
        R.append(row)
    mix = st.sampled_from([0.0, 0.0, 1.0, -1.0, 0.5, 2.0, -2.0] if mode == 'dyadic' else [0.0, 0.0, 1.0, -1.0, 0.5, 2.0, 3.0, -0.3])
    A = [list(r) for r in R]
    for r in range(ne):
        for q in range(r):
            m = draw(mix)
            if m:
                A[r] = [a + m * b for a, b in zip(A[r], A[q])]
    A = [A[i] for i in draw(st.permutations(list(range(ne))))]
    redundant = None
    if mode == 'dyadic' and ne < 4 and draw(st.integers(0, 4)) == 0:
        redundant = [draw(st.integers(0, ne - 1)), draw(st.sampled_from([1.0, 2.0, -1.0, 0.5]))]
    # how each equation is written: which terms are moved to the right-hand side
    moved = [draw(st.lists(st.integers(0, n - 1), max_size=2, unique=True)) if draw(st.integers(0, 2)) == 0 else []
             for _ in range(ne + 1)]
    scheme = draw(E.naming_schemes(n, max_index=8, extra_names=draw(st.sampled_from([3, 3, 9]))))     # (name lists of 11 and more entries too)
    style = {'minus': draw(st.booleans()), 'unit': draw(st.booleans())}
    target = None
    if draw(st.integers(0, 1)) == 0:
        m = draw(st.integers(1, n))
        target = list(draw(st.permutations(list(range(n)))))[:m]
    free = draw(st.lists(E.points(n, 'dyadic' if mode == 'dyadic' else 'mixed'), min_size=3, max_size=3))
    coef = draw(st.lists(st.lists(st.sampled_from([0.0, 1.0, -1.0, 2.0, 0.5, -3.0]), min_size=n, max_size=n), min_size=2, max_size=2))
    return dict(nvars=n, A=A, sol=sol, redundant=redundant, moved=moved, scheme=scheme, style=style,
                target=target, free=free, nullmix=coef, keep_zero=draw(st.booleans()),
                # which equations are written with '==' (solve accepts both spellings, also mixed)
                eqeq=draw(st.lists(st.sampled_from([False, False, False, True]), min_size=ne + 1, max_size=ne + 1)))


def solve_system(case):
    """the equations as relation trees, b = A.sol accumulated left to right in floats"""
    n = case['nvars']; A = [FL(r) for r in case['A']]; sol = FL(case['sol'])
    rows = [list(r) for r in A]
    if case['redundant'] is not None:
        i, f = case['redundant']
        rows.append([f * a for a in rows[i]])
    system = []
    for ri, row in enumerate(rows):
        acc = 0.0
        for a, x in zip(row, sol):
            acc += a * x
        mv = case['moved'][min(ri, len(case['moved']) - 1)]
        lhs = [[j, a] for j, a in enumerate(row) if j not in mv and (a != 0 or case['keep_zero'])]
        rhs = [[j, -a] for j, a in enumerate(row) if j in mv and a != 0]
        if not any(a != 0 for _, a in lhs):
            lhs = [[j, a] for j, a in enumerate(row) if a != 0]; rhs = []
        system.append(['rel', ['lin', lhs, 0.0], '=', ['lin', rhs, acc]])
    return system, rows


def resolve_solved_form(lines, free_point, names):
    """a point from the solved form: the variables on the left are computed from the right-hand
    sides, everything else is taken from free_point.  Returns (point dict, None) or (None, reason)."""
    parts = []
    for l in lines:
        lhs, cmp, rhs = E.split_line(l)
        if cmp not in ('=', '==') or lhs not in names:
            return None, 'line is not <variable> = <expression>: %r' % l
        parts.append((lhs, l))
    dep = [p[0] for p in parts]
    if len(set(dep)) != len(dep):
        return None, 'a variable is defined twice'
    pd = {nm: v for nm, v in zip(names, free_point)}
    pending = list(parts)
    known = set(nm for nm in names if nm not in dep)
    for _ in range(len(parts) + 1):
        rest = []
        for lhs, l in pending:
            try:
                ns = {k: pd[k] for k in known}
                pd[lhs] = E.line_sides(l, dict(ns, **{lhs: 0.0}))[2]
                # the right-hand side must not use variables that are still unknown
                E.line_sides(l, dict(ns, **{lhs: 0.0}))
                known.add(lhs)
            except NameError:
                rest.append((lhs, l))
            except E.Undefined:
                return None, 'undefined'
        pending = rest
        if not pending:
            return pd, None
    return None, 'cyclic definitions: ' + ', '.join(p[0] for p in pending)


def run_solve(case, ctx):
    from mystic.symbolic import solve
    n = case['nvars']
    names, variables = E.names_of(case['scheme'], n)
    system, rows = solve_system(case)
    text = E.render(system, names, case['style'])
    if any(case.get('eqeq') or []):
        tl = text.split('\n')
        for li, flag in enumerate(case['eqeq'][:len(tl)]):
            if flag and tl[li].count('=') == 1:
                tl[li] = tl[li].replace('=', '==')
        text = '\n'.join(tl)
        ctx.label('some-lines-with-==')
    exact_sys = all(exact_relation(r) for r in system) and all(E.is_short_dyadic(r[3][2], 64, 4096) for r in system)
    ne = len(case['A'])
    ctx.label('eqs:%d' % ne, 'free:%d' % (n - ne) if n - ne < 3 else 'free:3+', E.scheme_label(case['scheme']),
              'exact-system' if exact_sys else 'float-system')
    if case['redundant'] is not None: ctx.label('redundant-row')
    if case['target'] is not None: ctx.label('opt:target')
    if any(case['moved'][:len(rows)]): ctx.label('terms-on-both-sides')
    Anp = np.array(rows, float)
    sv = np.linalg.svd(Anp, compute_uv=False)
    cond = sv[0] / sv[ne - 1] if sv[ne - 1] > 0 else math.inf
    if cond > 1e5:
        ctx.exclude('ill-conditioned(cond>1e5)')
        return
    nz = [abs(a) for r in rows for a in r if a != 0]
    if nz and max(nz) / min(nz) > 1e4:
        # rows that mix coefficients of 1 and 1e6: the natural sizes of the unknowns differ by that factor, sympy's float
        # elimination leaves noise of 1e-6 in the large ones, and no single band fits every line of the solved form
        ctx.exclude('badly-scaled(coefficient ratio>1e4)')
        return
    kw = dict(variables=variables)
    if case['target'] is not None:
        kw['target'] = [names[i] for i in case['target']]
    try:
        try:
            out = guarded_call(lambda: solve(text, **kw), _count_vars(variables, names))
        except _Watchdog:
            ctx.exclude('solve-timeout'); ctx.label('no-result:timeout')
            return
    except Exception as e:
        ctx.exclude('solve-raised:' + getattr(e, 'name', type(e).__name__)); ctx.label('no-result:raised')
        return
    if not out or not isinstance(out, str) or not out.strip():
        ctx.exclude('solve-no-result'); ctx.label('no-result:empty')
        return
    lines = E.text_lines(out)
    import re as _re
    alien = sorted(set(_re.findall(r'[A-Za-z_][A-Za-z_0-9]*', out)) - set(names) - set(dir(math)) - {'inf', 'nan', 'abs', 'min', 'max'})
    if not ctx.expect(not alien, 'C12.solve_names',
                      lambda: dict(input=text, output=out, variables=variables, unknown_names=alien,
                                   note='the solved form mentions names that are not variables of the system')):
        return
    ctx.label('solved-lines:%s' % ('=eqs' if len(lines) == ne else '<eqs' if len(lines) < ne else '>eqs'))
    sol = FL(case['sol'])
    # sympy solves in floats without pivoting for accuracy: the printed solved form of a badly scaled system
    # (coefficients 1 and 1e6 in one row, cond 1e3) is off by a few 1e-9 relative.  The band therefore grows
    # with the condition number of the coefficient matrix (<= 1e5 here); a wrong solved form is off by O(1).
    tol = 1e-9 * max(1.0, float(cond))

    def near_eq(line, pd):
        # |lhs - rhs| within 1e-9 of the sum of |terms| of the line, with the size of the point as a
        # floor ('k_4 = 0' at a null-space solution with k_4 = -1.7e-16)
        try:
            lv, lm, cmp, rv, rm = E.line_sides_mag(line, pd)
        except E.Undefined:
            return None
        return abs(lv - rv) <= tol * (lm + rm + max(abs(v) for v in pd.values())) or lv == rv

    def sys_residuals(p):
        res = []
        for r in system:
            lv, rv = E.rel_sides(r, p)
            m = E.magnitude(r[1], p) + E.magnitude(r[3], p)
            res.append((abs(lv - rv), m))
        return res

    # (a) every solution of the system satisfies the solved form: the generated solution and
    # two more, sol + N t with N the null space of A (numpy SVD, independent of mystic)
    sols = [sol]
    if n > ne:
        u, s_, vt = np.linalg.svd(Anp)
        N = vt[ne:]
        for cf in case['nullmix']:
            t = np.array(FL(cf)[:len(N)] + [0.0] * max(0, len(N) - n), float)[:len(N)]
            if np.any(t):
                sols.append(list(np.array(sol) + t @ N))
    for k, p in enumerate(sols):
        if any(d > 1e-14 * m for d, m in sys_residuals(p)):
            ctx.exclude('solution-not-accurate-enough')
            continue
        pd = E.point_dict(p, names)
        if exact_sys and k == 0 and exact_point(p) and output_exact(lines):
            ok = all(E.holds(l, pd) is True for l in lines)
            ctx.label('exact-solution')
        else:
            ok = all(near_eq(l, pd) is True for l in lines)
        ctx.expect(ok, 'C12.solve_contains', lambda p=p: dict(
            input=text, output=out, solution=E.point_dict(p, names), options=kw,
            lines=[[l, E.holds(l, E.point_dict(p, names), eqrel=tol)] for l in lines]))

    # (b) every point of the solved form (free variables chosen, dependent ones computed from the
    # right-hand sides) satisfies the system
    nfree_seen = None
    for fp in case['free']:
        pd, why = resolve_solved_form(lines, FL(fp), names)
        if pd is None and why == 'undefined':
            ctx.exclude('solved-form-undefined-at-point')
            continue
        ctx.expect(pd is not None, 'C12.solve_form', lambda: dict(input=text, output=out, reason=why, options=kw))
        if pd is None:
            return
        p = [pd[nm] for nm in names]
        if not all(math.isfinite(v) for v in p):
            continue
        nfree_seen = n - len(lines)
        res = sys_residuals(p)
        # the dependent variables are only as accurate as the printed solved form: 15 digits of every
        # term of their defining expression (1e-13 of its sum of |terms| leaves a factor 100)
        delta = [0.0] * n
        for l in lines:
            lv, lm, cmp_, rv, rm = E.line_sides_mag(l, pd)
            delta[names.index(E.split_line(l)[0])] = 1e-13 * rm
        # floor: a backward error of 1e-12 relative to |row| . |point| (a true solution component that is exactly 0
        # comes back as 3e-21 and the row magnitude at the point is then itself of that size)
        pmax = max(abs(v) for v in p)
        allow = [tol * m + sum(abs(a) * dl for a, dl in zip(row, delta)) + 1e-12 * sum(abs(a) for a in row) * pmax
                 for (d, m), row in zip(res, rows)]
        ok = all(d <= al or d == 0 for (d, m), al in zip(res, allow))
        ctx.expect(ok, 'C12.solve_sound', lambda p=p, res=res, allow=allow: dict(
            input=text, output=out, point=E.point_dict(p, names), options=kw, cond=float(cond),
            residual=[d for d, m in res], allowed=allow))
    if nfree_seen and (ne >= 2 or case['target'] is not None):
        ctx.nontrivial()


# =========================================================================== C12.matrix
BOUND_VALUES = [0.0, -0.0, 0.05, -0.05, 1e-5, -1e-5, 0.5, -0.5, 1.0, -1.0, 10.0, 100.0, -10.5, 0.001, 5e-6,
                0, 1, -3, 1000000.0, 1e16, 1e-7, 0.30000000000000004, None, 'inf', '-inf']


@st.composite
def matrix_cases(draw, tier):
    n = draw(st.integers(1, 5))
    what = draw(st.sampled_from(['linear', 'linear', 'bounds']))
    scheme = draw(E.naming_schemes(n, max_index=12))
    pass_vars = draw(st.booleans())
    if what == 'bounds':
        lo, hi = [], []
        for _ in range(n):
            a = draw(st.one_of(st.sampled_from(BOUND_VALUES), st.floats(-100, 100).filter(E._not_tiny)))
            b = draw(st.one_of(st.sampled_from(BOUND_VALUES), st.floats(-100, 100).filter(E._not_tiny), st.just(a)))
            fa = -math.inf if a is None or a == '-inf' else F(a)
            fb = math.inf if b is None or b == 'inf' else F(b)
            if a == 'inf' or b == '-inf' or fa > fb:
                a, b = b, a
                a = None if a == 'inf' else a
                b = None if b == '-inf' else b
                a = '-inf' if a == 'inf' else a
            lo.append(a); hi.append(b)
        pts = []
        for _ in range(10):
            p = []
            for i in range(n):
                cands = [v for v in (lo[i], hi[i]) if v is not None and v not in ('inf', '-inf')]
                alts = [st.sampled_from([0.0, -0.0, 0.05, -0.05, 1e-5, 0.5, 1.0, -1.0, 2.0, 50.0, -50.0]), st.floats(-100, 100)]
                if cands:
                    alts.append(st.sampled_from(cands).map(float))
                    alts.append(st.sampled_from(cands).map(lambda v: math.nextafter(float(v), math.inf)))
                    alts.append(st.sampled_from(cands).map(lambda v: math.nextafter(float(v), -math.inf)))
                p.append(draw(st.one_of(*alts)))
            pts.append(p)
        return dict(what=what, nvars=n, lo=lo, hi=hi, scheme=scheme, pass_vars=pass_vars, points=pts,
                    as_array=draw(st.booleans()))
    mode = draw(st.sampled_from(['dyadic', 'dyadic', 'short', 'mixed']))
    na = draw(st.integers(0, 3)); ng = draw(st.integers(0 if na else 1, 3))
    A = [[draw(E.coefficients(mode)) for _ in range(n)] for _ in range(na)]
    G = [[draw(E.coefficients(mode)) for _ in range(n)] for _ in range(ng)]
    pk = 'dyadic' if mode == 'dyadic' else 'mixed'
    x0 = draw(E.points(n, pk))
    h = [draw(E.constants(mode)) for _ in range(ng)]
    b_from_x0 = draw(st.integers(0, 3)) != 0          # equalities satisfiable at x0 (else arbitrary b)
    b = None if b_from_x0 else [draw(E.constants(mode)) for _ in range(na)]
    h_on = [draw(st.booleans()) for _ in range(ng)]    # h_i := G_i.x0 (x0 exactly on that boundary)
    pts = draw(st.lists(E.points(n, pk), min_size=6, max_size=6))
    shape = dict(A_flat=draw(st.booleans()), b_nested=draw(st.booleans()), G_flat=draw(st.booleans()),
                 h_nested=draw(st.booleans()), as_array=draw(st.booleans()))
    return dict(what=what, nvars=n, A=A, b=b, G=G, h=h, h_on=h_on, x0=x0, scheme=scheme, pass_vars=pass_vars,
                points=pts, shape=shape)


def _dot(row, x):
    acc = None
    for a, v in zip(row, x):
        t = float(a) * float(v)
        acc = t if acc is None else acc + t
    return acc


def run_matrix(case, ctx):
    from mystic.symbolic import linear_symbolic, symbolic_bounds
    n = case['nvars']
    names, variables = E.names_of(case['scheme'], n)
    ctx.label('what:' + case['what'], E.scheme_label(case['scheme']))
    if case['scheme']['kind'] == 'base' and case['scheme']['index'] != list(range(n)):
        # linear_symbolic / symbolic_bounds name by position: base + str(j); a sparse scheme is passed as a list
        variables = list(names)
    if case['scheme']['kind'] == 'list':
        variables = list(names)               # exactly n names, in order
    if not case['pass_vars'] and case['scheme']['kind'] == 'base' and case['scheme']['base'] == 'x' \
            and case['scheme']['index'] == list(range(n)):
        variables = None                      # documented default: x0, x1, ...
        ctx.label('variables:default')
    seen_t = seen_f = False
    if case['what'] == 'bounds':
        lo = [None if v is None else F(v) for v in case['lo']]
        hi = [None if v is None else F(v) for v in case['hi']]
        args = (np.array([(-np.inf if v is None else v) for v in lo]), np.array([(np.inf if v is None else v) for v in hi])) \
            if case['as_array'] else (list(lo), list(hi))
        text = symbolic_bounds(args[0], args[1], variables)
        flo = [-math.inf if v is None else float(v) for v in lo]
        fhi = [math.inf if v is None else float(v) for v in hi]
        if any(v is None for v in lo + hi): ctx.label('bound:None')
        if any(v is not None and math.isinf(v) for v in lo + hi): ctx.label('bound:inf')
        if any(v is not None and v != 0 and abs(v) < 1 for v in lo + hi): ctx.label('bound:|v|<1')
        if any(v is not None and v != 0 and abs(v) < 1 and v < 0 for v in lo + hi): ctx.label('bound:-0.x')
        if any(v is not None and v == 0 and math.copysign(1, v) < 0 for v in lo + hi): ctx.label('bound:-0.0')
        if any(a == b_ for a, b_ in zip(flo, fhi)): ctx.label('bound:min==max')
        if not text.strip(): ctx.label('bound:empty-text')
        for p in case['points']:
            p = FL(p)
            want = all(a <= v <= b_ for a, v, b_ in zip(flo, p, fhi))
            got = E.holds_all(text, E.point_dict(p, names))
            ctx.expect(got is want, 'C12.bounds', lambda p=p, want=want, got=got: dict(
                min=case['lo'], max=case['hi'], text=text, point=E.point_dict(p, names), expected=want, got=got))
            if want: seen_t = True
            else: seen_f = True
            if any(v in (a, b_) for a, v, b_ in zip(flo, p, fhi)): ctx.label('point-on-bound')
        if seen_t and seen_f:
            ctx.nontrivial()
        return
    A = [FL(r) for r in case['A']]; G = [FL(r) for r in case['G']]
    x0 = FL(case['x0'])
    b = [_dot(r, x0) for r in A] if case['b'] is None else FL(case['b'])
    h = [(_dot(r, x0) if on else float(hv)) for r, hv, on in zip(G, FL(case['h']), case['h_on'])]
    system = [['rel', ['lin', [[j, a] for j, a in enumerate(r)], 0.0], '<=', ['const', hv]] for r, hv in zip(G, h)] + \
             [['rel', ['lin', [[j, a] for j, a in enumerate(r)], 0.0], '=', ['const', bv]] for r, bv in zip(A, b)]
    sh = case['shape']

    def arg(M, v, flat, nested):
        if not M:
            return None, None
        M2 = [list(r) for r in M]; v2 = list(v)
        if flat and len(M2) == 1:
            M2 = M2[0]
        if nested:
            v2 = [v2]
        if sh['as_array']:
            M2 = np.array(M2, float); v2 = np.array(v2, float)
        return M2, v2
    Aarg, barg = arg(A, b, sh['A_flat'], sh['b_nested'])
    Garg, harg = arg(G, h, sh['G_flat'], sh['h_nested'])
    text = linear_symbolic(Aarg, barg, Garg, harg, variables)
    ctx.label('A-rows:%d' % len(A), 'G-rows:%d' % len(G))
    if sh['as_array']: ctx.label('ndarray-input')
    nlines = len(E.text_lines(text))
    ctx.expect(nlines == len(A) + len(G), 'C12.linear_symbolic', lambda: dict(
        A=A, b=b, G=G, h=h, text=text, reason='one line per row expected', lines=nlines))
    exact_sys = all(exact_relation(r) and E.is_short_dyadic(r[3][1], 64, 4096) for r in system)
    pts = [(x0, True)]
    for p in case['points']:
        pts.append((FL(p), False))
    # per inequality row: a point on its boundary (along one variable) and 1e-3 to either side
    for gi, r in enumerate(system[:len(G)]):
        vs = [j for j, a in enumerate(G[gi]) if a != 0]
        if vs:
            v = vs[gi % len(vs)]
            q = E.on_boundary(r, x0, v)
            if q is not None:
                pts += [(q, False), (_nudge(q, v, 1e-3), False), (_nudge(q, v, -1e-3), False)]
    for p, vouched in pts:
        if not all(math.isfinite(v) for v in p):
            continue
        exact = exact_sys and exact_point(p)
        want = E.system_truth(system, p, exact, IN_BAND, vouched and case['b'] is None)
        if want is NEAR:
            ctx.exclude('point:near-input-boundary')
            continue
        got = E.text_truth(text, E.point_dict(p, names), exact, OUT_BAND, vouched and case['b'] is None)
        if got is NEAR:
            ctx.exclude('point:near-output-boundary')
            continue
        if exact: ctx.label('exact-point')
        ctx.expect(got == want, 'C12.linear_symbolic', lambda p=p, want=want, got=got, exact=exact: dict(
            A=A, b=b, G=G, h=h, text=text, point=E.point_dict(p, names), expected=want, got=got, exact=exact))
        if want is True: seen_t = True
        if want is False: seen_f = True
    if seen_t and seen_f:
        ctx.nontrivial()


# libFuzzer executions per shard and @given test of the coverage-guided extra of the thorough tier (vp/fuzz.py)
FUZZ = 2000

TESTS = [
    Test('simplify', run_simplify, strategy=lambda tier: simplify_cases(tier),
         examples={'quick': QUICK_SIMPLIFY, 'thorough': 40000}),
    Test('solve', run_solve, strategy=lambda tier: solve_cases(tier),
         examples={'quick': 600, 'thorough': 15000}),
    Test('matrix', run_matrix, strategy=lambda tier: matrix_cases(tier),
         examples={'quick': 3000, 'thorough': 100000}),
]

KNOWN = {'F10-sign-split-drops-zero-factor': _known_f10,
         'simplify-product-vs-zero-ignores-factor-sign': _known_product_zero,
         'simplify-drops-unsolved-line': _known_unsolved,
         'solve-redundant-equation-overdetermined-form': _known_redundant,
         'solve-singular-variable-choice-noise-pivot': _known_singular_choice}
