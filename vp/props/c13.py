"""C13 - compiled constraint functions enforce exactly the stated relation.

Relations ``x_i <cmp> f(x_{!=i})`` are generated as expression trees (vp.symgen), rendered to
mystic's text syntax under a naming scheme, compiled with
``generate_constraint(generate_solvers(text, ...))`` and applied to generated vectors.
Oracle: the tree interpreter (never mystic's parser) evaluates f at the returned vector.

Tests
  relation : one relation, all seven comparators, points incl. exactly on / one ulp off the boundary,
             inside and outside the documented strictness band, magnitudes to 1e15
  system   : 2-4 relations whose left-hand variables occur in no right-hand side (optionally the
             pairs 'xi != f' + inequality on the same xi, and the closed band f <= xi <= f + c),
             join in {None, and_, or_}
  bounds   : boundsconstrain(min, max) symbolic=True / False against clip(x, min, max)
  bounds_nofinite : the box without any finite bound (identity expected)
"""
import math
from fractions import Fraction
import numpy as np
from hypothesis import strategies as st
from vp.runner import Test
from vp import symgen as sg

PROP = 'C13'
RULE = ("relation/system: expression trees over + - * / abs min max sqrt (exact class; constants from a pool, short "
        "decimals, dyadics, arbitrary doubles, ints) or with one sin/cos/tanh/exp term (inexact class), depth <= 2, "
        "rendered with/without spaces under a naming scheme (x0..xN incl. N>10, another base, or an explicit name "
        "list incl. names that are substrings of one another; never substrings of function names), optional "
        "nvars/locals/tol/rel; 1-6 points per compiled function as list / int-list / ndarray: random, x_i exactly "
        "on f, one ulp either side, half / twice the strictness tolerance either side, far either side, magnitudes "
        "to 1e15. bounds: boxes of 1-12 coordinates with None/inf sides and min == max, coordinates inside, on a "
        "bound, one ulp outside, far outside. Non-trivial: the input violated a relation (or a bound), or sat "
        "exactly on the boundary of a strict one (or on a bound); distinct = canonical JSON of the case.")
ASSUME = ["the interpreter's python float arithmetic equals what python computes from the rendered text for + - * / "
          "abs min max sqrt (checked by vp.symgen.selftest); trees with sin/cos/tanh/exp are compared with slack "
          "1e-11 * sum-of-magnitudes",
          "strict comparators: 'already satisfied' means satisfied by more than the documented tolerance "
          "tol + |f|*rel (mystic.math.tolerance); inputs inside that band may legitimately be moved",
          "a user-supplied (tol, rel) below four ulp of f cannot make a strict relation hold: excluded and counted",
          "points where f is undefined / not finite (division by zero, overflow) are excluded and counted",
          "symbolic boundsconstrain passes its numbers through sympy's 15-digit printing: bounds are ints and decimals "
          "with <= 15 significant digits there (arbitrary doubles for symbolic=False)",
          "generated functions mutate their argument: the oracle works from a copy (labelled, not asserted)"]

CONTAINERS = ['list', 'list', 'array', 'array', 'intlist']
MODES = ['rand', 'rand', 'on', 'on', 'above', 'below', 'band-in+', 'band-in-', 'band-out+', 'band-out-', 'far+', 'far-']


# ------------------------------------------------------------------------------ generators
def _dims():
    return st.one_of(st.integers(1, 5), st.integers(2, 5), st.sampled_from([11, 12, 13]))


@st.composite
def _points(draw, n, nmodes, maxpts=6):
    pts = []
    for _ in range(draw(st.integers(1, maxpts))):
        kind, x = draw(sg.xvectors(n))
        pts.append({'x': x, 'kind': kind, 'container': draw(st.sampled_from(CONTAINERS)),
                    'modes': [draw(st.sampled_from(MODES)) for _ in range(nmodes)]})
    return pts


def _pref_vars(draw, others, n):
    """bias towards texts containing both x1 and x1k when there are > 10 variables"""
    if n > 10 and draw(st.booleans()):
        pick = [j for j in others if j in (1, 10, 11, 12)]
        if len(pick) >= 2:
            return pick
    return others


@st.composite
def relation_cases(draw, tier):
    n = draw(_dims())
    i = draw(st.integers(0, n - 1))
    if n > 10 and draw(st.booleans()):
        i = draw(st.sampled_from([1, 10, n - 1]))
    others = [j for j in range(n) if j != i]
    locs = draw(sg.locals_dicts())
    exact = draw(st.integers(0, 4)) > 0
    rhs = draw(sg.trees(_pref_vars(draw, others, n), sorted(locs), depth=2, exact=exact))
    tol, rel = draw(sg.tolerances())
    return {'seed': draw(st.integers(0, 2 ** 20)), 'n': n, 'scheme': draw(sg.schemes(n)),
            'pass_nvars': draw(st.booleans()), 'i': i, 'cmp': draw(st.sampled_from(sg.CMPS)), 'rhs': rhs,
            'locals': locs, 'tol': tol, 'rel': rel, 'tight': draw(st.booleans()),
            'pad': draw(st.sampled_from(['', '', '    ', ' '])), 'points': draw(_points(n, 1))}


@st.composite
def system_cases(draw, tier):
    case = draw(sg.isolated_systems())
    case['join'] = draw(st.sampled_from([None, None, 'and'] + ([] if case['extra'].startswith('neq') else ['or'])))
    case['points'] = draw(_points(case['n'], len(case['rels']), 5))
    return case


def _dec15():
    """ints and decimals with <= 15 significant digits (survive sympy's printing)"""
    return st.one_of(sg.short_decimals(), st.integers(-1000, 1000).map(float), st.integers(-20, 20),
                     st.sampled_from([0.1, 0.05, -0.0, 1e-5, 1e15, -1e15, 1e-3, -1.2, 123456.789012345, 1e300, 0.3]))


@st.composite
def bounds_cases(draw, tier, finite=True, pins=False):
    symbolic = True if pins else draw(st.booleans())
    n = draw(st.integers(1, 4) if (symbolic or not finite) else st.one_of(st.integers(1, 6), st.just(12)))
    if symbolic and finite and draw(st.integers(0, 9)) == 0:
        n = 11
    # (the symbolic variant compiles the bounds text as is since 1c1cd8c, so bounds that need 17 significant digits
    # - 1/3, 0.1+0.2, arbitrary floats - are in the domain of both variants)
    val = st.one_of(_dec15(), st.floats(-1e6, 1e6, allow_nan=False), st.floats(-1.0, 1.0, allow_nan=False), st.sampled_from([1e305, -1e305]),
                    st.sampled_from([1.0 / 3.0, 2.0 / 3.0, 0.1 + 0.2, -1.0 / 3.0, math.pi, 1e-7 / 3.0]), sg.xvalues('huge'))
    lo, hi = [], []
    for j in range(n):
        a, b = sorted([float(draw(val)), float(draw(val))])
        kind = draw(st.sampled_from(['both', 'both', 'both', 'lo', 'hi', 'pin', 'none']))
        if not finite:
            kind = 'none'
        elif pins and j == 0:
            kind = 'pin'
        elif kind == 'pin' and symbolic and not pins:
            kind = 'both'
        if kind == 'both' and symbolic and a == b:       # pinned coordinates have their own test
            b = float(math.floor(a) + 2) if abs(a) < 1e14 else (2 * a if a > 0 else 0.0)   # still <= 15 digits
        if kind == 'pin':
            b = a
        lo.append(a if kind in ('both', 'lo', 'pin') else draw(st.sampled_from([None, '-inf'])))
        hi.append(b if kind in ('both', 'hi', 'pin') else draw(st.sampled_from([None, 'inf'])))
    if finite and all(not isinstance(v, float) for v in lo + hi):
        lo[0] = 0.5
    pts = []
    for _ in range(draw(st.integers(1, 6))):
        x = []
        for j in range(n):
            mode = draw(st.sampled_from(['in', 'in', 'lo', 'hi', 'lo-', 'hi+', 'lo+', 'hi-', 'far-', 'far+', 'free', 'huge', 'vast']))
            a = lo[j] if isinstance(lo[j], float) else None
            b = hi[j] if isinstance(hi[j], float) else None
            ref = a if mode.startswith('lo') else b
            if mode == 'in' and a is not None and b is not None:
                v = a + (b - a) * draw(st.sampled_from([0.5, 0.25, 0.75, 0.001]))
                v = min(max(v, a), b)
            elif mode in ('lo', 'hi') and ref is not None:
                v = ref
            elif mode in ('lo-', 'hi-') and ref is not None:
                v = math.nextafter(ref, -math.inf)
            elif mode in ('lo+', 'hi+') and ref is not None:
                v = math.nextafter(ref, math.inf)
            elif mode == 'far-' and a is not None:
                v = a - max(1.0, abs(a))
            elif mode == 'far+' and b is not None:
                v = b + max(1.0, abs(b))
            elif mode == 'huge':
                v = draw(sg.xvalues('huge'))
            elif mode == 'vast':       # beyond the +-1e300 that the randomising mode of impose_bounds works with
                v = draw(st.sampled_from([5e302, -5e302, 1e308, -1e308, 2e300]))
            else:
                v = draw(sg.xvalues('small'))
            x.append(v)
        pts.append({'x': x, 'container': draw(st.sampled_from(['list', 'array']))})
    return {'seed': draw(st.integers(0, 2 ** 20)), 'n': n, 'lo': lo, 'hi': hi, 'symbolic': symbolic, 'points': pts}


# ------------------------------------------------------------------------------ helpers
def _apply_mode(mode, xi, f, tol, rel):
    """the input coordinate for a boundary class"""
    ff = float(f)
    t = float(sg.tolerance(ff, tol, rel))
    if mode == 'rand':
        return xi
    if mode == 'on':
        return f
    if mode == 'above':
        return math.nextafter(ff, math.inf)
    if mode == 'below':
        return math.nextafter(ff, -math.inf)
    if mode == 'band-in+':
        return ff + 0.5 * t
    if mode == 'band-in-':
        return ff - 0.5 * t
    if mode == 'band-out+':
        return ff + 2.0 * t
    if mode == 'band-out-':
        return ff - 2.0 * t
    d = max(1.0, 0.25 * abs(ff))
    return ff + d if mode == 'far+' else ff - d


def _classify(cmp, xi, f, fz, tol, rel):
    """truth of the relation at the input: True / False / None (inside the tolerance or comparison band)"""
    d = Fraction(xi) - Fraction(f)              # exact
    fzq = Fraction(fz)
    if cmp in sg.STRICT:
        g = sg.band_guard(f, tol, rel) + fzq
        s = d if cmp == '>' else -d
        return True if s > g else (False if s <= -fzq else None)
    if cmp in ('<=', '>='):
        s = d if cmp == '>=' else -d
        return True if s >= fzq else (False if s < -fzq else None)
    if cmp == '!=':
        return True if abs(d) > fzq else (False if fzq == 0 else None)
    return True if (d == 0 and fzq == 0) else (False if abs(d) > fzq else None)


def _holds_out(cmp, yi, f, fz):
    """the relation at the returned vector, with the libm slack fz (0 for exact trees); None = undecidable"""
    if fz == 0:
        return sg.holds(cmp, yi, f)
    d = Fraction(yi) - Fraction(f)
    fzq = Fraction(fz)
    if cmp in ('=', '=='):
        return abs(d) <= fzq
    if cmp == '!=':
        return True if abs(d) > fzq else None
    if cmp in ('<', '<='):
        return d <= fzq
    return d >= -fzq


def _build(case, text):
    from vp import lab
    lab.seed_rng(case['seed'])
    from mystic.symbolic import generate_solvers, generate_constraint
    kw = sg.parser_kwargs(case['scheme'], case['n'], case['pass_nvars'], case['locals'], case['tol'], case['rel'])
    solvers = generate_solvers(text, **kw)
    return solvers, generate_constraint


def _interfere(case, text):
    """after the constraint under test was compiled, the same text is compiled once more with other values for the same
    local names and a coarse tol/rel, and that second constraint is applied once: functions compiled earlier must not
    notice (each compile has its own namespace)"""
    from mystic.symbolic import generate_solvers, generate_constraint
    locs2 = {}
    for k_, v_ in (case.get('locals') or {}).items():
        locs2[k_] = (v_ * -3.0 + 7.5) if isinstance(v_, (int, float)) else v_
    kw2 = sg.parser_kwargs(case['scheme'], case['n'], case['pass_nvars'], locs2, 0.5, 0.25)
    try:
        c2 = generate_constraint(generate_solvers(text, **kw2))
        c2([0.5] * case['n'])
    except Exception:
        pass


def _label_text(ctx, case, trees_, text):
    n = case['n']
    ctx.label(sg.scheme_label(case['scheme'], n), 'tight' if case['tight'] else 'spaced',
              'nvars-given' if case['pass_nvars'] else 'nvars-inferred')
    vs = set()
    ops = set()
    for t in trees_:
        vs |= sg.tree_vars(t); ops |= sg.tree_ops(t)
    if 1 in vs and (vs & {10, 11, 12}):
        ctx.label('x1-and-x1k-in-text')
    if case['locals'] and any(sg.tree_locals(t) for t in trees_):
        ctx.label('uses-locals')
    if case['tol'] is not None or case['rel'] is not None:
        ctx.label('custom-tol/rel')
    for o in sorted(ops & {'div', 'sqrt', 'min', 'max', 'abs', 'mul'}):
        ctx.label('op:' + o)
    exact = not (ops & {'sin', 'cos', 'tanh', 'exp'})
    ctx.label('exact-tree' if exact else 'inexact-tree')
    return exact


# ------------------------------------------------------------------------------ single relation
def run_relation(case, ctx):
    n = case['n']; i = case['i']; cmp = case['cmp']; rhs = case['rhs']
    locs = case['locals']; tol = case['tol']; rel = case['rel']
    names = sg.names_of(case['scheme'], n)
    text = sg.render_line(['v', i], cmp, rhs, names, case['tight'], case['pad'])
    solvers, generate_constraint = _build(case, text)
    ctx.expect(len(solvers) == 1, 'C13.one_solver_per_line', lambda: dict(text=text, n=len(solvers)))
    c = generate_constraint(solvers)
    _interfere(case, text)
    _label_text(ctx, case, [rhs], text)
    ctx.label('cmp:' + cmp)
    for p in case['points']:
        xin = sg.to_container(p['x'], p['container'])
        f, why = sg.safe_ev(rhs, list(xin), locs)        # the right-hand side never reads x_i
        if why:
            ctx.exclude('f-' + why)
            continue
        mode = p['modes'][0]
        xi = _apply_mode(mode, xin[i], f, tol, rel)
        if not math.isfinite(float(xi)):
            ctx.exclude('input-not-finite')
            continue
        xin[i] = xi
        x0 = list(xin)                                   # the copy the oracle works from
        fz = sg.fuzz(rhs, x0, locs)
        if cmp in sg.STRICT + ('!=',) and not sg.resolvable(f, tol, rel):
            ctx.exclude('tolerance-below-resolution')
            continue
        was = _classify(cmp, x0[i], f, fz, tol, rel)
        y = c(xin)
        yl = list(y)
        det = lambda: dict(text=text, doc=c.__doc__, x=x0, y=[float(v) for v in yl], f=float(f), mode=mode,
                           container=p['container'], locals=locs, tol=tol, rel=rel)
        ctx.expect(len(yl) == n, 'C13.shape', det)
        ctx.label('mode:' + mode, 'container:' + p['container'], 'x:' + p['kind'],
                  'input:' + {True: 'satisfied', False: 'violated', None: 'in-band'}[was])
        if y is xin:
            ctx.label('returns-its-argument')
        if any(xin[j] != x0[j] for j in range(n)):
            ctx.label('mutates-argument')
        # (1) only x_i may change
        ctx.expect(all(yl[j] == x0[j] for j in range(n) if j != i), 'C13.others_untouched', det)
        # (2) the relation holds at the result (f re-evaluated at the result)
        fy = sg.ev(rhs, yl, locs)
        h = _holds_out(cmp, yl[i], fy, fz)
        if h is None:
            ctx.exclude('neq-within-libm-slack')
        else:
            ctx.expect(h, 'C13.holds', det)
        # (3) identity on inputs that already satisfy it
        if was is True:
            ctx.expect(yl[i] == x0[i], 'C13.feasible_unchanged', det)
        elif was is None:
            ctx.label('band-moved' if yl[i] != x0[i] else 'band-kept')
        if was is False or (was is not True and cmp in sg.STRICT and mode == 'on'):
            ctx.nontrivial()
        if abs(float(f)) >= 1e12:
            ctx.label('|f|>=1e12')


# ------------------------------------------------------------------------------ systems
def run_system(case, ctx):
    n = case['n']; rels = case['rels']; locs = case['locals']; tol = case['tol']; rel = case['rel']
    text = sg.system_text(case)
    join = case['join']
    tl = [l for l in text.split('\n') if l.strip()]
    cut = case['seed'] % len(tl) if len(tl) >= 2 else 0
    if join is None and cut and case['seed'] % 3 == 0 and not case.get('extra'):     # (an 'extra' line shares its left-hand variable with another line: the parser coordinates those only within one string)
        # the same relations handed over as a tuple of constraint strings (a nested tuple of solvers comes back, which
        # generate_constraint documents to accept): still 'several relations ... all of them at once'
        solvers, generate_constraint = _build(case, ('\n'.join(tl[:cut]), '\n'.join(tl[cut:])))
        ctx.label('tuple-of-strings')
        ctx.expect(sum(len(g) for g in solvers) == len(rels), 'C13.one_solver_per_line',
                   lambda: dict(text=text, n=[len(g) for g in solvers]))
    else:
        solvers, generate_constraint = _build(case, text)
        ctx.expect(len(solvers) == len(rels), 'C13.one_solver_per_line', lambda: dict(text=text, n=len(solvers)))
    if join is None:
        c = generate_constraint(solvers)
    else:
        from mystic.constraints import and_, or_
        c = generate_constraint(solvers, join=and_ if join == 'and' else or_)
    _interfere(case, text)
    _label_text(ctx, case, [r['rhs'] for r in rels], text)
    ctx.label('join:%s' % join, 'lines:%d' % len(rels), 'extra:' + (case['extra'] or 'none'))
    lhs = set(r['i'] for r in rels)
    for p in case['points']:
        x = list(p['x'])
        fs = []
        for r in rels:
            f, why = sg.safe_ev(r['rhs'], x, locs)      # rhs never reads a left-hand variable
            fs.append(f)
            if why:
                break
        if why:
            ctx.exclude('f-' + why)
            continue
        for r, f, mode in zip(rels, fs, p['modes']):
            x[r['i']] = _apply_mode(mode, x[r['i']], f, tol, rel)
        if not all(math.isfinite(float(v)) for v in x):
            ctx.exclude('input-not-finite')
            continue
        cont = p['container'] if p['container'] != 'intlist' else 'list'
        xin = sg.to_container(x, cont)
        x0 = list(xin)
        if any(r['cmp'] in sg.STRICT + ('!=',) and not sg.resolvable(f, tol, rel) for r, f in zip(rels, fs)):
            ctx.exclude('tolerance-below-resolution')
            continue
        fzs = [sg.fuzz(r['rhs'], x0, locs) for r in rels]
        # documented companion rule: next to 'xi != g', a non-strict 'xi <= f' excludes its boundary where f == g
        eff = [r['cmp'] for r in rels]
        for k, r in enumerate(rels):
            if r['cmp'] in ('<=', '>='):
                for q, g in zip(rels, fs):
                    if q['cmp'] == '!=' and q['i'] == r['i'] and abs(Fraction(g) - Fraction(fs[k])) <= Fraction(fzs[k]):
                        eff[k] = r['cmp'][0]
        was = [_classify(e, x0[r['i']], f, fz, tol, rel) for e, r, f, fz in zip(eff, rels, fs, fzs)]
        if sg.neq_tie(rels, fs, fzs, tol, rel):
            ctx.exclude('neq-target-inside-band-of-strict-companion')
            continue
        y = c(xin)
        yl = list(y)
        det = lambda: dict(text=text, doc=c.__doc__, x=x0, y=[float(v) for v in yl], f=[float(v) for v in fs],
                           modes=p['modes'], join=join, locals=locs, tol=tol, rel=rel)
        ctx.expect(len(yl) == n, 'C13.shape', det)
        ctx.label('container:' + cont, 'x:' + p['kind'])
        ctx.expect(all(yl[j] == x0[j] for j in range(n) if j not in lhs), 'C13.others_untouched', det)
        hs = [_holds_out(r['cmp'], yl[r['i']], sg.ev(r['rhs'], yl, locs), fz) for r, fz in zip(rels, fzs)]
        if any(h is None for h in hs):
            ctx.exclude('neq-within-libm-slack')
        elif join == 'or':
            ctx.expect(any(hs), 'C13.system_any_holds', lambda: dict(det(), holds=hs))
        else:
            ctx.expect(all(hs), 'C13.system_all_hold', lambda: dict(det(), holds=hs))
        if join == 'or':
            if any(w is True for w in was):
                ctx.expect(all(yl[j] == x0[j] for j in range(n)), 'C13.feasible_unchanged', lambda: dict(det(), was=was))
        elif all(w is True for w in was):
            ctx.expect(all(yl[j] == x0[j] for j in range(n)), 'C13.feasible_unchanged', lambda: dict(det(), was=was))
        nviol = sum(1 for w in was if w is False)
        ctx.label('violated-lines:%s' % ('0' if nviol == 0 else ('all' if nviol == len(rels) else 'some')))
        if nviol or any(w is None for w in was):
            ctx.nontrivial()


# ------------------------------------------------------------------------------ bounds
def _B(v, default):
    if v is None:
        return None
    return float(v)


def run_bounds(case, ctx):
    from vp import lab
    lab.seed_rng(case['seed'])
    from mystic.constraints import boundsconstrain
    n = case['n']
    lo = [_B(v, -math.inf) for v in case['lo']]
    hi = [_B(v, math.inf) for v in case['hi']]
    c = boundsconstrain(list(lo), list(hi), symbolic=case['symbolic'])      # (the lists are modified in place)
    L = [-math.inf if v is None else v for v in lo]
    H = [math.inf if v is None else v for v in hi]
    ctx.label('symbolic:%s' % case['symbolic'], 'n:%s' % ('>10' if n > 10 else n))
    if any(a == b for a, b in zip(L, H)):
        ctx.label('pinned-coordinate')
    if any(v is None for v in lo + hi):
        ctx.label('None-side')
    if any(v is not None and math.isinf(v) for v in lo + hi):
        ctx.label('inf-side')
    if all(math.isinf(v) for v in L + H):
        ctx.label('no-finite-bound')
    for p in case['points']:
        xin = sg.to_container(p['x'], p['container'])
        x0 = [float(v) for v in xin]
        y = c(xin)
        yl = [float(v) for v in y]
        want = [a if v < a else (b if v > b else v) for v, a, b in zip(x0, L, H)]
        det = lambda: dict(lo=case['lo'], hi=case['hi'], symbolic=case['symbolic'], x=x0, y=yl, want=want,
                           container=p['container'], doc=c.__doc__)
        ctx.expect(len(yl) == n, 'C13.shape', det)
        inside = want == x0
        ctx.label('container:' + p['container'], 'point:inside' if inside else 'point:outside')
        if any(xin[j] != x0[j] for j in range(n)):
            ctx.label('mutates-argument')
        ctx.expect(all(a <= v <= b for v, a, b in zip(yl, L, H)), 'C13.bounds_in_box', det)
        if inside:
            ctx.expect(yl == x0, 'C13.bounds_identity_inside', det)
        ctx.expect(yl == want, 'C13.bounds_clip', det)
        onb = any(v == a or v == b for v, a, b in zip(x0, L, H))
        if onb:
            ctx.label('point:on-a-bound')
        if not inside or onb:
            ctx.nontrivial()


# libFuzzer executions per shard and @given test of the coverage-guided extra of the thorough tier (vp/fuzz.py)
FUZZ = 2000

TESTS = [
    Test('relation', run_relation, strategy=lambda tier: relation_cases(tier),
         examples={'quick': 4000, 'thorough': 200000}),
    Test('system', run_system, strategy=lambda tier: system_cases(tier),
         examples={'quick': 2500, 'thorough': 100000}),
    Test('bounds', run_bounds, strategy=lambda tier: bounds_cases(tier, True),
         examples={'quick': 800, 'thorough': 30000}),
    Test('bounds_pinned', run_bounds, strategy=lambda tier: bounds_cases(tier, True, True),
         examples={'quick': 160, 'thorough': 3000}),
    Test('bounds_nofinite', run_bounds, strategy=lambda tier: bounds_cases(tier, False),
         examples={'quick': 48, 'thorough': 400}),
]


KNOWN = {}
