"""C16 - constraint transforms land in their target set and leave conforming input alone.

Every decorator is applied as ``d(...)(identity)`` to a private copy of the input
(list or ndarray) and the result is judged by an independent membership
predicate written in plain Python:

  bounds   impose_bounds         inside an interval / at the (nearest) interval end
  snap     discrete, integers,   member of the sample set / integer / decimal with
           rounded, precision    the given digits, and nearest to the input
  unique   unique, impose_unique pairwise distinct, drawn from the allowed set,
                                 first occurrences kept
  order    monotonic, sorting    running max-min / sorted multiset on the selection
  pin      impose_at, impose_as  pinned value / x[j] == x[i] + offset for every pair
  stats    with_mean/variance/   statistic reached (math.fsum), documented
           std/spread,normalized invariants kept
  rewrite  masked, partial, synchronized, clipped, suppressed

plus, for all of them: unselected entries bit-unchanged, conforming entries
unchanged, d(d(x)) == d(x).  Index selections follow Python indexing (negative
counts from the end); entries outside [-n, n) are "out of range".
"""
import math
import numpy as np
from hypothesis import strategies as st
from vp.runner import Test
from vp.util import F, FL, close, same, finite_floats

PROP = 'C16'
RULE = ("per decorator family: input vector of length 1-8 (masked: 0-6) as list or float ndarray (a tenth as "
        "int-typed where the docstrings show int input), values from a small pool that contains the targets "
        "(interval ends, samples and their midpoints, .5 ties, +-tol, ...) or arbitrary floats; index in "
        "{None, int, negative int, tuple mixing positive/negative forms of distinct positions, tuple with an entry "
        "beyond the end, only beyond the end}; decorator parameters from small pools (1-3 disjoint intervals incl. "
        "one-sided/degenerate, list/single/dict form; samples unsorted with duplicates; digits -2..3; forests of "
        "(i,j) pairs in arbitrary order; targets incl. the statistic the input already has). Preconditions are "
        "constructed (variance/spread/sum bounded away from 0, enough allowed values for unique). Non-trivial: at "
        "least one selected entry was outside the target set and (where a selection exists) one entry was "
        "unselected; distinct by canonical JSON.")
ASSUME = ["index entries below -len(x) are not generated (only 'beyond the end' counts as out of range)",
          "impose_as: pairs form a forest (every index tracks at most one partner, no cycles - a cyclic mask makes "
          "impose_as loop forever), indices non-negative; which member's value a tied group takes is not asserted, "
          "only that it is the original value of one of its members",
          "synchronized: keys and tracked indices are disjoint (operations within one mask are documented as unordered)",
          "monotonic/sorting: an index tuple with an out-of-range entry may raise IndexError (not documented); "
          "the empty index tuple is not generated",
          "discrete: a tie between two samples may go to either neighbour; integers/rounded: halves may go either way",
          "statistics are compared with rel 1e-7 (the decorators' own almostEqual gate) plus 1e-12 x data scale",
          "unique with float fill: a collision of a random float with an existing value has probability ~0",
          "values are moderate (|x| <= 1e4): overflow of int casts / 10**digits scaling is out of scope"]


def ident(x):
    return x


# =========================================================================== shared helpers
def val(pool, lo=-20.0, hi=20.0):
    pool = list(pool)
    return st.one_of(st.sampled_from(pool), st.sampled_from(pool), finite_floats(lo, hi))


def vecs(n, pool, lo=-20.0, hi=20.0):
    return st.lists(val(pool, lo, hi), min_size=n, max_size=n)


INDEX_KINDS = ('none', 'int', 'neg', 'tuple', 'tuple', 'tuple-oor', 'tuple-oor', 'oor')


@st.composite
def index_specs(draw, n, kinds=INDEX_KINDS, min_tuple=0):
    """None | int | list of ints (passed as a tuple).  Distinct positions, each written as p or p-n."""
    kind = draw(st.sampled_from(kinds))
    if kind == 'none':
        return None
    if kind == 'int':
        return draw(st.integers(0, n - 1))
    if kind == 'neg':
        return draw(st.integers(-n, -1))
    if kind == 'oor':
        k = n + draw(st.integers(0, 3))
        return k if draw(st.booleans()) else [k]
    size = draw(st.integers(min(min_tuple, n), n))
    pos = list(draw(st.permutations(list(range(n)))))[:size]
    out = [(p - n) if draw(st.booleans()) else p for p in pos]
    if kind == 'tuple-oor':
        for _ in range(draw(st.integers(1, 2))):
            out.insert(draw(st.integers(0, len(out))), n + draw(st.integers(0, 3)))
    return out


def as_index(index):
    if index is None or isinstance(index, int):
        return index
    return tuple(index)


def resolve(index, n):
    """positions addressed under Python indexing; entries outside [-n, n) are out of range"""
    if index is None:
        return dict(sel=set(range(n)), oor=False, neg=set())
    items = [index] if isinstance(index, int) else list(index)
    sel = set(); oor = False; negonly = {}
    for i in items:
        if -n <= i < n:
            p = i % n
            sel.add(p)
            negonly[p] = negonly.get(p, True) and i < 0
        else:
            oor = True
    return dict(sel=sel, oor=oor, neg=set(p for p, v in negonly.items() if v))


def index_labels(ctx, index, r, n):
    if index is None:
        ctx.label('index:none')
    elif isinstance(index, int):
        ctx.label('index:int')
    else:
        ctx.label('index:tuple')
        if not index:
            ctx.label('index:empty')
    if r['oor']:
        ctx.label('index:out-of-range')
        if r['sel']:
            ctx.label('index:mixed-in-and-out-of-range')
    if r['neg']:
        ctx.label('index:negative')


def mkx(case):
    x = FL(case['x'])
    if case.get('ints'):
        x = [int(v) for v in x]
        return np.array(x) if case.get('arr') else x
    x = [float(v) for v in x]
    return np.array(x, dtype=float) if case.get('arr') else x


def fl(seq):
    return [float(v) for v in seq]


def veq(a, b):
    a = list(a); b = list(b)
    return len(a) == len(b) and all(same(u, v) for u, v in zip(a, b))


def vclose(a, b, rel=1e-12, abs_=0.0):
    a = list(a); b = list(b)
    return len(a) == len(b) and all(close(u, v, rel, abs_) for u, v in zip(a, b))


def call(ctx, fn, xin, seed=None):
    """apply fn to a private copy of xin (some decorators write into their argument: a label, not a failure)"""
    if seed is not None:
        from vp import lab
        lab.seed_rng(seed)
    arg = xin.copy() if isinstance(xin, np.ndarray) else list(xin)
    out = fn(arg)
    if not veq(arg, xin):
        ctx.label('mutates-input')
    return out


def input_labels(ctx, case):
    ctx.label('input:ndarray' if case.get('arr') else 'input:list')
    if case.get('ints'):
        ctx.label('input:int-typed')
    ctx.label('len:%s' % ('1' if len(case['x']) == 1 else ('0' if not case['x'] else '2+')))


def same_len(ctx, out, n, what):
    try:
        m = len(out)
    except TypeError:
        m = None
    ctx.expect(m == n, 'C16.shape', lambda: dict(decorator=what, expected_len=n, got=repr(out)[:200]))


# =========================================================================== bounds
BCUT = [-5.0, -2.0, 0.0, 1.0, 2.5, 5.0, 7.0, 10.0]


@st.composite
def interval_sets(draw):
    k = draw(st.sampled_from([1, 1, 2, 2, 3]))
    cuts = sorted(draw(st.lists(val(BCUT, -12, 12), min_size=2 * k, max_size=2 * k)))
    ivs = [[cuts[2 * i], cuts[2 * i + 1]] for i in range(k)]
    if draw(st.integers(0, 5)) == 0:
        ivs[0][0] = None
    if draw(st.integers(0, 5)) == 0:
        ivs[-1][1] = None
    ivs = [list(iv) for iv in draw(st.permutations(ivs))]
    single = (k == 1) and draw(st.booleans())
    return ivs, single


def _bpool(all_ivs):
    ends = sorted(set(float(v) for ivs in all_ivs for iv in ivs for v in iv if v is not None))
    mids = [(a + b) / 2.0 for a, b in zip(ends[:-1], ends[1:])]
    off = [e + d for e in ends for d in (-0.75, 0.4)]
    return BCUT + ends + ends + mids + off


@st.composite
def bounds_cases(draw):
    n = draw(st.integers(1, 8))
    form = draw(st.sampled_from(['list', 'list', 'dict']))
    case = dict(form=form, arr=draw(st.booleans()), ints=draw(st.integers(0, 9)) == 0,
                clip=draw(st.sampled_from([True, True, False])),
                nearest=draw(st.sampled_from([True, True, False])),
                seed=draw(st.integers(0, 10 ** 6)))
    if form == 'list':
        ivs, single = draw(interval_sets())
        case.update(ivs=ivs, single=single, index=draw(index_specs(n)))
        all_ivs = [ivs]
    else:
        if draw(st.integers(0, 3)) == 0:
            ivs, single = draw(interval_sets())
            entries = [[None, ivs, single]]
            index = draw(index_specs(n))
        else:
            size = draw(st.integers(1, n))
            pos = list(draw(st.permutations(list(range(n)))))[:size]
            keys = [(p - n) if draw(st.integers(0, 3)) == 0 else p for p in pos]
            if draw(st.integers(0, 3)) == 0:
                keys.append(n + draw(st.integers(0, 2)))
            entries = []
            for k in keys:
                ivs, single = draw(interval_sets())
                entries.append([k, ivs, single])
            fk = draw(st.sampled_from(['none', 'none', 'subset', 'int']))
            if fk == 'none':
                index = None
            elif fk == 'int':
                index = draw(st.sampled_from(keys))
            else:
                index = [k for k in keys if draw(st.booleans())]
                if draw(st.booleans()):
                    index.append(n + 5)
        case.update(entries=entries, index=index)
        all_ivs = [e[1] for e in entries]
    if case['ints']:
        case['x'] = draw(st.lists(st.integers(-8, 12), min_size=n, max_size=n))
    else:
        case['x'] = draw(vecs(n, _bpool(all_ivs), -15, 15))
    return case


def _mkivs(ivs, single):
    t = [tuple(None if v is None else F(v) for v in iv) for iv in ivs]
    return t[0] if single else t


def _norm(ivs):
    return [(-math.inf if lo is None else float(F(lo)), math.inf if hi is None else float(F(hi))) for lo, hi in ivs]


def run_bounds(case, ctx):
    from mystic.constraints import impose_bounds
    x0 = mkx(case); xs = fl(x0); n = len(xs)
    clip = case['clip']; nearest = case['nearest']
    index = as_index(case['index'])
    want = {}                                   # position -> (intervals, addressed only by a negative index)
    oor = False
    if case['form'] == 'list':
        bounds_arg = _mkivs(case['ivs'], case['single'])
        r = resolve(case['index'], n); oor = r['oor']
        for p in r['sel']:
            want[p] = (_norm(case['ivs']), p in r['neg'])
        ctx.label('bounds:single-tuple' if case['single'] else 'bounds:interval-list')
        index_labels(ctx, case['index'], r, n)
    else:
        bounds_arg = {}
        for key, ivs, single in case['entries']:
            bounds_arg[key] = _mkivs(ivs, single)
        keys = [e[0] for e in case['entries']]
        if keys == [None]:
            ctx.label('bounds:dict-None-key')
            r = resolve(case['index'], n); oor = r['oor']
            for p in r['sel']:
                want[p] = (_norm(case['entries'][0][1]), p in r['neg'])
            index_labels(ctx, case['index'], r, n)
        else:
            ctx.label('bounds:dict')
            flt = None if index is None else set([index] if isinstance(index, int) else index)
            if flt is not None:
                ctx.label('bounds:dict+index-filter')
            for key, ivs, single in case['entries']:
                if flt is not None and key not in flt:
                    continue
                if -n <= key < n:
                    want[key % n] = (_norm(ivs), key < 0)
                    if key < 0:
                        ctx.label('index:negative')
                else:
                    oor = True
                    ctx.label('index:out-of-range')
    ctx.label('mode:%s/%s' % ('clip' if clip else 'random', 'nearest' if nearest else 'any-interval'))
    input_labels(ctx, case)
    fn = impose_bounds(bounds_arg, index=index, clip=clip, nearest=nearest)(ident)
    out = call(ctx, fn, x0, case['seed'])
    same_len(ctx, out, n, 'impose_bounds')
    o = fl(out)
    moved = False
    for p in range(n):
        xi = xs[p]; oi = o[p]
        if p not in want:
            ctx.expect(same(oi, xi), 'C16.bounds_unselected',
                       lambda: dict(pos=p, x=xi, got=oi, int_input=bool(case['ints'])))
            continue
        ivs, vianeg = want[p]
        inside = any(lo <= xi <= hi for lo, hi in ivs)
        base = lambda: dict(pos=p, x=xi, got=oi, intervals=ivs, via_negative=vianeg, clip=clip, nearest=nearest,
                            int_input=bool(case['ints']), out_of_range_in_index=oor,
                            in_gap=any(hi < xi for lo, hi in ivs) and any(lo > xi for lo, hi in ivs))
        if inside:
            ctx.label('entry:conforming')
            ctx.expect(same(oi, xi), 'C16.bounds_conforming', base)
            continue
        moved = True
        ctx.label('entry:outside')
        if base()['in_gap']:
            ctx.label('entry:in-gap-between-intervals')
        cands = [min(max(xi, lo), hi) for lo, hi in ivs]
        if clip:
            # lands exactly on an end of one of the intervals ("at an interval end when clipping")
            all_ends = [e for lo, hi in ivs for e in (lo, hi)]
            ctx.expect(any(oi == e for e in all_ends), 'C16.bounds_clipped', lambda: dict(base(), ends=cands))
            if nearest:
                # ... and no end is nearer: the distance (in float arithmetic, as the code measures it) equals the least
                # distance to any interval.  With ends like 0.0 and 3e-166 seen from -5.0 two ends are equally near.
                dmin = min(abs(c - xi) for c in cands)
                ctx.expect(any(oi == e for e in all_ends) and abs(oi - xi) == dmin, 'C16.bounds_nearest',
                           lambda: dict(base(), ends=cands, nearest_distance=dmin))
        else:
            ctx.expect(any(lo <= oi <= hi for lo, hi in ivs), 'C16.bounds_member', base)
            if nearest:
                dist = [min(abs(xi - lo), abs(xi - hi)) for lo, hi in ivs]
                dmin = min(dist)
                ctx.expect(any(lo <= oi <= hi and d == dmin for (lo, hi), d in zip(ivs, dist)),
                           'C16.bounds_nearest', lambda: dict(base(), interval_distances=dist))
    # whatever came out is handed back unchanged (conforming input; holds for the randomising modes too)
    again = call(ctx, fn, out, case['seed'] + 1)
    ctx.expect(veq(fl(again), o), 'C16.bounds_idem', lambda: dict(once=o, twice=fl(again), x=xs))
    if not moved:
        ctx.label('all-selected-conforming')
    ctx.nontrivial(moved and len(want) < n)


# =========================================================================== snap: discrete / integers / rounded / precision
SNAPV = [0.4, 1.6, 2.7, 0.5, 1.5, 2.5, -0.5, -1.5, 0.0, 1.0, 2.0, 5.0, 3.0, 123.45, 4.01, 0.012, 0.125,
         0.375, -2.25, 7.0, 15.0, 0.05, 1.115, 0.285, -0.004, 14.0, 25.0]
SAMP = [0.0, 1.0, 2.0, 3.0, 5.0, 7.0, 10.0, -1.0, -2.5, 0.5, 1.5]


@st.composite
def snap_cases(draw):
    n = draw(st.integers(1, 8))
    dec = draw(st.sampled_from(['discrete', 'integers', 'rounded', 'precision']))
    case = dict(dec=dec, arr=draw(st.booleans()), index=draw(index_specs(n)))
    pool = SNAPV
    if dec == 'discrete':
        k = draw(st.integers(1, 5))
        if draw(st.integers(0, 4)) == 0:
            samples = draw(st.lists(st.integers(-3, 10), min_size=k, max_size=k))
        else:
            samples = draw(st.lists(val(SAMP, -10, 10), min_size=k, max_size=k))
        case.update(samples=samples, samples_arr=draw(st.integers(0, 3)) == 0,
                    # the sample set is installed afterwards through the decorated function's samples(...) hook
                    reconfig=draw(st.integers(0, 2)) == 0)
        ss = sorted(set(float(s) for s in samples))
        pool = ss + ss + [(a + b) / 2.0 for a, b in zip(ss[:-1], ss[1:])] + [ss[0] - 1.0, ss[-1] + 0.25] + SNAPV[:9]
    elif dec == 'integers':
        case['ints_arg'] = draw(st.sampled_from([True, True, False, 'float', 'int']))
    else:
        case['digits'] = draw(st.sampled_from([None, 0, 1, 1, 2, 3, -1, -2]))
    case['x'] = draw(vecs(n, pool, -50, 50))
    return case


def _snap_member(case, v):
    dec = case['dec']
    if dec == 'discrete':
        return any(v == float(s) for s in case['samples'])
    if dec == 'integers':
        return float(v).is_integer()
    return round(float(v), case['digits'] or 0) == float(v)


def _snap_near(case, xi, v):
    dec = case['dec']
    if dec == 'discrete':
        return abs(v - xi) == min(abs(float(s) - xi) for s in case['samples'])
    if dec == 'integers':
        return abs(v - xi) <= 0.5
    d = case['digits'] or 0
    return abs(v - xi) <= 0.5 * 10.0 ** (-d) * (1 + 1e-9) + 1e-12 * abs(xi)


def run_snap(case, ctx):
    import mystic.constraints as C
    dec = case['dec']
    x0 = mkx(case); xs = fl(x0); n = len(xs)
    index = as_index(case['index'])
    r = resolve(case['index'], n)
    want_int = False
    if dec == 'discrete':
        samples = [s if isinstance(s, int) else float(s) for s in case['samples']]
        sarg = np.array(samples) if case['samples_arr'] else list(samples)
        d = C.discrete(sarg, index=index)
        if not veq(fl(sarg), fl(samples)):
            ctx.label('mutates-samples-argument')
    elif dec == 'integers':
        ia = case['ints_arg']
        ints = {'float': float, 'int': int}.get(ia, ia) if isinstance(ia, str) else ia
        want_int = ia is True or ia == 'int'
        d = C.integers(ints=ints, index=index)
        ctx.label('ints:%s' % ia)
    elif dec == 'rounded':
        d = C.rounded(case['digits'], index=index)
    else:
        d = C.precision(case['digits'], index=index)
    ctx.label('dec:' + dec)
    if 'digits' in case:
        ctx.label('digits:%s' % ('None' if case['digits'] is None else ('neg' if case['digits'] < 0 else 'nonneg')))
    index_labels(ctx, case['index'], r, n)
    input_labels(ctx, case)
    fn = d(ident)
    if dec == 'discrete' and case.get('reconfig'):
        fn = C.discrete([0.0, 1.0], index=index)(ident)
        fn.samples(np.array(samples) if case['samples_arr'] else list(samples))
        ctx.label('discrete:samples-hook')
    out = call(ctx, fn, x0)
    same_len(ctx, out, n, dec)
    o = fl(out)
    moved = False
    for p in range(n):
        xi = xs[p]; oi = o[p]
        base = lambda: dict(decorator=dec, pos=p, x=xi, got=oi, index=case['index'],
                            out_of_range_in_index=r['oor'], selected=p in r['sel'],
                            params={k: case[k] for k in ('samples', 'ints_arg', 'digits') if k in case})
        if p not in r['sel']:
            ctx.expect(same(oi, xi), 'C16.snap_unselected', base)
            continue
        if _snap_member(case, xi):
            ctx.label('entry:conforming')
            ctx.expect(oi == xi, 'C16.snap_conforming', base)
        else:
            moved = True
            ctx.label('entry:outside')
        ctx.expect(_snap_member(case, oi), 'C16.snap_member', base)
        ctx.expect(_snap_near(case, xi, oi), 'C16.snap_nearest', base)
        if dec == 'discrete':
            ds = sorted(abs(float(s) - xi) for s in set(float(s) for s in case['samples']))
            if len(ds) > 1 and ds[0] == ds[1]:
                ctx.label('entry:tie-between-samples')
        elif xi * 10.0 ** (case.get('digits') or 0) % 1 == 0.5:
            ctx.label('entry:half')
    if want_int and case['index'] is None:
        if isinstance(out, np.ndarray):
            okt = out.dtype.kind in 'iu'
        else:
            okt = all(isinstance(v, (int, np.integer)) for v in out)
        ctx.expect(okt, 'C16.snap_type', lambda: dict(decorator=dec, ints=case['ints_arg'], got=repr(out)[:200]))
    again = call(ctx, fn, out)
    ctx.expect(veq(fl(again), o), 'C16.snap_idem', lambda: dict(decorator=dec, once=o, twice=fl(again), x=xs))
    if not moved:
        ctx.label('all-selected-conforming')
    ctx.nontrivial(moved and len(r['sel']) < n)


# =========================================================================== unique
@st.composite
def unique_cases(draw):
    n = draw(st.integers(1, 8))
    kind = draw(st.sampled_from(['none', 'int', 'float', 'dict', 'dict', 'list', 'set']))
    ints = draw(st.booleans())
    if kind == 'int':
        ints = True
    if kind == 'float':
        ints = False
    case = dict(arr=draw(st.booleans()), ints=ints, via=draw(st.sampled_from(['func', 'dec'])),
                seed=draw(st.integers(0, 10 ** 6)))
    if ints:
        x = draw(st.lists(st.integers(-2, n + 1), min_size=n, max_size=n))
    else:
        x = draw(vecs(n, [0.0, 1.0, 1.5, 2.0, 3.0, -1.0, 2.5], -5, 5))
    full = dict(kind=kind)
    if kind in ('list', 'set'):
        # the allowed set: the distinct values of x plus enough further distinct values
        have = []
        for v in x:
            if v not in have:
                have.append(v)
        extra_n = (n - len(have)) + draw(st.integers(0, 3))
        cand = [c for c in ([v for v in range(-6, 14)] if ints else [0.25 * k for k in range(-24, 56)]) if c not in have]
        start = draw(st.integers(0, len(cand) - extra_n))
        step_ok = cand[start:start + extra_n]
        full['values'] = list(draw(st.permutations(have + step_ok)))
        if kind == 'list' and draw(st.integers(0, 2)) == 0:
            # an allowed-value list that names some values more than once (it still denotes the same set)
            vals = full['values']
            for _ in range(draw(st.integers(1, 4))):
                vals.insert(draw(st.integers(0, len(vals))), vals[draw(st.integers(0, len(vals) - 1))])
            full['repeats'] = True
    else:
        # constructed precondition: the span of x admits n distinct values
        if ints:
            need = n - (max(x) - min(x) + 1)
            if need > 0:
                k = max(i for i, v in enumerate(x) if v == max(x))
                x[k] = x[k] + need
        else:
            if n > 1 and max(x) == min(x):
                x[-1] = x[-1] + 1.0
        if kind == 'dict':
            if ints:
                lo = min(x) - draw(st.integers(0, 2))
                hi = max(lo + n, max(x) + 1) + draw(st.sampled_from([0, 0, 1, 3]))   # capacity under min <= v < max
                full.update(min=lo, max=hi, type=draw(st.sampled_from(['int', 'int', None])))
            else:
                lo = min(x) - draw(st.sampled_from([0.0, 1.0, 2.5]))
                hi = max(x) + draw(st.sampled_from([0.5, 1.0, 4.0]))
                full.update(min=lo, max=hi, type=None)
    case.update(x=x, full=full)
    return case


def _unique_full(full):
    kind = full['kind']
    if kind == 'none':
        return None
    if kind == 'int':
        return int
    if kind == 'float':
        return float
    if kind == 'dict':
        d = dict(min=F(full['min']), max=F(full['max']))
        if full.get('type') == 'int':
            d['type'] = int
        return d
    vals = list(FL(full['values']))
    return set(vals) if kind == 'set' else vals


def _unique_allowed(case, xs):
    """membership predicate for the values unique may hand out"""
    full = case['full']; kind = full['kind']
    lo, hi = min(xs), max(xs)
    if kind in ('list', 'set'):
        allowed = FL(full['values'])
        return lambda v: any(v == a for a in allowed), 'one of %r' % (allowed,)
    if kind == 'dict':
        a, b = F(full['min']), F(full['max'])
        if full.get('type') == 'int':
            return lambda v: a <= v < b and float(v).is_integer(), 'integer with %r <= v < %r' % (a, b)
        return lambda v: a <= v < b, '%r <= v < %r' % (a, b)
    if kind == 'int' or (kind == 'none' and case['ints']):
        return lambda v: lo <= v <= hi and float(v).is_integer(), 'integer in [%r, %r]' % (lo, hi)
    return lambda v: lo <= v <= hi, 'float in [%r, %r]' % (lo, hi)


def run_unique(case, ctx):
    import mystic.constraints as C
    x0 = mkx(case); xs = fl(x0); n = len(xs)
    full = _unique_full(case['full'])
    kind = case['full']['kind']
    ctx.label('full:' + kind + ('/int' if case['full'].get('type') == 'int' else ''), 'via:' + case['via'])
    if case['full'].get('repeats'): ctx.label('full:list-with-repeated-values')
    input_labels(ctx, case)
    if case['via'] == 'dec':
        fn = C.impose_unique(full)(ident)
    else:
        fn = lambda x: C.unique(x, full)
    allowed, text = _unique_allowed(case, xs)
    first = [i for i in range(n) if xs[i] not in xs[:i]]
    dup = n - len(first)
    ctx.label('duplicates:%s' % ('0' if not dup else ('1' if dup == 1 else '2+')))

    def check(out, second):
        same_len(ctx, out, n, 'unique')
        o = fl(out)
        base = lambda: dict(x=xs, got=o, full=case['full'], allowed=text, second_call=second)
        ctx.expect(len(set(o)) == n, 'C16.unique_distinct', base)
        for p in range(n):
            ctx.expect(allowed(o[p]), 'C16.unique_member', lambda: dict(base(), pos=p, value=o[p]))
        for p in first:
            ctx.expect(o[p] == xs[p], 'C16.unique_first_kept', lambda: dict(base(), pos=p))
        if not dup:
            ctx.expect(o == xs, 'C16.unique_conforming', base)
        return o

    try:
        out = call(ctx, fn, x0, case['seed'])
    except ValueError as e:
        ctx.expect(False, 'C16.unique_accepts', lambda: dict(x=xs, full=case['full'], error=str(e), stage='first call'))
        return
    o = check(out, False)
    # the result is conforming: handing it back must change nothing (and must be accepted)
    try:
        again = call(ctx, fn, list(out), case['seed'] + 1)
        ctx.expect(veq(fl(again), o), 'C16.unique_stable',
                   lambda: dict(x=xs, once=o, twice=fl(again), full=case['full']))
    except ValueError as e:
        ctx.expect(False, 'C16.unique_stable',
                   lambda: dict(x=xs, once=o, error=str(e), full=case['full'], allowed=text))
    # the same decorated function / the same `full` object used a second time
    try:
        out2 = call(ctx, fn, x0, case['seed'] + 2)
        check(out2, True)
    except ValueError as e:
        ctx.expect(False, 'C16.unique_accepts', lambda: dict(x=xs, full=case['full'], error=str(e), stage='second call'))
    ctx.nontrivial(dup > 0)


# =========================================================================== order: monotonic / sorting
ORDV = [0.0, 1.0, 2.0, 3.0, -1.0, 5.34, -0.121, -4.11, 9.01, 11.3, -16.4, 2.0, 1.0]


@st.composite
def order_cases(draw):
    n = draw(st.integers(1, 8))
    ints = draw(st.integers(0, 9)) == 0
    case = dict(dec=draw(st.sampled_from(['monotonic', 'sorting'])), arr=draw(st.booleans()), ints=ints,
                ascending=draw(st.booleans()), outer=draw(st.booleans()),
                index=draw(index_specs(n, min_tuple=1, kinds=('none', 'int', 'neg', 'tuple', 'tuple', 'tuple', 'tuple',
                                                               'tuple-oor', 'oor'))))
    if ints:
        x = draw(st.lists(st.integers(-3, 6), min_size=n, max_size=n))
    else:
        x = draw(vecs(n, ORDV, -20, 20))
    shape = draw(st.sampled_from(['free', 'free', 'free', 'free', 'sorted', 'reversed']))
    if shape != 'free':
        x = sorted(x, reverse=(shape == 'reversed'))
    case['x'] = x
    return case


def run_order(case, ctx):
    import mystic.constraints as C
    dec = case['dec']; asc = case['ascending']
    x0 = mkx(case); xs = fl(x0); n = len(xs)
    index = as_index(case['index'])
    r = resolve(case['index'], n)
    ctx.label('dec:' + dec, 'ascending' if asc else 'descending', 'outer' if case['outer'] else 'inner')
    index_labels(ctx, case['index'], r, n)
    input_labels(ctx, case)
    fn = getattr(C, dec)(ascending=asc, outer=case['outer'], index=index)(ident)
    try:
        out = call(ctx, fn, x0)
    except IndexError:
        if r['oor']:
            ctx.label('out-of-range-index-raises-IndexError')
            ctx.exclude('%s: out-of-range index raised IndexError (undocumented either way)' % dec)
            return
        raise
    same_len(ctx, out, n, dec)
    o = fl(out)
    P = sorted(r['sel'])
    sel_x = [xs[p] for p in P]; sel_o = [o[p] for p in P]
    base = lambda: dict(decorator=dec, ascending=asc, outer=case['outer'], index=case['index'], x=xs, got=o,
                        positions=P)
    le = (lambda a, b: a <= b) if asc else (lambda a, b: a >= b)
    ctx.expect(all(le(a, b) for a, b in zip(sel_o[:-1], sel_o[1:])), 'C16.order_ordered', base)
    if dec == 'sorting':
        expect = sorted(sel_x, reverse=not asc)
    else:
        expect = []
        for v in sel_x:
            expect.append(v if not expect else ((max if asc else min)(expect[-1], v)))
    ctx.expect(sel_o == expect, 'C16.order_values', lambda: dict(base(), expected_on_selection=expect))
    for p in range(n):
        if p not in r['sel']:
            ctx.expect(same(o[p], xs[p]), 'C16.order_unselected', lambda: dict(base(), pos=p))
    conforming = all(le(a, b) for a, b in zip(sel_x[:-1], sel_x[1:]))
    if conforming:
        ctx.label('selection-already-ordered')
        ctx.expect(o == xs, 'C16.order_conforming', base)
    again = call(ctx, fn, out)
    ctx.expect(veq(fl(again), o), 'C16.order_idem', lambda: dict(base(), twice=fl(again)))
    ctx.nontrivial((not conforming) and len(P) < n)


# =========================================================================== pin: impose_at / impose_as
PINV = [0.0, 1.0, -99.0, 0.5, 2.5, 7.0, -2.0]
OFFS = [None, 0, 0, 1, 10, 0.5, -2, 2.5]


@st.composite
def at_cases(draw):
    n = draw(st.integers(1, 8))
    ints = draw(st.integers(0, 5)) == 0
    idx = draw(index_specs(n, kinds=('tuple', 'tuple', 'tuple', 'tuple-oor', 'oor')))
    if isinstance(idx, int):
        idx = [idx]
    listy = draw(st.booleans())
    if listy:
        target = draw(st.lists(st.sampled_from(PINV), min_size=len(idx), max_size=len(idx)))
        container = draw(st.sampled_from(['list', 'tuple']))
    else:
        target = draw(st.sampled_from(PINV))
        container = draw(st.sampled_from(['list', 'tuple', 'set']))
    if ints:
        x = draw(st.lists(st.integers(-3, 9), min_size=n, max_size=n))
    else:
        x = draw(vecs(n, PINV + [1.0, 1.0], -20, 20))
    return dict(dec='impose_at', x=x, arr=draw(st.booleans()), ints=ints, index=idx, container=container,
                target=target)


def run_at(case, ctx):
    import mystic.constraints as C
    x0 = mkx(case); xs = fl(x0); n = len(xs)
    idx = list(case['index'])
    r = resolve(idx, n)
    tgt = case['target']
    listy = isinstance(tgt, list)
    want = {}
    for k, i in enumerate(idx):
        if -n <= i < n:
            want[i % n] = float(tgt[k] if listy else tgt)
    ctx.label('dec:impose_at', 'target:list' if listy else 'target:scalar', 'index-as:' + case['container'])
    index_labels(ctx, idx, r, n)
    input_labels(ctx, case)
    iarg = {'list': list, 'tuple': tuple, 'set': set}[case['container']](idx)
    targ = [float(t) for t in tgt] if listy else float(tgt)
    fn = C.impose_at(iarg, targ)(ident)
    base = lambda: dict(decorator='impose_at', x=xs, index=idx, target=tgt, out_of_range_in_index=r['oor'],
                        int_input=bool(case['ints']))
    try:
        out = call(ctx, fn, x0)
    except ValueError as e:
        # documented: indices beyond the end are dropped (together with their targets)
        ctx.expect(False, 'C16.at_pinned', lambda: dict(base(), error=str(e)[:200]))
        return
    same_len(ctx, out, n, 'impose_at')
    o = fl(out)
    moved = False
    for p in range(n):
        if p in want:
            if xs[p] != want[p]:
                moved = True
            ctx.expect(o[p] == want[p], 'C16.at_pinned', lambda: dict(base(), pos=p, got=o[p], expected=want[p]))
        else:
            ctx.expect(same(o[p], xs[p]), 'C16.at_unselected', lambda: dict(base(), pos=p, got=o[p]))
    if not moved:
        ctx.label('all-selected-conforming')
    again = call(ctx, fn, out)
    ctx.expect(veq(fl(again), o), 'C16.at_idem', lambda: dict(base(), once=o, twice=fl(again)))
    ctx.nontrivial(moved and len(want) < n)


@st.composite
def as_cases(draw):
    n = draw(st.integers(1, 8))
    perm = list(draw(st.permutations(list(range(n)))))
    pairs = []
    for k in range(1, n):
        if draw(st.integers(0, 2)) > 0:
            pairs.append([perm[draw(st.integers(0, k - 1))], perm[k]])
    oor = draw(st.sampled_from(['no', 'no', 'no', 'target', 'source']))
    if oor == 'target':
        pairs.append([draw(st.integers(0, n - 1)), n + draw(st.integers(0, 2))])
    elif oor == 'source':
        pairs.append([n + draw(st.integers(0, 2)), draw(st.integers(0, n - 1))])
    pairs = [list(p) for p in draw(st.permutations(pairs))]
    ints = draw(st.integers(0, 5)) == 0
    arr = draw(st.booleans()) and not ints
    if ints:
        x = draw(st.lists(st.integers(-3, 9), min_size=n, max_size=n))
    else:
        x = draw(vecs(n, [10.0, 20.0, 30.0, 40.0, 0.0, 1.0, 1.0, -2.5], -20, 20))
    return dict(dec='impose_as', x=x, arr=arr, ints=ints, pairs=pairs,
                container=draw(st.sampled_from(['list', 'list', 'set'])), offset=draw(st.sampled_from(OFFS)))


def _as_model(pairs, n):
    """effective pairs, true components (union-find), depth of every node in the forest"""
    eff = [(i, j) for i, j in pairs if 0 <= i < n and 0 <= j < n]
    parent = list(range(n))

    def find(a):
        while parent[a] != a:
            a = parent[a]
        return a
    for i, j in eff:
        parent[find(i)] = find(j)
    comp = {}
    for v in set(v for p in eff for v in p):
        comp.setdefault(find(v), set()).add(v)
    up = dict((j, i) for i, j in eff)
    depth = {}
    for v in set(v for p in eff for v in p):
        d = 0; w = v
        while w in up:
            w = up[w]; d += 1
        depth[v] = d
    return eff, list(comp.values()), depth


def _greedy_groups(pairs):
    """what a single greedy pass over the pairs (no merging of groups) produces: {key: members}"""
    groups = {}
    for i, j in pairs:
        for k, v in groups.items():
            if i == k or i in v:
                v.add(j); break
            if j == k or j in v:
                v.add(i); break
        else:
            groups[i] = set((j,))
    return groups


def run_as(case, ctx):
    import mystic.constraints as C
    x0 = mkx(case); xs = fl(x0); n = len(xs)
    pairs = [tuple(p) for p in case['pairs']]
    off = case['offset']; offv = 0 if off is None else off
    eff, comps, depth = _as_model(pairs, n)
    ctx.label('dec:impose_as', 'offset:%s' % ('None' if off is None else ('0' if not off else 'nonzero')),
              'pairs-as:' + case['container'], 'pairs:%s' % min(len(pairs), 4))
    if len(eff) < len(pairs):
        ctx.label('pairs:with-out-of-range-member')
    if depth and max(depth.values()) >= 2:
        ctx.label('pairs:chain')
    input_labels(ctx, case)
    marg = set(pairs) if case['container'] == 'set' else list(pairs)
    fn = C.impose_as(marg, off)(ident) if off is not None or case['container'] == 'set' else C.impose_as(marg)(ident)
    out = call(ctx, fn, x0)
    same_len(ctx, out, n, 'impose_as')
    o = fl(out)
    base = lambda: dict(decorator='impose_as', x=xs, got=o, pairs=[list(p) for p in pairs], offset=off, n=n)
    for i, j in eff:
        ctx.expect(close(o[j], o[i] + offv, 1e-12, 1e-12), 'C16.as_tied', lambda: dict(base(), pair=[i, j]))
    touched = set(v for p in eff for v in p)
    for p in range(n):
        if p not in touched:
            ctx.expect(same(o[p], xs[p]), 'C16.as_unselected', lambda: dict(base(), pos=p))
    for comp in comps:
        for v in comp:
            b = o[v] - depth[v] * offv
            ctx.expect(any(close(b, xs[w], 1e-12, 1e-12) for w in comp), 'C16.as_source',
                       lambda: dict(base(), pos=v, component=sorted(comp), depth=depth[v]))
    again = call(ctx, fn, out)
    ctx.expect(vclose(fl(again), o, 1e-12, 1e-12), 'C16.as_idem', lambda: dict(base(), twice=fl(again)))
    moved = any(not close(xs[j], xs[i] + offv, 1e-12, 1e-12) for i, j in eff)
    ctx.nontrivial(moved and len(touched) < n)


# =========================================================================== stats
STATV = [0.0, 1.0, 2.0, 3.0, 4.0, 5.0, -1.0, 0.5, 10.0, -2.5]
TARGETS = [0.0, 1.0, 5.0, 2.5, 10.0, 1e-3, 0.25]


def _mean(v):
    return math.fsum(v) / len(v)


def _var(v):
    m = _mean(v)
    return math.fsum((a - m) ** 2 for a in v) / len(v)


def _spread(v):
    return max(v) - min(v)


def _stat(dec, v):
    if dec == 'with_mean':
        return _mean(v)
    if dec == 'with_variance':
        return _var(v)
    if dec == 'with_std':
        return math.sqrt(_var(v))
    if dec == 'with_spread':
        return _spread(v)
    return math.fsum(v)


@st.composite
def stats_cases(draw):
    dec = draw(st.sampled_from(['with_mean', 'with_variance', 'with_std', 'with_spread', 'normalized']))
    n = draw(st.integers(1 if dec in ('with_mean', 'normalized') else 2, 8))
    x = [float(v) for v in draw(vecs(n, STATV, -50, 50))]
    if dec in ('with_variance', 'with_std', 'with_spread'):
        # constructed precondition: the spread is not (numerically) degenerate
        if max(x) - min(x) < 1e-3 * max(1.0, max(abs(v) for v in x)):
            x[-1] = x[0] + 1.0 + abs(x[0]) * 0.5
    if dec == 'normalized':
        if draw(st.booleans()):
            x = [abs(v) for v in x]                       # weights
        s = sum(x); a = sum(abs(v) for v in x)
        if abs(s) < 0.1 * a or a == 0.0:                  # constructed precondition: the sum is away from 0
            x[0] = x[0] + a + 1.0
    tk = draw(st.sampled_from(['pool', 'pool', 'float', 'conforming']))
    if tk == 'conforming':
        target = _stat(dec, x)
    elif tk == 'pool':
        target = draw(st.sampled_from(TARGETS))
    else:
        target = draw(finite_floats(0.01, 30.0))
    if dec in ('with_mean', 'normalized') and tk != 'conforming' and draw(st.booleans()):
        target = -target
    return dict(dec=dec, x=x, arr=draw(st.booleans()), target=target, conforming=(tk == 'conforming'))


def run_stats(case, ctx):
    import mystic.constraints as C
    dec = case['dec']
    x0 = mkx(case); xs = fl(x0); n = len(xs)
    target = float(F(case['target']))
    fn = getattr(C, dec)(target)(ident)
    ctx.label('dec:' + dec, 'target:%s' % ('conforming' if case['conforming'] else ('0' if target == 0 else 'other')))
    input_labels(ctx, case)
    out = call(ctx, fn, x0)
    same_len(ctx, out, n, dec)
    o = fl(out)
    mag = max([abs(v) for v in xs] + [1.0])
    scale = {'with_mean': mag, 'normalized': mag * n, 'with_spread': mag, 'with_std': mag}.get(dec, mag * mag)
    scale = max(scale, abs(target))
    before = _stat(dec, xs); got = _stat(dec, o)
    base = lambda: dict(decorator=dec, x=xs, got=o, target=target, statistic_before=before, statistic_after=got)
    ctx.expect(all(math.isfinite(v) for v in o), 'C16.stat_finite', base)
    ctx.expect(close(got, target, 1e-7, 1e-12 * scale), 'C16.stat_reached', base)
    if close(before, target, 1e-9, 1e-12 * scale):
        # (the gate sums naively, so a statistic that is 0 only in exact arithmetic may still be 'imposed': compare
        # with a rounding-level tolerance instead of bit equality)
        ctx.label('input-conforming')
        ctx.expect(vclose(o, xs, 1e-12, 1e-12 * mag), 'C16.stat_conforming', base)
    # documented invariants of the underlying impose_* (Notes sections)
    if dec == 'with_mean':
        ctx.expect(close(_spread(o), _spread(xs), 1e-9, 1e-9 * mag) and close(_var(o), _var(xs), 1e-9, 1e-9 * mag * mag),
                   'C16.stat_preserved', lambda: dict(base(), what='with_mean keeps range and variance'))
    elif dec in ('with_variance', 'with_std', 'with_spread'):
        ctx.expect(close(_mean(o), _mean(xs), 1e-9, 1e-9 * max(mag, math.sqrt(abs(target)) if dec == 'with_variance' else abs(target))),
                   'C16.stat_preserved', lambda: dict(base(), what=dec + ' keeps the mean'))
    again = call(ctx, fn, out)
    ctx.expect(vclose(fl(again), o, 1e-7, 1e-12 * max(mag, scale)), 'C16.stat_idem', lambda: dict(base(), twice=fl(again)))
    ctx.nontrivial(not close(before, target, 1e-7, 1e-12 * scale))


# =========================================================================== rewrite: masked / partial / synchronized / clipped / suppressed
RWV = [0.0, 1.0, 2.0, 3.0, -1.0, 10.0, -5.0, 9.0, 0.5]
TOLS = [1e-8, 1e-3, 0.5, 1.0]


@st.composite
def rewrite_cases(draw):
    dec = draw(st.sampled_from(['masked', 'partial', 'synchronized', 'synchronized', 'clipped', 'suppressed']))
    case = dict(dec=dec, arr=draw(st.booleans()))
    if dec == 'masked':
        n = draw(st.integers(0, 6))
        m = draw(st.integers(0, 4))
        keys = sorted(list(draw(st.permutations(list(range(n + m)))))[:m])
        keys = list(draw(st.permutations(keys)))
        bad = draw(st.sampled_from(['no', 'no', 'no', 'no', 'beyond', 'negative']))
        if bad == 'beyond':
            keys.append(n + len(keys) + 1 + draw(st.integers(0, 2)))
        elif bad == 'negative':
            keys.append(-1 - draw(st.integers(0, 2)))
        mask = [[k, draw(st.sampled_from(RWV))] for k in keys]
        case.update(mask=(None if (not mask and draw(st.booleans())) else mask), bad=bad,
                    x=draw(vecs(n, RWV, -20, 20)))
        return case
    n = draw(st.integers(1, 8))
    if dec == 'partial':
        idx = draw(index_specs(n, kinds=('tuple', 'tuple', 'tuple-oor', 'oor')))
        idx = [idx] if isinstance(idx, int) else list(idx)
        if draw(st.integers(0, 3)) == 0:
            idx.append(-n - 1 - draw(st.integers(0, 2)))
        case.update(mask=[[k, draw(st.sampled_from(RWV))] for k in idx], x=draw(vecs(n, RWV, -20, 20)))
    elif dec == 'synchronized':
        perm = list(draw(st.permutations(list(range(n)))))
        a = draw(st.integers(1, max(1, n - 1)))
        keys, pool = perm[:a], perm[a:]
        mask = []
        for k in keys:
            if pool and draw(st.integers(0, 4)) > 0:
                j = draw(st.sampled_from(pool))
                if draw(st.integers(0, 3)) == 0:
                    j = j - n
            else:
                j = n + draw(st.integers(0, 2))
            kk = (k - n) if draw(st.integers(0, 3)) == 0 else k
            form = draw(st.sampled_from(['plain', 'plain', 'const', 'neg', 'square']))
            if form == 'plain':
                mask.append([kk, j])
            elif form == 'const':
                mask.append([kk, [j, draw(st.sampled_from([2.5, -1, 2, 0.5]))]])
            else:
                mask.append([kk, [j, form]])
        if draw(st.integers(0, 3)) == 0:
            mask.append([n + draw(st.integers(0, 2)), draw(st.integers(0, n - 1)) if not pool else draw(st.sampled_from(pool))])
        mask = [list(m) for m in draw(st.permutations(mask))]
        case.update(mask=mask, x=draw(vecs(n, RWV, -20, 20)))
    elif dec == 'clipped':
        lo, hi = sorted([draw(val(RWV, -20, 20)), draw(val(RWV, -20, 20))])
        side = draw(st.sampled_from(['both', 'both', 'min', 'max', 'none']))
        case.update(min=lo if side in ('both', 'min') else None, max=hi if side in ('both', 'max') else None,
                    exit=draw(st.booleans()), x=draw(vecs(n, RWV + [lo, hi, lo, hi], -25, 25)))
    else:
        tol = draw(st.sampled_from(TOLS))
        pool = [tol, -tol, tol / 2, -tol / 2, tol * 0.999, tol * 2, 0.0, 1.0, -3.0, 5.0]
        case.update(tol=tol, exit=draw(st.booleans()), clip=draw(st.booleans()), x=draw(vecs(n, pool, -3 * tol, 3 * tol)))
    return case


_SYNC_F = {'neg': (lambda v: -v), 'square': (lambda v: v * v)}


def run_rewrite(case, ctx):
    import mystic.tools as T
    dec = case['dec']
    x0 = mkx(case); xs = fl(x0); n = len(xs)
    ctx.label('dec:' + dec)
    input_labels(ctx, case)
    base = lambda: dict(decorator=dec, x=xs, ndarray=bool(case['arr']),
                        params={k: case[k] for k in ('mask', 'min', 'max', 'exit', 'tol', 'clip') if k in case})
    if dec == 'masked':
        mask = None if case['mask'] is None else dict((k, float(v)) for k, v in case['mask'])
        fn = T.masked(mask)(ident)
        if case['bad'] != 'no':
            ctx.label('masked:key-%s' % case['bad'])
            try:
                out = call(ctx, fn, x0)
                raised = False
            except KeyError:
                raised = True
            ctx.expect(raised, 'C16.masked_badkey', lambda: dict(base(), note='a key outside the result must raise KeyError'))
            return
        mask = mask or {}
        ctx.label('masked:%s-inserted' % min(len(mask), 2))
        out = call(ctx, fn, x0)
        same_len(ctx, out, n + len(mask), 'masked')
        o = fl(out)
        ctx.expect(all(o[k] == v for k, v in mask.items()), 'C16.masked_inserted', lambda: dict(base(), got=o))
        rest = [o[k] for k in range(len(o)) if k not in mask]
        ctx.expect(veq(rest, xs), 'C16.masked_others', lambda: dict(base(), got=o, remaining=rest))
        ctx.nontrivial(len(mask) > 0 and n > 0)
        return
    if dec == 'partial':
        mask = dict((k, float(v)) for k, v in case['mask'])
        want = dict((k % n, v) for k, v in mask.items() if -n <= k < n)
        if any(not (-n <= k < n) for k in mask):
            ctx.label('index:out-of-range')
        if any(-n <= k < 0 for k in mask):
            ctx.label('index:negative')
        fn = T.partial(mask)(ident)
        out = call(ctx, fn, x0)
        same_len(ctx, out, n, dec)
        o = fl(out)
        for p in range(n):
            if p in want:
                ctx.expect(o[p] == want[p], 'C16.partial_fixed', lambda: dict(base(), got=o, pos=p))
            else:
                ctx.expect(same(o[p], xs[p]), 'C16.partial_others', lambda: dict(base(), got=o, pos=p))
        again = call(ctx, fn, out)
        ctx.expect(veq(fl(again), o), 'C16.rewrite_idem', lambda: dict(base(), once=o, twice=fl(again)))
        ctx.nontrivial(any(xs[p] != v for p, v in want.items()) and len(want) < n)
        return
    if dec == 'synchronized':
        mask = {}; want = {}
        for k, spec in case['mask']:
            if isinstance(spec, list):
                j, g = spec
                gfun = _SYNC_F[g] if isinstance(g, str) else (lambda v, c=g: c * v)
                mask[k] = (j, _SYNC_F[g] if isinstance(g, str) else g)
                ctx.label('sync:callable' if isinstance(g, str) else 'sync:constant')
            else:
                j = spec; gfun = (lambda v: v)
                mask[k] = j
                ctx.label('sync:plain')
            if -n <= k < n and -n <= j < n:
                want[k % n] = (gfun(xs[j % n]), isinstance(spec, list))
            else:
                ctx.label('index:out-of-range')
            if k < 0 or j < 0:
                ctx.label('index:negative')
        fn = T.synchronized(mask)(ident)
        out = call(ctx, fn, x0)
        same_len(ctx, out, n, dec)
        o = fl(out)
        for p in range(n):
            if p in want:
                ctx.expect(o[p] == want[p][0], 'C16.sync_tied',
                           lambda: dict(base(), got=o, pos=p, expected=want[p][0], tuple_spec=want[p][1]))
            else:
                ctx.expect(same(o[p], xs[p]), 'C16.sync_others', lambda: dict(base(), got=o, pos=p))
        again = call(ctx, fn, out)
        ctx.expect(veq(fl(again), o), 'C16.rewrite_idem', lambda: dict(base(), once=o, twice=fl(again)))
        ctx.nontrivial(any(xs[p] != v[0] for p, v in want.items()) and len(want) < n)
        return
    if dec == 'clipped':
        lo = case['min']; hi = case['max']
        fn = T.clipped(None if lo is None else float(lo), None if hi is None else float(hi), exit=case['exit'])(ident)
        ctx.label('clipped:%s%s' % ('min' if lo is not None else '', 'max' if hi is not None else ''),
                  'exit' if case['exit'] else 'entry')
        out = call(ctx, fn, x0)
        same_len(ctx, out, n, dec)
        o = fl(out)
        moved = False
        for p in range(n):
            e = xs[p]
            if lo is not None and e < lo:
                e = float(lo)
            if hi is not None and e > hi:
                e = float(hi)
            moved = moved or e != xs[p]
            ctx.expect(same(o[p], e), 'C16.clipped', lambda: dict(base(), got=o, pos=p, expected=e))
        again = call(ctx, fn, out)
        ctx.expect(veq(fl(again), o), 'C16.rewrite_idem', lambda: dict(base(), once=o, twice=fl(again)))
        ctx.nontrivial(moved and any(o[p] == xs[p] for p in range(n)))
        return
    # suppressed
    tol = float(case['tol'])
    fn = T.suppressed(tol, exit=case['exit'], clip=case['clip'])(ident)
    ctx.label('suppressed:%s' % ('clip' if case['clip'] else 'spread'), 'exit' if case['exit'] else 'entry')
    out = call(ctx, fn, x0)
    same_len(ctx, out, n, dec)
    o = fl(out)
    small = [p for p in range(n) if abs(xs[p]) < tol]
    if any(abs(v) == tol for v in xs):
        ctx.label('entry:exactly-at-tol')
    for p in small:
        ctx.expect(o[p] == 0.0, 'C16.suppressed_zeroed', lambda: dict(base(), got=o, pos=p))
    big = [p for p in range(n) if p not in small]
    if case['clip'] or not small:
        for p in big:
            ctx.expect(same(o[p], xs[p]), 'C16.suppressed_others', lambda: dict(base(), got=o, pos=p))
        again = call(ctx, fn, out)
        ctx.expect(veq(fl(again), o), 'C16.rewrite_idem', lambda: dict(base(), once=o, twice=fl(again)))
    elif big:
        # clip=False: the suppressed mass is spread evenly over the remaining entries, the sum is kept
        share = math.fsum(xs[p] for p in small) / len(big)
        for p in big:
            ctx.expect(close(o[p], xs[p] + share, 1e-12, 1e-15), 'C16.suppressed_others',
                       lambda: dict(base(), got=o, pos=p, expected=xs[p] + share))
        ctx.expect(close(math.fsum(o), math.fsum(xs), 1e-12, 1e-12 * max(1.0, max(abs(v) for v in xs))),
                   'C16.suppressed_sum', lambda: dict(base(), got=o))
    else:
        ctx.label('suppressed:everything-small')
    ctx.nontrivial(bool(small) and bool(big))


# =========================================================================== tests
# libFuzzer executions per shard and @given test of the coverage-guided extra of the thorough tier (vp/fuzz.py)
FUZZ = 2000

TESTS = [
    Test('bounds', run_bounds, strategy=lambda tier: bounds_cases(), examples={'quick': 4000, 'thorough': 200000}),
    Test('snap', run_snap, strategy=lambda tier: snap_cases(), examples={'quick': 4000, 'thorough': 200000}),
    Test('unique', run_unique, strategy=lambda tier: unique_cases(), examples={'quick': 2500, 'thorough': 120000}),
    Test('order', run_order, strategy=lambda tier: order_cases(), examples={'quick': 3000, 'thorough': 150000}),
    Test('at', run_at, strategy=lambda tier: at_cases(), examples={'quick': 2500, 'thorough': 120000}),
    Test('as', run_as, strategy=lambda tier: as_cases(), examples={'quick': 3000, 'thorough': 150000}),
    Test('stats', run_stats, strategy=lambda tier: stats_cases(), examples={'quick': 3000, 'thorough': 150000}),
    Test('rewrite', run_rewrite, strategy=lambda tier: rewrite_cases(), examples={'quick': 4000, 'thorough': 200000}),
]


# =========================================================================== known findings (narrow predicates)
def _d(detail, k, default=None):
    return detail.get(k, default) if isinstance(detail, dict) else default


def _trunc_eq(got, x):
    try:
        return float(got) == float(int(x))
    except Exception:
        return False


def _int_arg(case):
    ia = case.get('ints_arg')
    return ia is True or ia == 'int'


def k_f11a(case, sub, d):
    """an out-of-range entry in index= switches the whole selection off (discrete/integers/rounded/precision)"""
    if case.get('dec') not in ('discrete', 'integers', 'rounded', 'precision'):
        return False
    if sub not in ('C16.snap_member', 'C16.snap_nearest') or not _d(d, 'out_of_range_in_index') or not _d(d, 'selected'):
        return False
    got, x = _d(d, 'got'), _d(d, 'x')
    return got == x or (case.get('dec') == 'integers' and _int_arg(case) and _trunc_eq(got, x))


def k_f11b(case, sub, d):
    """integers(ints=True, index=...) casts the whole vector: unselected entries are truncated"""
    return (case.get('dec') == 'integers' and _int_arg(case) and case.get('index') is not None
            and sub == 'C16.snap_unselected' and _trunc_eq(_d(d, 'got'), _d(d, 'x')))


def k_bounds_negative(case, sub, d):
    """impose_bounds ignores a negative index / dict key (intersect1d against non-negative positions)"""
    return (sub in ('C16.bounds_clipped', 'C16.bounds_nearest', 'C16.bounds_member') and bool(_d(d, 'via_negative'))
            and _d(d, 'got') == _d(d, 'x'))


def k_bounds_nearest(case, sub, d):
    """clip=True, nearest=True with several intervals: lower and upper limit are picked independently, so a
    point in a gap can be sent to the far side of the gap"""
    return (sub == 'C16.bounds_nearest' and _d(d, 'clip') and _d(d, 'nearest') and _d(d, 'in_gap')
            and len(_d(d, 'intervals', [])) > 1 and _d(d, 'got') in _d(d, 'ends', []))


def k_bounds_int(case, sub, d):
    """int-typed input: the clipped/random value is written into an int array and truncated"""
    if not case.get('ints') or 'form' not in case:
        return False
    if sub == 'C16.bounds_idem':            # the truncated value is outside again, so the second pass moves it again
        return all(float(v).is_integer() for v in _d(d, 'once', []))
    got = _d(d, 'got')
    return (sub in ('C16.bounds_clipped', 'C16.bounds_nearest', 'C16.bounds_member')
            and got is not None and float(got).is_integer())


def k_at_shape(case, sub, d):
    """impose_at with a list of targets and an index beyond the end: ValueError instead of dropping the pair"""
    return (case.get('dec') == 'impose_at' and sub == 'C16.at_pinned' and isinstance(case.get('target'), list)
            and bool(_d(d, 'out_of_range_in_index')) and 'error' in (d or {}))


def k_at_int(case, sub, d):
    """impose_at on int-typed input truncates a fractional target"""
    return (case.get('dec') == 'impose_at' and bool(case.get('ints')) and sub == 'C16.at_pinned'
            and 'error' not in (d or {}) and _trunc_eq(_d(d, 'got'), _d(d, 'expected')))


def _as_info(case):
    n = len(case['x'])
    pairs = [tuple(p) for p in case['pairs']]
    if case.get('container') == 'set':
        pairs = list(set(pairs))                # the iteration order the code sees
    eff, comps, depth = _as_model(pairs, n)
    groups = _greedy_groups(pairs)
    split = False
    for comp in comps:
        holders = [k for k, v in groups.items() if (set([k]) | v) & comp]
        if len(holders) > 1:
            split = True
    oor_source = any(not (0 <= i < n) and 0 <= j < n for i, j in pairs)
    nonroot_key = any(depth.get(k, 0) > 0 for k in groups)
    return dict(split=split, oor_source=oor_source, nonroot_key=nonroot_key)


def k_as_split(case, sub, d):
    """tools.connected never merges two groups, so a chain given in an unlucky order is not tied"""
    return (case.get('dec') == 'impose_as' and sub in ('C16.as_tied', 'C16.as_source', 'C16.as_idem')
            and _as_info(case)['split'])


def k_as_oor_source(case, sub, d):
    """a pair whose first member is beyond the end still shifts / disables its in-range partners"""
    return (case.get('dec') == 'impose_as' and sub in ('C16.as_tied', 'C16.as_unselected', 'C16.as_source', 'C16.as_idem')
            and _as_info(case)['oor_source'])


def k_as_idem(case, sub, d):
    """offset != 0: a conforming vector is shifted again when the group key is not the root of its chain"""
    return (case.get('dec') == 'impose_as' and sub == 'C16.as_idem' and bool(case.get('offset'))
            and _as_info(case)['nonroot_key'])


def k_unique_max(case, sub, d):
    """unique(full={'min','max','type':int}) hands out max itself, which its own validation rejects"""
    full = case.get('full', {})
    if full.get('kind') != 'dict' or full.get('type') != 'int':
        return False
    if sub == 'C16.unique_member':
        return _d(d, 'value') == full['max']
    if sub == 'C16.unique_stable':
        return 'error' in (d or {}) and full['max'] in _d(d, 'once', [])
    return False


def k_unique_type(case, sub, d):
    """unique deletes the 'type' key from the caller's dict: the second call fills with floats"""
    full = case.get('full', {})
    if full.get('kind') != 'dict' or full.get('type') != 'int' or not _d(d, 'second_call'):
        return False
    if sub == 'C16.unique_member':
        v = _d(d, 'value')
        return v is not None and (not float(v).is_integer() or v == full['max'])
    return False


def k_sync_array(case, sub, d):
    """synchronized with a (index, scale) spec on an ndarray: x[(j, f)] raises IndexError, which is swallowed"""
    return (case.get('dec') == 'synchronized' and bool(case.get('arr')) and sub == 'C16.sync_tied'
            and bool(_d(d, 'tuple_spec')) and _d(d, 'got', [None])[_d(d, 'pos', 0)] == _d(d, 'x', [None])[_d(d, 'pos', 0)])


def k_unique_float_collision(case, sub, d):
    """unique(x, float): duplicates are replaced by independent uniform draws from [min(x), max(x)] that are never
    checked against each other (the code says so: 'HIGHLY UNLIKELY two numbers will be the same, but possible'); when the
    range holds only a few dozen representable floats the draws collide"""
    kind = (case.get('full') or {}).get('kind')
    if sub not in ('C16.unique_distinct', 'C16.unique_stable') or not (kind == 'float' or (kind == 'none' and not case.get('ints'))):
        return False        # (full=None with float input takes the same float-draw path; a result with a collision is
                            #  changed again by a second application)
    xs = [float(v) for v in case.get('x', [])]
    return bool(xs) and (max(xs) - min(xs)) <= 1e-10 * max(1.0, max(abs(v) for v in xs))


KNOWN = {
    'F53-unique-float-draws-not-checked-for-collision': k_unique_float_collision,
    # (the defects F11a, negative index in impose_bounds, impose_at list targets, impose_unique deleting the caller's
    #  'type' key and synchronized with ndarray input were repaired in /repo: their predicates are no longer active)
    'F11b-ints-casts-unselected': k_f11b,
    'F31-impose_bounds-nearest-picks-far-end-in-gap': k_bounds_nearest,
    'F32-impose_bounds-int-input-truncated': k_bounds_int,
    'F33-impose_at-int-input-truncates-target': k_at_int,
    'F35-impose_as-out-of-range-first-member': k_as_oor_source,
    'F36-impose_as-offset-reapplied-to-conforming-input': k_as_idem,
    'F37-unique-dict-int-hands-out-max': k_unique_max,
}
