"""C10 - termination conditions mean what they say, alone and in combination.

Fake solver states (plain namespaces: the conditions only *read* attributes)
are generated together with And/Or/When trees over the built-in primitives.
Oracle: each primitive's documented inequality evaluated directly (three-valued:
None = the documentation does not decide the case, e.g. inf-inf); compounds by
recursive all/any; info strings name only satisfied leaves; a leaf rebuilt from
``type(p)(**state(p)[doc])`` behaves identically.
"""
import math, types
import numpy as np
from hypothesis import strategies as st
from vp.runner import Test
from vp.util import F, FL, pool_or_float, finite_floats

PROP = 'C10'
RULE = ("fake solver states (energy history of length 0-12 from a small value pool incl. +-inf and "
        "arbitrary floats; population/energies; counters; flags) x And/Or/When trees (depth<=4) over the 11 "
        "built-in primitives, with tolerances incl. 0 and exact-boundary values and windows incl. 0/None/longer "
        "than the history. Non-trivial: history length >= 2 with some window inside it, and (tree test) >= 2 "
        "leaves of mixed truth; distinct by canonical JSON of the case.")
ASSUME = ["TimeLimits is only exercised at its deterministic extremes (0 s / 1e9 s)",
          "cases the documented inequality does not decide (inf-inf, nan) are excluded from the leaf oracle and counted",
          "Collapse* conditions are the subject of C11"]

VALS = [0.0, 1.0, -1.0, 0.5, 2.0, 5.0, 1e-6, 1.000001, 0.999999, 4.999999, 1e-3, 3.0, -2.5, 100.0]
TOLS = [0.0, 1e-6, 1e-3, 0.005, 0.5, 1.0, 2.0, 1e-20, 10.0]
WINDOWS = [0, 1, 2, 3, 5, 13, 30, None]


# --------------------------------------------------------------------------- generators
@st.composite
def states(draw):
    n = draw(st.integers(0, 12))
    kind = draw(st.sampled_from(['pool', 'pool', 'mono', 'plateau', 'inf']))
    special = ('inf', '-inf') if kind == 'inf' else ()
    hist = draw(st.lists(pool_or_float(VALS, -10, 10, special), min_size=n, max_size=n))
    if kind == 'mono':
        hist = sorted(hist, key=F, reverse=True)
    elif kind == 'plateau' and hist:
        k = draw(st.integers(0, len(hist)))
        hist = hist[:k] + [hist[k - 1] if k else hist[0]] * (len(hist) - k)
    dim = draw(st.integers(1, 3))
    npop = draw(st.integers(2, 4))
    base = draw(st.lists(pool_or_float(VALS, -5, 5), min_size=dim, max_size=dim))
    pop = [base]
    for _ in range(npop - 1):
        mode = draw(st.sampled_from(['same', 'near', 'free']))
        if mode == 'same':
            pop.append(list(base))
        elif mode == 'near':
            d = draw(st.sampled_from([1e-6, 1e-4, 5e-5, 1e-3, 0.0, -1e-4]))
            pop.append([F(b) + d for b in base])
        else:
            pop.append(draw(st.lists(pool_or_float(VALS, -5, 5), min_size=dim, max_size=dim)))
    e0 = draw(pool_or_float(VALS, -5, 5))
    popE = [e0]
    for _ in range(npop - 1):
        popE.append(draw(st.one_of(st.just(e0), st.sampled_from([F(e0) + 1e-4, F(e0) + 1e-5, F(e0) + 1.0, 'inf']),
                                   pool_or_float(VALS, -5, 5))))
    best = draw(st.one_of(st.just(base), st.lists(pool_or_float(VALS, -5, 5), min_size=dim, max_size=dim)))
    tkind = draw(st.sampled_from(['vec', 'vec', 'mat']))
    if tkind == 'vec':
        trial = draw(st.one_of(st.just(best), st.just([F(b) + 1e-6 for b in best]),
                               st.lists(pool_or_float(VALS, -5, 5), min_size=dim, max_size=dim)))
    else:
        trial = [draw(st.one_of(st.just(best), st.just([F(b) + 1e-6 for b in best]),
                                st.lists(pool_or_float(VALS, -5, 5), min_size=dim, max_size=dim)))
                 for _ in range(npop)]
    gens = draw(st.integers(0, 12))
    fcalls = draw(st.integers(0, 60))
    grad = draw(st.one_of(st.none(), st.lists(st.lists(pool_or_float([0.0, 1e-5, 1e-6, 1.0, -1.0, 3.0, 4.0], -5, 5),
                                                       min_size=dim, max_size=dim), min_size=1, max_size=2)))
    lin = draw(st.lists(st.sampled_from([0.0, 1.0, -2.0, 0.5, 1e-5, 3.0, 4.0]), min_size=dim, max_size=dim))
    return dict(hist=hist, pop=pop, popE=popE, best=best, trial=trial, gens=gens, fcalls=fcalls,
                exit=draw(st.booleans()), grad=grad, lin=lin)


def _hist_diff(stt, g):
    h = FL(stt['hist'])
    if g is None:
        g = 0
    if len(h) > g and len(h) > 0:
        d = h[-g] - h[-1]
        if math.isfinite(d):
            return d
    return None


@st.composite
def leaves(draw, stt):
    name = draw(st.sampled_from(['VTR', 'ChangeOverGeneration', 'NormalizedChangeOverGeneration',
                                 'CandidateRelativeTolerance', 'SolutionImprovement', 'NormalizedCostTarget',
                                 'VTRChangeOverGeneration', 'PopulationSpread', 'EvaluationLimits',
                                 'SolverInterrupt', 'GradientNormTolerance', 'TimeLimits']))
    tol = lambda: draw(st.one_of(st.sampled_from(TOLS), st.floats(0, 3, allow_nan=False)))
    win = lambda: draw(st.sampled_from(WINDOWS))
    h = FL(stt['hist'])
    if name == 'VTR':
        target = draw(pool_or_float(VALS, -5, 5))
        t = tol()
        if h and math.isfinite(h[-1]) and draw(st.booleans()):
            t = abs(h[-1] - F(target))          # exactly on the boundary
        return ['leaf', name, dict(tolerance=t, target=target)]
    if name == 'ChangeOverGeneration':
        g = win(); t = tol()
        d = _hist_diff(stt, g)
        if d is not None and draw(st.booleans()):
            t = d
        return ['leaf', name, dict(tolerance=t, generations=g)]
    if name == 'NormalizedChangeOverGeneration':
        return ['leaf', name, dict(tolerance=tol(), generations=win())]
    if name == 'CandidateRelativeTolerance':
        return ['leaf', name, dict(xtol=tol(), ftol=tol())]
    if name == 'SolutionImprovement':
        return ['leaf', name, dict(tolerance=tol())]
    if name == 'NormalizedCostTarget':
        fval = draw(st.one_of(st.none(), pool_or_float(VALS, -5, 5)))
        return ['leaf', name, dict(fval=fval, tolerance=tol(), generations=win())]
    if name == 'VTRChangeOverGeneration':
        g = win(); gt = tol()
        d = _hist_diff(stt, g)
        if d is not None and draw(st.booleans()):
            gt = d
        return ['leaf', name, dict(ftol=tol(), gtol=gt, generations=g, target=draw(pool_or_float(VALS, -5, 5)))]
    if name == 'PopulationSpread':
        return ['leaf', name, dict(tolerance=tol())]
    if name == 'EvaluationLimits':
        g = draw(st.one_of(st.none(), st.integers(0, 13), st.just(stt['gens'])))
        e = draw(st.one_of(st.none(), st.integers(0, 61), st.just(stt['fcalls'])))
        return ['leaf', name, dict(generations=g, evaluations=e)]
    if name == 'SolverInterrupt':
        return ['leaf', name, {}]
    if name == 'GradientNormTolerance':
        return ['leaf', name, dict(tolerance=draw(st.sampled_from([0.0, 1e-5, 1e-6, 1.0, 5.0, 4.0, 3.0, 7.0])),
                                   norm=draw(st.sampled_from(['inf', 1, 2, 3])))]
    return ['leaf', 'TimeLimits', dict(seconds=draw(st.sampled_from([0, 1e9])), system=draw(st.sampled_from([None, True, False])))]


def trees(stt, max_leaves):
    leaf = leaves(stt)
    return st.recursive(
        leaf,
        lambda ch: st.one_of(
            st.lists(ch, min_size=1, max_size=3).map(lambda l: ['And'] + l),
            st.lists(ch, min_size=1, max_size=3).map(lambda l: ['Or'] + l),
            ch.map(lambda c: ['When', c])),
        max_leaves=max_leaves)


@st.composite
def leaf_cases(draw):
    stt = draw(states())
    c = dict(state=stt, tree=draw(leaves(stt)))
    if draw(st.integers(0, 2)) == 0:
        c['other'] = draw(other_state(stt))
    return c


@st.composite
def other_state(draw, stt):
    """a second solver state the same condition object is asked about in between: same population and best
    solution, another objective, history and counters"""
    dim = len(stt['best'])
    o = dict(stt)
    o['lin'] = draw(st.lists(st.sampled_from([0.0, 1.0, -2.0, 0.5, 1e-5, 3.0, 4.0]), min_size=dim, max_size=dim))
    n = draw(st.integers(0, 12))
    o['hist'] = draw(st.lists(pool_or_float(VALS, -10, 10), min_size=n, max_size=n))
    if draw(st.booleans()):
        o['hist'] = sorted(o['hist'], key=F, reverse=True)
    o['gens'] = draw(st.integers(0, 12)); o['fcalls'] = draw(st.integers(0, 60)); o['exit'] = draw(st.booleans())
    if draw(st.booleans()):
        o['popE'] = [draw(pool_or_float(VALS, -5, 5)) for _ in stt['popE']]
    return o


@st.composite
def tree_cases(draw):
    stt = draw(states())
    c = dict(state=stt, tree=draw(trees(stt, 7)))
    if draw(st.integers(0, 3)) == 0:
        # the way a user writes it: a = VTR(...); b = ...; Or(Or(a, b), And(a, b)) - the same condition objects in two
        # sibling compounds (compounds are tuples: And(a, b) == Or(a, b))
        a = draw(leaves(stt)); b = draw(leaves(stt))
        k1, k2 = draw(st.sampled_from([('Or', 'And'), ('And', 'Or'), ('Or', 'And'), ('And', 'And')]))
        twin = [draw(st.sampled_from(['Or', 'And'])), [k1, a, b], [k2, a, b]]
        if draw(st.booleans()):
            twin = [draw(st.sampled_from(['Or', 'And'])), c['tree'], twin]
        c['tree'] = twin; c['share'] = True
    return c


# --------------------------------------------------------------------------- the code under test
def build_state(stt):
    s = types.SimpleNamespace()
    s.energy_history = FL(stt['hist'])
    s.population = [list(r) for r in FL(stt['pop'])]
    s.popEnergy = FL(stt['popE'])
    s.bestSolution = FL(stt['best'])
    s.trialSolution = FL(stt['trial'])
    s.generations = stt['gens']
    s._fcalls = [stt['fcalls']]
    s._EARLYEXIT = bool(stt['exit'])
    lin = np.array(FL(stt['lin']), float)
    s._cost = (None, (lambda x: float(np.dot(lin, np.asarray(x, float)))), None)
    if stt['grad'] is not None:
        s.gradient = [np.array(g, float) for g in FL(stt['grad'])]
    return s


def build_cond(tree, cache=None):
    """cache: a dict -> leaves with the same specification are one and the same object"""
    import mystic.termination as T
    kind = tree[0]
    if kind == 'leaf':
        key = repr(tree)
        if cache is not None and key in cache:
            return cache[key]
        kw = {k: (F(v) if not isinstance(v, (list, dict)) else v) for k, v in tree[2].items()}
        c = getattr(T, tree[1])(**kw)
        if cache is not None:
            cache[key] = c
        return c
    subs = [build_cond(t, cache) for t in tree[1:]]
    if kind == 'And':
        return T.And(*subs)
    if kind == 'Or':
        return T.Or(*subs)
    return T.When(subs[0])


# --------------------------------------------------------------------------- the oracle
def _le_band(lhs, rhs, slack):
    """three-valued lhs <= rhs: None inside the rounding band"""
    if lhs != lhs or rhs != rhs:
        return None
    if lhs <= rhs:
        return True
    if lhs <= rhs + slack:
        return None
    return False


def _window(h, g):
    """documented window rule: the history must be longer than g; cost[-g] by Python indexing"""
    g = 0 if g is None else int(g)
    if len(h) <= g:
        return None
    return h[-g], h[-1]


def _change(h, g, tol):
    w = _window(h, g)
    if w is None:
        return False
    a, b = w
    if a == b:                      # x - x = 0, also for +-inf (the code's tie clause)
        if math.isfinite(a) and tol < 0:
            return None             # a negative tolerance is outside the documented use ('change < tolerance'); the
                                    # code's tie clause and the inequality disagree there: not decided
        return True
    d = a - b
    if d != d:
        return None
    return d <= tol


def leaf_truth(name, kw, stt):
    """True / False / None (= not decided by the documentation)"""
    kw = {k: (F(v) if not isinstance(v, (list, dict)) else v) for k, v in kw.items()}
    h = FL(stt['hist'])
    if name == 'VTR':
        if not h: return False
        d = abs(h[-1] - kw['target'])
        return None if d != d else d <= kw['tolerance']
    if name == 'ChangeOverGeneration':
        if not h: return False
        return _change(h, kw['generations'], kw['tolerance'])
    if name == 'NormalizedChangeOverGeneration':
        if not h: return False
        w = _window(h, kw['generations'])
        if w is None: return False
        a, b = w
        if a == b: return True
        if not (math.isfinite(a) and math.isfinite(b)): return None
        # (a-b) / (0.5*(|a|+|b|)) <= tol, written without the division; the code adds eta=1e-20
        return _le_band(2.0 * (a - b), kw['tolerance'] * (abs(a) + abs(b)), 4e-20 + 1e-15 * (abs(a) + abs(b)))
    if name == 'CandidateRelativeTolerance':
        sim = np.array(FL(stt['pop']), float); fs = np.array(FL(stt['popE']), float)
        dx = np.abs(sim[1:] - sim[0]); df = np.abs(fs[0] - fs[1:])
        if np.isnan(dx).any() or np.isnan(df).any(): return None
        return bool(dx.max() <= kw['xtol'] and df.max() <= kw['ftol'])
    if name == 'SolutionImprovement':
        best = np.array(FL(stt['best']), float); trial = np.array(FL(stt['trial']), float)
        if trial.ndim == 1:
            return bool(np.sum(np.abs(best - trial)) <= kw['tolerance'])
        sums = [float(np.sum(np.abs(best - t))) for t in trial]
        if all(s <= kw['tolerance'] for s in sums): return True
        if all(s > kw['tolerance'] for s in sums): return False
        return bool(max(sums) <= kw['tolerance'])       # code's reading for a trial population: the worst trial
    if name == 'NormalizedCostTarget':
        if not h: return False
        g = kw['generations']; g = 0 if g is None else int(g)
        fval = kw['fval']
        if fval is None:
            if not g: return True
            w = _window(h, g)
            if w is None: return False
            a, b = w
            if a == b: return True
            d = a - b
            return None if d != d else d <= 0
        d = abs(h[-1] - fval)
        return None if d != d else d <= abs(kw['tolerance'] * fval)
    if name == 'VTRChangeOverGeneration':
        if not h: return False
        c = _change(h, kw['generations'], kw['gtol'])
        d = abs(h[-1] - kw['target'])
        v = None if d != d else d <= kw['ftol']
        if c is True or v is True: return True
        if c is None or v is None: return None
        return False
    if name == 'PopulationSpread':
        sim = np.array(FL(stt['pop']), float)
        return bool(np.all(np.abs(sim - sim[0]) <= np.abs(kw['tolerance'] * sim[0])))
    if name == 'EvaluationLimits':
        g = kw['generations']; e = kw['evaluations']
        return bool((e is not None and stt['fcalls'] >= e) or (g is not None and stt['gens'] >= g))
    if name == 'SolverInterrupt':
        return bool(stt['exit'])
    if name == 'GradientNormTolerance':
        if stt['grad'] is not None:
            grad = np.array(FL(stt['grad'])[-1], float); slack = 1e-12
        else:
            grad = np.array(FL(stt['lin']), float); slack = 1e-5   # forward difference of a linear cost
        p = kw['norm']
        if p == float('inf'):
            gn = float(np.max(np.abs(grad)))
        else:
            gn = float(np.sum(np.abs(grad) ** p) ** (1.0 / p))
        tol = kw['tolerance']
        if gn <= tol * (1 - slack) - slack: return True
        if gn > tol * (1 + slack) + slack: return False
        return None
    if name == 'TimeLimits':
        return kw['seconds'] == 0
    raise AssertionError(name)


def tree_truth(tree, stt, leafvals):
    """three-valued recursive all/any; also collects per-leaf oracle values"""
    if tree[0] == 'leaf':
        v = leaf_truth(tree[1], tree[2], stt)
        leafvals.append((tree, v))
        return v
    vals = [tree_truth(t, stt, leafvals) for t in tree[1:]]
    if tree[0] == 'Or':
        if any(v is True for v in vals): return True
        if any(v is None for v in vals): return None
        return False
    if any(v is False for v in vals): return False      # And / When
    if any(v is None for v in vals): return None
    return True


def _nontrivial_state(stt, leafvals):
    h = stt['hist']
    if len(h) < 2:
        return False
    for t, _ in leafvals:
        g = t[2].get('generations', 'x')
        if g != 'x' and g is not None and t[1] != 'EvaluationLimits' and 0 < g < len(h):
            return True
    return False


# --------------------------------------------------------------------------- checks
def run_leaf(case, ctx):
    import mystic.termination as T
    stt = case['state']; tree = case['tree']
    name = tree[1]
    s = build_state(stt)
    cond = build_cond(tree)
    want = leaf_truth(name, tree[2], stt)
    got = cond(s)
    info = cond(s, info=True)
    ctx.label('leaf:' + name)
    if want is None:
        ctx.exclude('undecided:' + name)
    else:
        ctx.label('truth:%s' % want)
        ctx.expect(bool(got) == want, 'C10.leaf',
                   lambda: dict(condition=cond.__doc__, expected=want, got=bool(got), hist=stt['hist']))
    ctx.expect(isinstance(info, str) and (bool(info) == bool(got)), 'C10.info_leaf',
               lambda: dict(condition=cond.__doc__, info=info, got=bool(got)))
    if info:
        ctx.expect(info == cond.__doc__, 'C10.info_leaf', lambda: dict(condition=cond.__doc__, info=info))
    if case.get('other') is not None:
        # the same condition object asked about another solver in between: every answer is about the
        # solver it is given (current history, population, counters, objective)
        ctx.label('asked-about-two-solvers')
        ostt = case['other']; s2 = build_state(ostt)
        want2 = leaf_truth(name, tree[2], ostt)
        got2 = cond(s2)
        if want2 is not None:
            ctx.expect(bool(got2) == want2, 'C10.leaf',
                       lambda: dict(condition=cond.__doc__, expected=want2, got=bool(got2), hist=ostt['hist'],
                                    note='second solver state, same condition object'))
        again = cond(s)
        ctx.expect(bool(again) == bool(got), 'C10.leaf',
                   lambda: dict(condition=cond.__doc__, first=bool(got), again=bool(again), hist=stt['hist'],
                                note='same state asked again after the condition was used on another solver'))
    # rebuild from the reported state
    stdict = T.state(cond)
    ctx.expect(list(stdict.keys()) == [cond.__doc__], 'C10.state', lambda: dict(keys=list(stdict), doc=cond.__doc__))
    if name != 'TimeLimits':
        rebuilt = T.type(cond)(**stdict[cond.__doc__])
        ctx.expect(bool(rebuilt(s)) == bool(got) and rebuilt(s, info=True) == info and rebuilt.__doc__ == cond.__doc__,
                   'C10.rebuild', lambda: dict(condition=cond.__doc__, rebuilt=rebuilt.__doc__,
                                               got=bool(got), regot=bool(rebuilt(s))))
    if _nontrivial_state(stt, [(tree, want)]) or (len(stt['hist']) >= 2 and name in ('VTR',)):
        ctx.nontrivial(want is not None)


def _leaves(tree, out):
    if tree[0] == 'leaf':
        out.append(tree)
    else:
        for t in tree[1:]:
            _leaves(t, out)
    return out


def run_tree(case, ctx):
    import mystic.termination as T
    stt = case['state']; tree = case['tree']
    s = build_state(stt)
    cond = build_cond(tree, {} if case.get('share') else None)
    if case.get('share'): ctx.label('condition-objects-shared-between-sibling-compounds')
    leafvals = []
    want = tree_truth(tree, stt, leafvals)
    got = cond(s)
    info = cond(s, info=True)
    # the actual per-leaf results, for the info relation (uses the leaves themselves: what is
    # checked here is the *combination*; the leaves have their own test)
    lv = _leaves(tree, [])
    actual = {}
    for l in lv:
        c = build_cond(l)
        actual[c.__doc__] = actual.get(c.__doc__, False) or bool(c(s))
    ctx.label('depth:%d' % _depth(tree), 'root:' + tree[0])
    if want is None:
        ctx.exclude('undecided-tree')
    else:
        ctx.expect(bool(got) == want, 'C10.compound',
                   lambda: dict(tree=tree, expected=want, got=bool(got), state=stt))
    # differential against recursive all/any over the *actual* leaf values (always decided)
    want2 = _eval_actual(tree, s)
    ctx.expect(bool(got) == want2, 'C10.compound_actual',
               lambda: dict(tree=tree, expected=want2, got=bool(got), state=stt))
    ctx.expect(isinstance(info, str) and bool(info) == bool(got), 'C10.info_empty_iff_false',
               lambda: dict(tree=tree, info=info, got=bool(got)))
    if info:
        parts = set(info.split('; '))
        satisfied = set(d for d, v in actual.items() if v)
        ctx.expect(parts <= satisfied, 'C10.info_names_satisfied',
                   lambda: dict(tree=tree, info=sorted(parts), satisfied=sorted(satisfied)))
        need = _must_name(tree, s)
        ctx.expect(need <= parts, 'C10.info_complete',
                   lambda: dict(tree=tree, info=sorted(parts), must_name=sorted(need)))
    if tree[0] != 'leaf':
        members = tuple(cond)
        selfres = cond(s, 'self')
        if tree[0] == 'Or':
            wantself = set(m for m in members if m(s))
        else:
            wantself = set(members) if got else set()
        ctx.expect(set(selfres) == wantself, 'C10.self', lambda: dict(tree=tree, got=len(selfres), want=len(wantself)))
        notres = cond(s, 'not')
        ctx.expect(set(notres) == set(members) - set(selfres), 'C10.self',
                   lambda: dict(tree=tree, n_not=len(notres)))
    stdict = T.state(cond)
    docs = set(build_cond(l).__doc__ for l in lv)
    ctx.expect(set(stdict.keys()) == docs, 'C10.state', lambda: dict(keys=sorted(stdict), docs=sorted(docs)))
    vals = [v for _, v in leafvals]
    if len(lv) >= 2 and (True in actual.values()) and (False in actual.values()):
        ctx.label('mixed')
        ctx.nontrivial(len(stt['hist']) >= 2)
    if tree[0] == 'When' and tree[1][0] in ('Or',):
        ctx.label('when-of-or')


def _depth(t):
    return 0 if t[0] == 'leaf' else 1 + max(_depth(x) for x in t[1:])


def _eval_actual(tree, s):
    if tree[0] == 'leaf':
        return bool(build_cond(tree)(s))
    vals = [_eval_actual(t, s) for t in tree[1:]]
    return any(vals) if tree[0] == 'Or' else all(vals)


def _must_name(tree, s):
    """leaf docs that the info of a satisfied tree must contain: And/When name all of
    their (satisfied) members, Or at least its satisfied members"""
    if tree[0] == 'leaf':
        c = build_cond(tree)
        return {c.__doc__} if c(s) else set()
    if not _eval_actual(tree, s):
        return set()
    out = set()
    for t in tree[1:]:
        out |= _must_name(t, s)
    return out


# libFuzzer executions per shard and @given test of the coverage-guided extra of the thorough tier (vp/fuzz.py)
FUZZ = 2000

TESTS = [
    Test('leaf', run_leaf, strategy=lambda tier: leaf_cases(),
         examples={'quick': 12000, 'thorough': 600000}),
    Test('tree', run_tree, strategy=lambda tier: tree_cases(),
         examples={'quick': 8000, 'thorough': 300000}),
]


KNOWN = {}
