"""C05 - stopping discipline: limits, termination and exit requests are honoured.
State machine over Step / Solve / Set* / Finalize histories (vp.solver_machine), plus the one-call
wrappers' warnflag (fmin, fmin_powell, diffev, diffev2) judged from the harness's own counts."""
from hypothesis import strategies as st
from vp.runner import Test, fold_run
from vp import solver_machine as sm
from vp import lab
from vp.util import FL, finite_floats

PROP = 'C05'
RULE = ("RuleBasedStateMachine histories for DE, DE2, Nelder-Mead and Powell: header (solver, dim 1-4, cost family, "
        "initial point/box, seed, monitor kinds, termination, initial limits) + up to 20/50 operations out of "
        "step(n), solve(g), limits(g,e,new), constraints, penalty, ranges, reducer, term, evalmon(kind,new), "
        "stepmon(kind), finalize; invariants after every operation against the harness's own recorder "
        "(real cost calls, callback invocations). Non-trivial: the history contains a re-decoration or a "
        "continue-after-stop and >= 3 completed iterations; distinct by canonical JSON of the whole trace.  "
        "wrapper: fmin / fmin_powell / diffev / diffev2 with maxiter 0-12 and maxfun None or 1..80, optional bounds, "
        "catalog constraint and penalty; non-trivial: a limit was reached (warnflag != 0 or a count at its limit).")
ASSUME = ["constraints drawn are deterministic and idempotent (catalog); NaN-valued costs are outside the domain",
          "the step monitor is swapped only with new=False (history carried over); new=True on the evaluation monitor "
          "ends the 'holds every call' relation for that monitor",
          "monotonicity is asserted within segments of unchanged objective",
          "wrapper: with maxfun=None the solver default (>= 200 x dim) cannot be reached within 12 iterations, so "
          "warnflag 1 is then never justified; 'one iteration's worth' of evaluations is NP for DE and dim+2 for "
          "Nelder-Mead (reflection, expansion/contraction or a shrink of dim vertices), not bounded for Powell"]

_run = fold_run(lambda case, ctx: sm.SolverState(case, ctx, PROP), lambda s, op, ctx: s.apply(op), lambda s: s.close())



# ----------------------------------------------------------------------------- wrappers' warnflag
@st.composite
def wrapper_cases(draw, tier='quick'):
    w = draw(st.sampled_from(['fmin', 'fmin_powell', 'diffev', 'diffev2']))
    dim = draw(st.integers(1, 3))
    c = dict(wrapper=w, dim=dim, seed=draw(st.integers(0, 2 ** 20)))
    c['cost'] = draw(lab.cost_specs(dim, families=('quad', 'rosen', 'abs', 'cos', 'plateau')))
    lo, hi = draw(lab.boxes(dim, integer=True))
    hi = [h if h > l else l + 1.0 for l, h in zip(lo, hi)]
    c['bounds'] = dict(lo=lo, hi=hi) if draw(st.booleans()) else None
    if c['bounds'] and draw(st.integers(0, 2)) == 0:
        spec = draw(lab.constraint_specs(dim, box=(lo, hi), symbolic=False))
        if lab.box_compatible(spec, lo, hi):
            c['constraint'] = spec
    if draw(st.integers(0, 3)) == 0:
        c['penalty'] = draw(lab.penalty_specs(dim))
    if c['bounds']:
        fr = draw(st.lists(st.sampled_from([0.0, 0.25, 0.5, 1.0]), min_size=dim, max_size=dim))
        c['x0'] = [l + f * (h - l) for l, h, f in zip(lo, hi, fr)]
    else:
        c['x0'] = draw(st.lists(finite_floats(-3, 3), min_size=dim, max_size=dim))
    if w in ('diffev', 'diffev2'):
        c['npop'] = draw(st.integers(4, 8))
    c['maxiter'] = draw(st.sampled_from([0, 1, 1, 2, 3, 5, 8, 12]))
    c['maxfun'] = draw(st.one_of(st.none(), st.integers(1, 80)))
    c['tight_tol'] = draw(st.booleans())       # very small ftol/xtol: the run goes on until a limit stops it
    if draw(st.integers(0, 7)) == 0:
        # limits left at their defaults (fmin: 200 x dim iterations and evaluations) on an objective that is unbounded
        # below, so that the run can only end on a default limit
        c['wrapper'] = 'fmin'; c['dim'] = dim = draw(st.integers(1, 2))
        c['cost'] = dict(fam='lin', a=[0.0] * dim, w=[draw(st.sampled_from([1.0, -1.0, 0.5])) for _ in range(dim)], ret='float')
        c['bounds'] = None; c.pop('constraint', None); c.pop('penalty', None); c.pop('npop', None)
        c['x0'] = [draw(st.sampled_from([0.0, 1.0, -2.5])) for _ in range(dim)]
        c['maxiter'], c['maxfun'] = draw(st.sampled_from([(None, None), (None, 10 ** 6), (10 ** 6, None), (None, 150), (90, None)]))
        c['defaults'] = True
    return c


def run_wrapper(case, ctx):
    import mystic.solvers as ms
    lab.reset_registry(); lab.seed_rng(case['seed'])
    w = case['wrapper']; dim = case['dim']
    cost = lab.Cost('c0', case['cost'])
    con = lab.Constraint(case['constraint']) if case.get('constraint') else None
    pen = lab.make_penalty(case.get('penalty'))
    kw = dict(full_output=1, disp=0, maxiter=case['maxiter'], maxfun=case['maxfun'])
    if con is not None: kw['constraints'] = con
    if pen is not None: kw['penalty'] = pen
    b = case.get('bounds')
    bounds = list(zip(FL(b['lo']), FL(b['hi']))) if b else None
    cbs = []
    kw['callback'] = lambda x: cbs.append(1)
    if case['tight_tol']:
        if w in ('fmin', 'fmin_powell'):
            kw['ftol'] = 1e-300
            if w == 'fmin': kw['xtol'] = 1e-300
        else:
            kw['ftol'] = 1e-300; kw['gtol'] = 10 ** 6
    if w in ('fmin', 'fmin_powell'):
        res = getattr(ms, w)(cost, FL(case['x0']), bounds=bounds, **kw)
    else:
        res = getattr(ms, w)(cost, FL(case['x0']), case['npop'], bounds=bounds, **kw)
    x, fval, iters, funcalls, warnflag = res[:5]
    calls = cost.ncalls(); its = max(0, len(cbs) - 1)
    mi = case['maxiter']; mf = case['maxfun']
    if case.get('defaults'):
        # documented defaults of fmin: maxiter = maxfun = 200 x dim
        mi = 200 * dim if mi is None else mi
        mf = 200 * dim if mf is None else mf
        ctx.label('limits-left-at-default')
    hit_fun = mf is not None and calls >= mf
    hit_iter = its >= mi
    det = lambda: dict(wrapper=w, warnflag=int(warnflag), real_calls=calls, iterations=its, reported=[int(iters), int(funcalls)],
                       maxiter=mi, maxfun=mf)
    ctx.label('wrapper:' + w, 'warnflag:%d' % int(warnflag), 'maxfun:' + ('none' if case['maxfun'] is None else 'given'))
    # the flag names a condition that is true of the final state (judged from the harness's own counts)
    if int(warnflag) == 1:
        ctx.expect(hit_fun, 'C05.warnflag', det)
    elif int(warnflag) == 2:
        ctx.expect(hit_iter and not hit_fun, 'C05.warnflag', det)
    else:
        ctx.expect(int(warnflag) == 0 and not hit_fun and not hit_iter, 'C05.warnflag', det)
    # generations never exceed the generation limit; evaluations exceed theirs by less than one iteration's worth
    # (only after the initial evaluation: the first population / simplex is always evaluated)
    ctx.expect(its <= max(mi, 0), 'C05.bounds', det)
    if mf is not None and its >= 1:
        worth = {'diffev': case.get('npop'), 'diffev2': case.get('npop'), 'fmin': dim + 2}.get(w)
        if worth is not None:
            init = case['npop'] if w in ('diffev', 'diffev2') else dim + 1
            ctx.expect(calls < max(mf, init) + worth, 'C05.bounds', lambda: dict(det(), one_iteration=worth, initial=init))
    ctx.nontrivial(int(warnflag) != 0 or hit_fun or hit_iter)


TESTS = [Test('machine', _run, machine=sm.machine_factory(PROP),
              examples={'quick': 3200, 'thorough': 60000}, steps={'quick': 16, 'thorough': 40},
              shrink={'quick': True, 'thorough': True}),
         Test('wrapper', run_wrapper, strategy=lambda tier: wrapper_cases(tier),
              examples={'quick': 2400, 'thorough': 60000})]

KNOWN = {'F52-gradient-norm-tolerance-calls-raw-cost': sm.kf_gnt}
from vp.solver_machine import kf_gnt as _kf_gnt_pred
