"""C02 - strict ranges: the objective is never evaluated outside the box."""
import math
import numpy as np
from hypothesis import strategies as st
from vp.runner import Test, fold_run
from vp import lab, solver_machine as sm
from vp.util import F, FL, finite_floats

PROP = 'C02'
RULE = ("(machine) RuleBasedStateMachine histories interleaving SetStrictRanges(min,max,tight,clip) - boxes with degenerate, "
        "None and +-inf sides, all nine tight x clip combinations (the documented-invalid ones must raise ValueError), "
        "ranges changed or removed mid-run - with Step, SetConstraints (pushers x[i]+=d that leave the box, and catalog "
        "constraints) and SetPenalty, for DE, DE2, Nelder-Mead and Powell; every recorded cost call is tested against the box in "
        "force at the time of the call.  (initial) @given SetRandomInitialPoints(min,max)/SetInitialPoints and the wrappers "
        "given x0 as (min,max) pairs.  Non-trivial: ranges active with >= 2 iterations and a pusher constraint active, or "
        "ranges (re)installed mid-run, or some trial rejected by the box; distinct by canonical JSON of the trace.")
ASSUME = ["None sides mean the solver default +-1e3 (as SetStrictRanges documents by code); +-inf sides are unbounded",
          "the randomising clip=False mode draws from numpy.random, seeded from the case"]

_run = fold_run(lambda case, ctx: sm.SolverState(case, ctx, PROP), lambda s, op, ctx: s.apply(op), lambda s: s.close())


@st.composite
def init_cases(draw, tier):
    kind = draw(st.sampled_from(lab.SOLVERS + ['diffev', 'diffev2']))
    dim = draw(st.integers(1, 4))
    lo, hi = draw(lab.boxes(dim, integer=draw(st.booleans())))
    c = dict(kind=kind, dim=dim, lo=lo, hi=hi, seed=draw(st.integers(0, 2 ** 20)), npop=draw(st.integers(4, 9)))
    c['some_none'] = draw(st.booleans())
    # one-sided requests: entries given as None are documented to be replaced with the solver default (-1e3 / 1e3)
    if c['some_none'] and kind in lab.SOLVERS:
        c['none_lo'] = draw(st.lists(st.booleans(), min_size=dim, max_size=dim))
        c['none_hi'] = draw(st.lists(st.booleans(), min_size=dim, max_size=dim))
    return c


def run_init(case, ctx):
    lab.reset_registry(); lab.seed_rng(case['seed'])
    dim = case['dim']; lo = FL(case['lo']); hi = FL(case['hi'])
    kind = case['kind']
    if kind in lab.SOLVERS:
        s = lab.make_solver(kind, dim, case['npop'])
        nlo = case.get('none_lo') or [False] * dim; nhi = case.get('none_hi') or [False] * dim
        arg_lo = [None if n else v for v, n in zip(lo, nlo)]
        arg_hi = [None if n else v for v, n in zip(hi, nhi)]
        lo = [-1000.0 if n else v for v, n in zip(lo, nlo)]
        hi = [1000.0 if n else v for v, n in zip(hi, nhi)]
        if any(nlo) or any(nhi): ctx.label('init:one-sided')
        s.SetRandomInitialPoints(arg_lo, arg_hi)
        pop = [lab.fvec(p) for p in s.population]
        for i, m in enumerate(pop):
            ctx.expect(lab.in_box(m, lo, hi), 'C02.initial', lambda: dict(solver=kind, member=i, x=m, lo=lo, hi=hi))
        ctx.nontrivial(len(pop) >= 2 or dim >= 2)
    else:
        import mystic.solvers as ms
        cost = lab.Cost('c0', dict(fam='quad', a=[0.0] * dim, w=[1.0] * dim, ret='float'))
        getattr(ms, kind)(cost, list(zip(lo, hi)), case['npop'], maxiter=1, disp=0, full_output=1)
        first = [c[0] for c in cost.calls[:max(case['npop'], dim, 4)]]
        for i, m in enumerate(first):
            ctx.expect(lab.in_box(m, lo, hi), 'C02.initial', lambda: dict(wrapper=kind, member=i, x=m, lo=lo, hi=hi))
        ctx.nontrivial(True)
    ctx.label('init:' + kind)


# --------------------------------------------------------------------------- ensembles: the box is the ensemble's
def _ens_cases(tier):
    """C09's ensemble configurations, run to completion, the nested solver given as a class or as an instance that
    carries no ranges of its own: the strict ranges set on the ensemble are then the only ones there are"""
    from vp.props import c09

    def fix(c):
        c = dict(c); c['mode'] = 'solve'; c['kw_first'] = False
        if c['map'] in ('forked', 'default'): c['map'] = 'serial'
        if c['as'] == 'instance': c['as'] = 'bare'
        return c
    return c09.ens_cases(tier).map(fix)


def run_ensemble(case, ctx):
    from vp.props import c09
    s, cost, pen, sink = c09.build(case)
    lo = FL(case['lo']); hi = FL(case['hi'])
    s.Solve(cost, disp=0)
    n = 0
    for t, x, v in cost.log:
        n += 1
        if not ctx.expect(lab.in_box(x, lo, hi), 'C02.calls',
                          lambda: dict(kind=case['kind'], nested=case['nested'], given_as=case['as'], map=case['map'], x=x, member=t,
                                       lo=lo, hi=hi, note='an ensemble member called the cost outside the strict ranges')):
            break
    ctx.label('ens:' + case['kind'], 'nested:' + case['nested'], 'as:' + case['as'])
    ctx.nontrivial(n >= 10)


TESTS = [Test('machine', _run, machine=sm.c02_machine_factory,
              examples={'quick': 3200, 'thorough': 60000}, steps={'quick': 14, 'thorough': 30}),
         Test('initial', run_init, strategy=lambda tier: init_cases(tier),
              examples={'quick': 1600, 'thorough': 30000}),
         Test('ensemble', run_ensemble, strategy=lambda tier: _ens_cases(tier),
              examples={'quick': 800, 'thorough': 12000})]

from vp.solver_machine import kf_gnt as sm_kf_gnt


def _isnan(v):
    return v == 'nan' or (isinstance(v, float) and v != v)


def _kf_f18(case, subcheck, detail):
    # ranges with an infinite side installed after generation 0: members outside the box are re-drawn with
    # uniform(-inf, max) = NaN and the cost is evaluated at a NaN coordinate
    if subcheck != 'C02.calls' or not isinstance(detail, dict):
        return False
    x = detail.get('x') or []; box = detail.get('box') or [[], []]
    infinite = [i for i, (l, h) in enumerate(zip(box[0], box[1])) if l in ('-inf', float('-inf')) or h in ('inf', float('inf'))]
    nan_at = [i for i, v in enumerate(x) if _isnan(v)]
    reach = set(infinite)       # a tie / sort constraint carries the NaN on to other coordinates
    con = detail.get('constraint') or {}
    if con.get('kind') == 'tie' and con.get('i') in reach:
        reach.add(con.get('j'))
    if con.get('kind') == 'sort' and reach:
        reach = set(range(len(x)))
    return bool(nan_at) and set(nan_at) <= reach and detail.get('solver') in ('DE', 'DE2') \
        and all(lab.in_box([v], [box[0][i]], [box[1][i]]) for i, v in enumerate(x) if i not in nan_at)


def _kf_f19(case, subcheck, detail):
    # Nelder-Mead re-applies the constraints to its best vertex at the start of every iteration without
    # re-evaluating it: a non-idempotent (pushing) constraint moves the reported best out of the box
    if not (subcheck == 'C02.best' and isinstance(detail, dict) and detail.get('solver') == 'NM'):
        return False
    box = detail.get('box')
    # the constraint in force now, or one that was in force earlier in the history (the pushed best stays after the
    # constraint has been removed again)
    cons = [detail.get('constraint')] + [op[1] for op in case.get('ops', []) if op[0] == 'constraints']
    return any(c and (c.get('kind') == 'push' or not lab.box_compatible(c, box[0], box[1])) for c in cons)


KNOWN = {'F52-gradient-norm-tolerance-calls-raw-cost': sm_kf_gnt, 'F18-infinite-side-midrun-nan': _kf_f18,
         'F19-nm-best-vertex-pushed-without-evaluation': _kf_f19}
from vp.solver_machine import kf_gnt as _kf_gnt_pred
