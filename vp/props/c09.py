"""C09 - ensemble solvers return the best member and account for all work.

Three tests:

ensemble : LatticeSolver / BuckshotSolver / SparsitySolver built from plain data and run with a recording cost.
           The harness owns the map (SetMapper): its wrapper (a) records the start vectors the ensemble hands to
           its members and (b) sets a thread-local tag around the call it makes for item i, so that the cost
           stores (member, x, value) for every real call.  All expectations come from that log, from itertools
           and from plain Python: best = min over members, totals = number of real calls (also per member),
           starts = Cartesian product of cell centres / inside the box, every call inside the box and on the
           constraint, limits respected, each member's energy = recorded cost + penalty at its solution.
           Metamorphic extra (C09.twin): a Nelder-Mead / Powell member equals a stand-alone solver that was given
           the ensemble's settings and the member's start vector.
wrapper  : the one-call interfaces lattice / buckshot / sparsity with full_output=1 (and retall, map, step, solver).
points   : gridpts, samplepts, random_samples, fillpts, randomly_bin against itertools / the box / the docstrings.
"""
import math, itertools, threading
import numpy as np
from hypothesis import strategies as st
from vp.runner import Test
from vp import lab
from vp.util import F, FL, close, finite_floats

PROP = 'C09'
RULE = ("(ensemble) kind in {Lattice, Buckshot, Sparsity} x dim 1-3 x bin layout (tuple, or a total count laid out by the "
        "solver) / number of points (sparsity <= 5 in the quick tier) x nested solver NM/Powell/DE(NP) given as a class or as a "
        "pre-configured instance x strict ranges (integer or float box, zero-width sides included, occasionally tight / clip "
        "mode) x optional box-compatible idempotent constraint (pin, clamp, grid, tie, sort; pure / in-place) x optional penalty "
        "x generation and/or evaluation limits x termination (never, COG, VTR, NCOG, CRT, solver default) x harness-owned map "
        "(python_map, serial, reversed, shuffled, threaded; forked in the thorough tier; or no SetMapper at all) x Solve() / "
        "Solve(step=True) / explicit Step() loop (best and totals are then checked after every Step); every real cost call is "
        "recorded with the member it was made for and the start vectors are read off the map's arguments.  (wrapper) "
        "lattice/buckshot/sparsity with full_output=1, retall, map, step, solver, gtol/ftol, limits.  (points) gridpts (1-4 "
        "axes of 1-4 values), samplepts, random_samples without and with a Distribution (single / per axis, clip or "
        "resample), fillpts (legacy data, rtol None/+/-), randomly_bin (N incl. primes and 0, ndim, ones, exact).  "
        "Non-trivial: >= 4 members with at least two different member optima (points: >= 4 points in >= 2 dimensions); "
        "distinct by canonical JSON.")
ASSUME = ["the recording cost and the tagging map wrapper (harness) attribute each real cost call to the member it was made "
          "for; the map contract (results in index order) identifies item i of the map call with member i; the first argument "
          "list of the map call that consists of dim-vectors is the list of start vectors",
          "mystic.penalty objects are used as-is to evaluate penalty(x) (their formulas are C15's subject); termination "
          "conditions are used as-is (C10's subject)",
          "constraints are idempotent and map the box into itself by construction (checked by lab.box_compatible)",
          "with the forked map the children's calls cannot be recorded, with the solver's default map nothing can be attributed: "
          "the recorder-/tag-based sub-checks are excluded and counted for those cases",
          "the twin relation is checked for the deterministic nested solvers (Nelder-Mead, Powell) and an explicitly given "
          "termination only; DE members draw from the shared global RNG and are therefore not combined with the threaded map",
          "CandidateRelativeTolerance is not combined with Powell members (documented as invalid for nPop < 2)",
          "an infinite optimum (cost inf on the whole box) carries no information about the reported point: location checks "
          "apply to finite energies only (as in C01/C02)",
          "NaN-valued costs are outside the domain; inf is inside"]

NESTED = {'NM': 'NelderMeadSimplexSolver', 'PW': 'PowellDirectionalSolver', 'DE': 'DifferentialEvolutionSolver',
          'DE2': 'DifferentialEvolutionSolver2'}
TOL = dict(rel=1e-12, abs_=1e-12)


# --------------------------------------------------------------------------- recorder with member attribution
_TL = threading.local()


class TagCost(object):
    """recording cost: every call appends (tag, x, raw value) in ONE list append (atomic under threads);
    pickles / deep-copies to itself like lab.Cost so that every ensemble member shares the recorder"""
    def __init__(self, key, spec):
        self.key = key; self.spec = spec; self.log = []
        lab.REG[key] = self

    def __call__(self, x, *args):
        xt = lab.fvec(x)
        v = lab.raw_cost(self.spec, xt)
        self.log.append((getattr(_TL, 'tag', None), xt, v))
        return lab.shape_value(self.spec, v)

    def __reduce__(self):
        return (lab._lookup, (self.key,))

    def __deepcopy__(self, memo):
        return self

    def __copy__(self):
        return self

    def ncalls(self):
        return len(self.log)

    def lookup(self, x, tag='any'):
        xt = lab.fvec(x)
        for t, c, v in reversed(self.log):
            if c == xt and (tag == 'any' or t == tag):
                return v
        return None

    def by_tag(self):
        out = {}
        for t, c, v in self.log:
            out.setdefault(t, []).append((c, v))
        return out


def _is_vec(x, dim):
    if x is None or isinstance(x, (str, bytes)) or not hasattr(x, '__len__') or len(x) != dim:
        return False
    try:
        [float(v) for v in x]
    except (TypeError, ValueError):
        return False
    return True


def tagging(inner, sink=None, dim=None):
    """wrap a map so that the call made for item i runs with the thread-local tag i.  The map is the public
    extension point through which an ensemble hands each member its start vector: the first argument list made
    of dim-vectors is recorded in sink['starts'] (once, at the first call)"""
    def tagged_map(f, *args, **kw):
        args = [list(a) for a in args]
        if sink is not None:
            sink['map_calls'] = sink.get('map_calls', 0) + 1
            if 'starts' not in sink:
                for a in args:
                    if a and all(_is_vec(x, dim) for x in a):
                        sink['starts'] = [[float(v) for v in x] for x in a]
                        break

        def g(i, *it):
            prev = getattr(_TL, 'tag', None)
            _TL.tag = i
            try:
                return f(*it)
            finally:
                _TL.tag = prev
        return inner(g, list(range(len(args[0]))), *args)
    return tagged_map


def harness_map(name, order_seed, sink=None, dim=None):
    """None = leave the solver's default map in place (no attribution possible)"""
    if name in ('default', None):
        return None
    return tagging(lab.get_map(name, order_seed), sink, dim)


def check_starts(ctx, sub, where, lattice_nbins, starts, lo, hi, dim, N):
    """the start vectors handed to the members: inside the strict ranges; lattice: the full Cartesian product
    of the cell centres lo + (j+1/2)(hi-lo)/n"""
    ctx.expect(len(starts) == N, sub.replace('start', 'count'), lambda: dict(where, note='number of start points', got=len(starts), expected=N))
    for i, p in enumerate(starts):
        ctx.expect(len(p) == dim and lab.in_box(p, lo, hi), sub, lambda: dict(where, member=i, start=p, lo=lo, hi=hi, note='start outside the strict ranges'))
    if lattice_nbins is None:
        return
    nb = lattice_nbins
    if not isinstance(nb, int):
        axes = [centres(lo[a], hi[a], nb[a]) for a in range(dim)]
        want = [list(q) for q in itertools.product(*axes)]
        ctx.expect(match_points(starts, want), sub, lambda: dict(where, note='starts are not the cell centres', starts=starts, expected=want, nbins=nb, lo=lo, hi=hi))
    elif any(lo[a] == hi[a] for a in range(dim)):
        ctx.exclude('lattice with a total count on a box with a zero-width side: the layout cannot be read off the starts')
    else:
        # a total count: the layout is drawn by the solver; whatever it is, the starts must be the full Cartesian
        # product of the cell centres of *some* layout with that many cells
        axes = []
        for a in range(dim):
            u = []
            for q in starts:
                if not any(close(q[a], v, **TOL) for v in u):
                    u.append(q[a])
            axes.append(sorted(u))
        layout = [len(u) for u in axes]
        ok = int(np.prod(layout)) == N
        ok = ok and all(match_points([[v] for v in axes[a]], [[v] for v in centres(lo[a], hi[a], layout[a])]) for a in range(dim))
        ok = ok and match_points(starts, [list(q) for q in itertools.product(*axes)])
        ctx.expect(ok, sub, lambda: dict(where, note='starts are not the centres of a grid with the requested number of cells',
                                         starts=starts, inferred_layout=layout, nbins=nb, lo=lo, hi=hi))


def feq(a, b):
    a = float(a); b = float(b)
    return a == b or (a != a and b != b)


def nested_class(name):
    import mystic.solvers as ms
    return getattr(ms, NESTED[name])


def centres(lo, hi, n):
    """documented lattice start: the centre of each of the n equal cells of [lo, hi]"""
    step = abs(hi - lo) / n
    return [lo + (j + 0.5) * step for j in range(n)]


def match_points(got, want):
    """multiset equality up to TOL (greedy matching; sizes are small)"""
    if len(got) != len(want):
        return False
    free = list(want)
    for g in got:
        for k, w in enumerate(free):
            if len(g) == len(w) and all(close(a, b, **TOL) for a, b in zip(g, w)):
                del free[k]
                break
        else:
            return False
    return True


# --------------------------------------------------------------------------- case generation
@st.composite
def box_and_extras(draw, dim, c):
    """box, constraint, penalty, cost: shared by the ensemble and the wrapper generator"""
    integer = draw(st.integers(0, 3)) > 0
    same = draw(st.booleans())
    lo, hi = draw(lab.boxes(dim, integer=integer, same_sides=same, degenerate=True))
    c['lo'] = lo; c['hi'] = hi
    if draw(st.integers(0, 2)) == 0:
        for _ in range(6):
            spec = draw(lab.constraint_specs(dim, box=(lo, hi), symbolic=False))
            if lab.box_compatible(spec, lo, hi):
                c['constraint'] = spec
                break
    if draw(st.integers(0, 2)) == 0:
        c['penalty'] = draw(lab.penalty_specs(dim))
    c['cost'] = draw(lab.cost_specs(dim, families=('quad', 'rosen', 'abs', 'cos', 'cos', 'plateau', 'infhalf')))
    return c


def bound_modes(c):
    """how the strict ranges are imposed: mostly the default; tight=True is costly (the bounds constraint is built
    symbolically for every member)"""
    return st.sampled_from([[None, None]] * 10 + [[None, True], [True, None]])


@st.composite
def ens_cases(draw, tier):
    thorough = tier == 'thorough'
    kind = draw(st.sampled_from(['lattice'] * 4 + ['buckshot'] * 4 + ['sparsity']))
    dim = draw(st.integers(1, 3))
    c = dict(kind=kind, dim=dim, seed=draw(st.integers(0, 2 ** 20)))
    draw(box_and_extras(dim, c))
    if kind == 'lattice':
        if draw(st.integers(0, 3)) == 0:
            c['nbins'] = draw(st.sampled_from([4, 1, 2, 3, 4, 5, 6, 6, 8, 9] + ([12, 16] if thorough else [])))
        else:
            per = {1: [4, 1, 2, 3, 5, 6, 8], 2: [2, 1, 2, 3, 3], 3: [2, 1, 2, 2]}[dim] + ([3] if thorough else [])
            c['nbins'] = draw(st.lists(st.sampled_from(per), min_size=dim, max_size=dim))
    elif kind == 'buckshot':
        c['npts'] = draw(st.sampled_from([4, 1, 2, 3, 4, 5, 6, 6, 8] + ([12] if thorough else [])))
    else:
        c['npts'] = draw(st.sampled_from([1, 2, 3, 4, 4, 4, 5] + ([6, 8] if thorough else [])))
        c['rtol'] = draw(st.sampled_from([None, None, 0.5, -0.5]))
    c['nested'] = draw(st.sampled_from(['NM', 'NM', 'PW', 'DE', 'DE2']))
    c['as'] = draw(st.sampled_from(['class', 'class', 'class', 'instance', 'instance', 'bare']))
    if c['nested'] in ('DE', 'DE2'):
        c['NP'] = draw(st.integers(max(4, dim), 6))
    c['tight'], c['clip'] = draw(bound_modes(c))
    # a generation limit is always given: an evaluation limit alone need not stop a member at all (points outside the
    # strict ranges cost nothing, so e.g. Powell started where the cost is inf walks on until the default limit)
    lim = draw(st.integers(0, 5))
    c['maxiter'] = (40 if not thorough else 60) if lim == 0 else draw(st.integers(1, 8 if not thorough else 14))
    c['maxfun'] = draw(st.sampled_from([10, 30, 80])) if lim in (0, 1) else None
    # CandidateRelativeTolerance compares the members of a population: documented as invalid for Powell (nPop = 1)
    c['term'] = draw(st.sampled_from(['never', 'never', 'cog', 'vtr', 'ncog', 'default'] + (['crt'] if c['nested'] != 'PW' else [])))
    maps = ['serial', 'reversed', 'shuffled', 'python', 'default', 'copying']
    if c['nested'] not in ('DE', 'DE2'):
        maps += ['threaded', 'threaded']
    if thorough:
        maps += ['forked']
    c['map'] = draw(st.sampled_from(maps))
    c['order_seed'] = draw(st.integers(0, 1000))
    c['mode'] = draw(st.sampled_from(['solve', 'solve', 'step', 'step', 'solve_step']))
    if c['map'] == 'forked':        # one process per member and map call: run to completion, default bounds mode
        c['mode'] = 'solve'; c['tight'] = None
    # step-wise runs may hand constraints / penalty to the first Step as keywords (documented inputs of Step)
    c['kw_first'] = c['mode'] == 'step' and c['as'] == 'class' and draw(st.booleans())
    # an evaluation monitor that already holds records (the documented way to hand legacy data to an ensemble)
    c['legacy_evals'] = draw(st.sampled_from([0, 0, 0, 2, 5])) if c['as'] == 'class' else 0
    return c


# --------------------------------------------------------------------------- building and running an ensemble
def configure(t, case, con, pen, direct=False):
    """the settings every member is to be subject to (applied to the ensemble, and to a nested instance)"""
    t.SetStrictRanges(FL(case['lo']), FL(case['hi']), tight=case.get('tight'), clip=case.get('clip'))
    if con is not None and (direct or not case.get('kw_first')):
        t.SetConstraints(con)
    if pen is not None and (direct or not case.get('kw_first')):
        t.SetPenalty(pen)
    t.SetEvaluationLimits(case.get('maxiter'), case.get('maxfun'))
    term = lab.make_termination(case.get('term', 'never'))
    if term is not None:
        t.SetTermination(term)


def expected_count(case):
    if case['kind'] == 'lattice':
        nb = case['nbins']
        return int(nb) if isinstance(nb, int) else int(np.prod(nb))
    return int(case['npts'])


def build(case):
    import mystic.solvers as ms
    lab.reset_registry(); lab.seed_rng(case['seed'])
    dim = case['dim']
    cost = TagCost('c0', case['cost'])
    con = lab.Constraint(case['constraint']) if case.get('constraint') else None
    pen = lab.make_penalty(case.get('penalty'))
    if case['kind'] == 'lattice':
        nb = case['nbins']
        s = ms.LatticeSolver(dim, nb if isinstance(nb, int) else tuple(nb))
    elif case['kind'] == 'buckshot':
        s = ms.BuckshotSolver(dim, case['npts'])
    else:
        s = ms.SparsitySolver(dim, case['npts'], rtol=case.get('rtol'))
    K = nested_class(case['nested'])
    if case['as'] == 'bare':
        # an instance that carries only its own limits and termination: ranges, constraints, penalty and the objective
        # are the ensemble's (SetNestedSolver accepts a configured instance; nothing says it must repeat the ensemble's settings)
        inst = K(dim, case['NP']) if case['nested'] in ('DE', 'DE2') else K(dim)
        inst.SetEvaluationLimits(case.get('maxiter'), case.get('maxfun'))
        term = lab.make_termination(case.get('term', 'never'))
        if term is not None:
            inst.SetTermination(term)
        s.SetNestedSolver(inst)
    elif case['as'] == 'instance':
        # a pre-configured instance is used as given: it carries the settings (and the objective) itself
        inst = K(dim, case['NP']) if case['nested'] in ('DE', 'DE2') else K(dim)
        configure(inst, case, con, pen)
        inst.SetObjective(cost)
        s.SetNestedSolver(inst)
    elif case['nested'] in ('DE', 'DE2'):
        s.SetNestedSolver(K, NP=case['NP'])      # always explicit: the keyword is stored on the class
    else:
        s.SetNestedSolver(K)
    configure(s, case, con, pen)
    if case.get('legacy_evals'):
        from mystic.monitors import Monitor
        mon = Monitor()
        mid = [0.5 * (a + b) for a, b in zip(FL(case['lo']), FL(case['hi']))]
        for _j in range(case['legacy_evals']):
            mon(list(mid), 123.0)
        s.SetEvaluationMonitor(mon)
    sink = {}
    m = harness_map(case['map'], case['order_seed'], sink, dim)
    if m is not None:
        s.SetMapper(m)
    s._vp_first_kw = {}
    if case.get('kw_first'):
        if con is not None: s._vp_first_kw['constraints'] = con
        if pen is not None: s._vp_first_kw['penalty'] = pen
    return s, cost, pen, sink


def totals_ok(s, cost, recorded):
    tot = int(s._total_evals); allv = [int(e) for e in s._all_evals]
    return tot == sum(allv) and (not recorded or tot == cost.ncalls()), dict(total_evals=tot, all_evals=allv, real_calls=cost.ncalls())


def best_ok(s):
    E = [float(e) for e in s._all_bestEnergy if e is not None]
    be = float(s.bestEnergy)
    return bool(E) and feq(be, min(E)), dict(bestEnergy=be, all_bestEnergy=E)


def run_ensemble(case, ctx):
    s, cost, pen, sink = build(case)
    dim = case['dim']; lo = FL(case['lo']); hi = FL(case['hi'])
    kind = case['kind']; mode = case['mode']
    N = expected_count(case)
    recorded = case['map'] != 'forked'
    tagged = case['map'] not in ('forked', 'default')
    where = dict(kind=kind, nested=case['nested'], given_as=case['as'], map=case['map'], mode=mode)
    pen_at = (lambda v: pen(list(v))) if pen is not None else (lambda v: 0.0)
    hcon = lab.Constraint(case['constraint']) if case.get('constraint') else None

    # ---- execute
    steps = 0
    if mode == 'solve':
        s.Solve(cost, disp=0)
    elif mode == 'solve_step':
        s.Solve(cost, disp=0, step=True)
    else:
        s.SetObjective(cost)
        cap = case['maxiter'] + 5       # generation 0 is a Step of its own, and the stop is reported one Step later
        msg = None
        for k in range(cap):
            msg = s.Step(disp=0, **(s._vp_first_kw if k == 0 else {}))
            steps += 1
            ok, d = best_ok(s)
            ctx.expect(ok, 'C09.best', lambda: dict(where, boundary=k, **d))
            ok, d = totals_ok(s, cost, recorded)
            ctx.expect(ok, 'C09.evals', lambda: dict(where, boundary=k, **d))
            if msg:
                break
        ctx.expect(bool(msg), 'C09.member', lambda: dict(where, note='no stop reported although every member has had maxiter+5 steps',
                                                         steps=steps, maxiter=case['maxiter'], all_iters=[int(g) for g in s._all_iters]))

    if case.get('kw_first'): ctx.label('constraints/penalty-as-Step-keywords')
    if case.get('legacy_evals'): ctx.label('evaluation-monitor-with-legacy-records')
    members = list(s._allSolvers)
    # ---- C09.count
    ctx.expect(len(members) == N and all(m is not None for m in members), 'C09.count',
               lambda: dict(where, members=len(members), expected=N, nbins=case.get('nbins'), npts=case.get('npts')))
    E = [float(e) for e in s._all_bestEnergy]
    X = [lab.fvec(x) for x in s._all_bestSolution]
    ctx.expect(len(E) == N and len(X) == N, 'C09.count', lambda: dict(where, energies=len(E), solutions=len(X), expected=N))
    logs = cost.by_tag()
    if tagged:
        ctx.expect(set(logs) == set(range(N)), 'C09.count',
                   lambda: dict(where, note='cost was not called for exactly the members 0..N-1', called_for=sorted(logs, key=repr), expected=N))

    # ---- C09.best
    be = float(s.bestEnergy); bs = lab.fvec(s.bestSolution)
    ctx.expect(feq(be, min(E)), 'C09.best', lambda: dict(where, bestEnergy=be, all_bestEnergy=E))
    ctx.expect(any(feq(E[j], be) and X[j] == bs for j in range(len(E))), 'C09.best',
               lambda: dict(where, note='bestSolution is not the solution of a member attaining the minimum',
                            bestSolution=bs, bestEnergy=be, all_bestEnergy=E, all_bestSolution=X))
    if recorded and math.isfinite(be):
        rec = cost.lookup(bs)
        ctx.expect(rec is not None, 'C09.best', lambda: dict(where, bestSolution=bs, note='bestSolution was never passed to the cost'))
        if rec is not None:
            want = rec + pen_at(bs)
            ctx.expect(feq(be, want), 'C09.best', lambda: dict(where, bestSolution=bs, bestEnergy=be, recorded=rec,
                                                               penalty=float(pen_at(bs)), expected=float(want)))

    # ---- C09.evals
    ok, d = totals_ok(s, cost, recorded)
    ctx.expect(ok, 'C09.evals', lambda: dict(where, **d))
    if tagged:
        per = [len(logs.get(i, [])) for i in range(N)]
        ctx.expect([int(e) for e in s._all_evals] == per, 'C09.evals',
                   lambda: dict(where, note='per-member evaluation counts differ from the calls recorded for each member',
                                all_evals=[int(e) for e in s._all_evals], recorded_per_member=per))
    if not recorded:
        ctx.exclude('forked map: recorder-based sub-checks skipped')

    # ---- C09.start
    starts = sink.get('starts')
    default_mode = not case.get('tight') and not case.get('clip')
    if starts is not None:
        check_starts(ctx, 'C09.start', where, case['nbins'] if kind == 'lattice' else None, starts, lo, hi, dim, N)
    if tagged and all(i in logs for i in range(N)):
        for i in range(N):
            p = list(logs[i][0][0])
            ctx.expect(lab.in_box(p, lo, hi), 'C09.start', lambda: dict(where, member=i, first_point=p, lo=lo, hi=hi))
            if starts is not None and len(starts) == N and default_mode:
                # a member evaluates its (constrained) start first
                want = hcon.apply(starts[i]) if hcon is not None else list(starts[i])
                ctx.expect(p == want, 'C09.start', lambda: dict(where, member=i, note='first evaluated point is not the (constrained) start',
                                                                start=starts[i], expected=want, first_point=p))
    if starts is None:
        ctx.exclude('default map: start points and per-member calls cannot be observed')

    # ---- C09.member
    if recorded:
        for t, x, v in cost.log:
            ctx.expect(lab.in_box(x, lo, hi), 'C09.member', lambda: dict(where, note='cost evaluated outside the strict ranges', x=x, member=t, lo=lo, hi=hi))
            if hcon is not None:
                ctx.expect(hcon.sat(x), 'C09.member', lambda: dict(where, note='cost evaluated at a point violating the constraint', x=x, member=t,
                                                                   constraint=case['constraint']))
    maxiter = case.get('maxiter'); maxfun = case.get('maxfun')
    slack = {'NM': dim + 2, 'DE': case.get('NP', 0), 'DE2': case.get('NP', 0)}.get(case['nested'])     # most evaluations one iteration can make
    for i, m in enumerate(members):
        g = int(m.generations); ev = int(m.evaluations)
        if maxiter is not None:
            ctx.expect(g <= maxiter, 'C09.member', lambda: dict(where, member=i, generations=g, maxiter=maxiter))
        if maxfun is not None and slack is not None:
            ctx.expect(ev <= maxfun - 1 + slack, 'C09.member',
                       lambda: dict(where, member=i, evaluations=ev, maxfun=maxfun, per_iteration_at_most=slack))
        if recorded and math.isfinite(E[i]):
            rec = cost.lookup(X[i], i if tagged else 'any')
            ctx.expect(rec is not None, 'C09.member', lambda: dict(where, member=i, bestSolution=X[i],
                                                                   note='member bestSolution was never evaluated by that member'))
            if rec is not None:
                want = rec + pen_at(X[i])
                ctx.expect(feq(E[i], want), 'C09.member', lambda: dict(where, member=i, bestSolution=X[i], bestEnergy=E[i],
                                                                       recorded=rec, penalty=float(pen_at(X[i]))))
            if hcon is not None:
                ctx.expect(hcon.sat(X[i]), 'C09.member', lambda: dict(where, member=i, bestSolution=X[i], note='member solution violates the constraint'))
            ctx.expect(lab.in_box(X[i], lo, hi), 'C09.member', lambda: dict(where, member=i, bestSolution=X[i], note='member solution outside the box'))

    # ---- C09.twin: a member is a stand-alone solver with the ensemble's settings, started at the member's start
    if starts is not None and len(starts) == N == len(members) and case['nested'] in ('NM', 'PW') and case.get('term') != 'default':
        twin_cost = lab.Cost('twin', case['cost']); twin_cost.enabled = False
        K = nested_class(case['nested'])
        for i, m in enumerate(members):
            t = K(dim)
            t.SetInitialPoints(list(starts[i]))
            configure(t, case, lab.Constraint(case['constraint']) if case.get('constraint') else None, pen, direct=True)
            t.Solve(twin_cost, disp=0)
            got = (float(m.bestEnergy), lab.fvec(m.bestSolution), int(m.generations), int(m.evaluations))
            ref = (float(t.bestEnergy), lab.fvec(t.bestSolution), int(t.generations), int(t.evaluations))
            ctx.expect(feq(got[0], ref[0]) and got[1:] == ref[1:], 'C09.twin',
                       lambda: dict(where, member=i, start=list(starts[i]), note='(bestEnergy, bestSolution, generations, evaluations)',
                                    member_result=got, standalone_result=ref))
        ctx.label('twin-checked')

    # ---- classification
    ctx.label('ens:' + kind, 'nested:' + case['nested'], 'as:' + case['as'], 'map:' + case['map'], 'mode:' + mode, 'dim:%d' % dim)
    if case.get('constraint'): ctx.label('constraint', 'con:' + case['constraint']['kind'])
    if case.get('penalty'): ctx.label('penalty')
    if case.get('tight') or case.get('clip'): ctx.label('tight/clip')
    if any(l == h for l, h in zip(lo, hi)): ctx.label('zero-width-side')
    if kind == 'lattice': ctx.label('nbins:int' if isinstance(case['nbins'], int) else 'nbins:tuple')
    ctx.label('limits:%s/%s' % ('iter' if maxiter < 40 else 'cap', 'fun' if maxfun is not None else '-'), 'term:' + case['term'])
    ctx.label('members>=4' if N >= 4 else 'members<4')
    distinct = len(set(e for e in E if e == e))
    if distinct >= 2: ctx.label('different-member-optima')
    if len(E) >= 2 and not feq(E[0], min(E)): ctx.label('best-is-not-member-0')
    if len(E) >= 2 and feq(E[-1], min(E)) and distinct >= 2: ctx.label('best-is-last-member')
    ctx.nontrivial(N >= 4 and distinct >= 2)


# --------------------------------------------------------------------------- wrappers
@st.composite
def wrapper_cases(draw, tier):
    thorough = tier == 'thorough'
    w = draw(st.sampled_from(['lattice'] * 4 + ['buckshot'] * 4 + ['sparsity']))
    dim = draw(st.integers(1, 3 if w != 'sparsity' else 2))
    c = dict(wrapper=w, dim=dim, seed=draw(st.integers(0, 2 ** 20)))
    draw(box_and_extras(dim, c))
    if w == 'lattice':
        if draw(st.integers(0, 3)) == 0:
            c['nbins'] = draw(st.sampled_from([1, 2, 4, 6, 8]))
        else:
            c['nbins'] = draw(st.lists(st.integers(1, {1: 6, 2: 3, 3: 2}[dim]), min_size=dim, max_size=dim))
    else:
        c['npts'] = draw(st.sampled_from([1, 2, 4, 5, 6] if w == 'buckshot' else [1, 2, 3, 4, 4]))
    c['solver'] = draw(st.sampled_from([None, 'NM', 'PW']))
    lim = draw(st.integers(0, 5))
    c['maxiter'] = None if lim == 0 else draw(st.integers(1, 10))
    c['maxfun'] = draw(st.sampled_from([10, 30, 100])) if lim in (0, 1, 2) else None
    c['gtol'] = draw(st.sampled_from([None, None, 2, 5]))       # None = the documented default (10)
    c['ftol'] = draw(st.sampled_from([1e-4, 1e-2]))
    maps = [None, 'python', 'serial', 'reversed', 'shuffled', 'threaded'] + (['forked'] if thorough else [])
    c['map'] = draw(st.sampled_from(maps))
    c['order_seed'] = draw(st.integers(0, 1000))
    c['step'] = draw(st.sampled_from([None, False, True]))
    c['retall'] = draw(st.booleans())
    c['tight'], c['clip'] = draw(bound_modes(c))
    if c['map'] == 'forked':
        c['step'] = None; c['tight'] = None
    return c


def run_wrapper(case, ctx):
    import mystic.solvers as ms
    lab.reset_registry(); lab.seed_rng(case['seed'])
    w = case['wrapper']; dim = case['dim']
    lo = FL(case['lo']); hi = FL(case['hi'])
    cost = TagCost('c0', case['cost'])
    con = lab.Constraint(case['constraint']) if case.get('constraint') else None
    hcon = lab.Constraint(case['constraint']) if case.get('constraint') else None
    pen = lab.make_penalty(case.get('penalty'))
    pen_at = (lambda v: pen(list(v))) if pen is not None else (lambda v: 0.0)
    kw = dict(full_output=1, disp=0, maxiter=case['maxiter'], maxfun=case['maxfun'], ftol=F(case['ftol']),
              retall=1 if case['retall'] else 0, bounds=list(zip(lo, hi)))
    if case['gtol'] is not None: kw['gtol'] = case['gtol']
    if con is not None: kw['constraints'] = con
    if pen is not None: kw['penalty'] = pen
    if case['solver']: kw['solver'] = nested_class(case['solver'])
    if case['step'] is not None: kw['step'] = case['step']
    if case.get('tight'): kw['tightrange'] = True
    if case.get('clip'): kw['cliprange'] = True
    tagged = case['map'] not in (None, 'forked'); recorded = case['map'] != 'forked'
    sink = {}
    if case['map'] is not None:
        kw['map'] = harness_map(case['map'], case['order_seed'], sink, dim)
    if w == 'lattice':
        nb = case['nbins']; N = int(nb) if isinstance(nb, int) else int(np.prod(nb))
        res = ms.lattice(cost, dim, nb if isinstance(nb, int) else tuple(nb), **kw)
    elif w == 'buckshot':
        N = case['npts']; res = ms.buckshot(cost, dim, N, **kw)
    else:
        N = case['npts']; res = ms.sparsity(cost, dim, N, **kw)
    where = dict(wrapper=w, solver=case['solver'], map=case['map'], step=case['step'])
    ctx.expect(isinstance(res, tuple) and len(res) == (7 if case['retall'] else 6), 'C09.wrapper',
               lambda: dict(where, note='documented return is (xopt, fopt, iter, funcalls, warnflag, allfuncalls[, allvecs])',
                            length=len(res) if isinstance(res, tuple) else None))
    x, fval, iters, funcalls, warnflag, allfuncalls = res[:6]
    xs = lab.fvec(x); fv = float(fval); iters = int(iters); funcalls = int(funcalls); allfuncalls = int(allfuncalls)
    logs = cost.by_tag()
    ctx.expect(len(xs) == dim, 'C09.wrapper', lambda: dict(where, x=xs, note='xopt has the wrong length'))
    if math.isfinite(fv):       # with an infinite optimum nothing distinguishes the candidates (C02's subject)
        ctx.expect(lab.in_box(xs, lo, hi), 'C09.wrapper', lambda: dict(where, x=xs, fopt=fv, note='xopt outside the bounds', lo=lo, hi=hi))
        if hcon is not None:
            ctx.expect(hcon.sat(xs), 'C09.wrapper', lambda: dict(where, x=xs, note='xopt violates the constraint'))
    if recorded:
        ctx.expect(allfuncalls == cost.ncalls(), 'C09.wrapper', lambda: dict(where, allfuncalls=allfuncalls, real_calls=cost.ncalls()))
        for t, p, v in cost.log:
            ctx.expect(lab.in_box(p, lo, hi) and (hcon is None or hcon.sat(p)), 'C09.wrapper',
                       lambda: dict(where, note='cost evaluated outside the bounds / off the constraint', x=p, member=t))
        if math.isfinite(fv):
            rec = cost.lookup(xs)
            ctx.expect(rec is not None, 'C09.wrapper', lambda: dict(where, x=xs, note='xopt was never evaluated'))
            if rec is not None:
                want = rec + pen_at(xs)
                ctx.expect(feq(fv, want), 'C09.wrapper', lambda: dict(where, x=xs, fopt=fv, expected=float(want)))
    else:
        ctx.exclude('forked map: recorder-based sub-checks skipped')
    member_min = []
    if sink.get('starts') is not None:
        check_starts(ctx, 'C09.wrapper_start', where, case['nbins'] if w == 'lattice' else None, sink['starts'], lo, hi, dim, N)
    if tagged:
        ctx.expect(set(logs) == set(range(N)), 'C09.wrapper',
                   lambda: dict(where, note='cost was not called for exactly N members', called_for=sorted(logs, key=repr), expected=N))
        # fopt is the least energy any member can report; funcalls is the count of a member that evaluated xopt
        owners = [t for t in logs if any(p == xs and feq(v + pen_at(p), fv) for p, v in logs[t])]
        if math.isfinite(fv):
            ctx.expect(any(len(logs[t]) == funcalls for t in owners), 'C09.wrapper',
                       lambda: dict(where, funcalls=funcalls, note='funcalls is not the number of calls of a member that evaluated xopt',
                                    calls_of_members_that_evaluated_xopt=[len(logs[t]) for t in owners]))
        for t in sorted(logs, key=lambda k: (k is None, k if k is not None else 0)):
            vals = [v + pen_at(p) for p, v in logs[t]]
            vals = [u for u in vals if u == u]
            if vals: member_min.append(min(vals))
    ctx.expect(funcalls <= allfuncalls, 'C09.wrapper', lambda: dict(where, funcalls=funcalls, allfuncalls=allfuncalls))
    # warnflag as documented (1: evaluation limit, 2: iteration limit); only limits that were given are judged
    mi = case['maxiter']; mf = case['maxfun']
    hit_fun = mf is not None and funcalls >= mf
    hit_iter = mi is not None and iters >= mi
    if int(warnflag) == 1:
        ok = hit_fun or mf is None
    elif int(warnflag) == 2:
        ok = (hit_iter or mi is None) and not hit_fun
    else:
        ok = int(warnflag) == 0 and not hit_fun and not hit_iter
    ctx.expect(ok, 'C09.wrapper', lambda: dict(where, warnflag=int(warnflag), iter=iters, funcalls=funcalls, maxiter=mi, maxfun=mf))
    if mi is not None:
        ctx.expect(iters <= mi, 'C09.wrapper', lambda: dict(where, iter=iters, maxiter=mi))
    if case['retall']:
        allvecs = [lab.fvec(v) for v in res[6]]
        ctx.expect(len(allvecs) >= 1 and allvecs[-1] == xs, 'C09.wrapper',
                   lambda: dict(where, note='allvecs does not end at xopt', last=allvecs[-1] if allvecs else None, x=xs, n=len(allvecs)))
        ctx.expect(len(allvecs) == iters + 1, 'C09.wrapper',
                   lambda: dict(where, note='allvecs: one solution per iteration (plus the start)', n=len(allvecs), iter=iters))
    ctx.label('wrapper:' + w, 'solver:%s' % case['solver'], 'map:%s' % case['map'], 'step:%s' % case['step'])
    if case['retall']: ctx.label('retall')
    if case.get('constraint'): ctx.label('constraint')
    if case.get('penalty'): ctx.label('penalty')
    ctx.label('warnflag:%d' % int(warnflag))
    ctx.nontrivial(N >= 4 and len(set(member_min)) >= 2)


# --------------------------------------------------------------------------- point generators
POOL = [0, 1, 2, 3, -1, 0.5, 2.5, -1.5, 10, 1.0]


def is_prime(n):
    return n >= 2 and all(n % k for k in range(2, int(math.isqrt(n)) + 1))


def nfactors(n):
    k = 0; p = 2
    while n > 1:
        while n % p == 0:
            n //= p; k += 1
        p += 1
    return k


@st.composite
def point_cases(draw, tier):
    thorough = tier == 'thorough'
    fn = draw(st.sampled_from(['gridpts'] * 6 + ['samplepts'] * 3 + ['random_samples'] * 2 + ['random_samples_dist'] * 3 +
                              ['randomly_bin'] * 6 + ['fillpts']))
    c = dict(fn=fn, seed=draw(st.integers(0, 2 ** 20)))
    if fn == 'gridpts':
        dim = draw(st.integers(1, 4 if not thorough else 5))
        c['q'] = [draw(st.lists(st.one_of(st.sampled_from(POOL), finite_floats(-5, 5)), min_size=1, max_size=4)) for _ in range(dim)]
        return c
    if fn == 'randomly_bin':
        c['N'] = draw(st.one_of(st.integers(1, 40), st.sampled_from([1, 2, 3, 4, 5, 7, 8, 12, 30, 36, 64, 97, 210, 1024, 0])))
        c['ndim'] = draw(st.sampled_from([2, None, None, 1, 2, 3, 3, 4, 5]))
        c['args'] = draw(st.sampled_from(['default', 'kw']))
        c['ones'] = draw(st.booleans()); c['exact'] = draw(st.booleans())
        return c
    dim = draw(st.integers(1, 4))
    c['dim'] = dim
    integer = draw(st.booleans())
    if fn == 'random_samples_dist':
        c['per_axis'] = draw(st.booleans())
        lo, hi = draw(lab.boxes(dim, integer=integer, degenerate=False, same_sides=not c['per_axis']))
        c['clip'] = draw(st.booleans())
        c['sigma'] = draw(st.sampled_from([0.3, 1.0, 3.0]))
        c['npts'] = draw(st.integers(1, 30))
    elif fn == 'fillpts':
        lo, hi = draw(lab.boxes(dim if dim < 4 else 3, integer=integer, degenerate=False))
        c['dim'] = dim = len(lo)
        c['npts'] = draw(st.integers(0, 3 if not thorough else 5))
        c['rtol'] = draw(st.sampled_from([None, 0.5, -0.5, 0.1]))
        nd = draw(st.integers(0, 3))
        c['data'] = None if nd == 0 and draw(st.booleans()) else \
            [[l + f * (h - l) for l, h, f in zip(lo, hi, draw(st.lists(st.sampled_from([0.0, 0.25, 0.5, 1.0]), min_size=dim, max_size=dim)))]
             for _ in range(nd)]
    else:
        lo, hi = draw(lab.boxes(dim, integer=integer, degenerate=True))
        c['npts'] = draw(st.integers(0, 30))
    c['lo'] = lo; c['hi'] = hi
    return c


def run_points(case, ctx):
    from mystic.math import grid as G
    from mystic.math import samples as S
    lab.seed_rng(case['seed'])
    fn = case['fn']
    ctx.label('fn:' + fn)
    if fn == 'gridpts':
        q = [FL(a) for a in case['q']]
        got = G.gridpts([list(a) for a in q])
        want = [list(p) for p in itertools.product(*q)]      # documented example: the LAST axis varies fastest
        ctx.expect(isinstance(got, list) and [list(p) for p in got] == want, 'C09.gridpts',
                   lambda: dict(q=q, got=got, expected=want))
        ctx.label('grid-dim:%d' % len(q))
        ctx.nontrivial(len(want) >= 4 and sum(1 for a in q if len(a) >= 2) >= 2)
        return
    if fn == 'randomly_bin':
        N = case['N']; ndim = case['ndim']
        if case['args'] == 'default':
            r = G.randomly_bin(N, ndim); ones = True; exact = True
        else:
            ones = case['ones']; exact = case['exact']
            r = G.randomly_bin(N, ndim, ones=ones, exact=exact)
        r = [int(v) for v in r]
        d = lambda: dict(N=N, ndim=ndim, ones=ones, exact=exact, bins=r)
        prod = 1
        for v in r: prod *= v
        if ndim is not None:
            ctx.expect(len(r) == ndim, 'C09.randomly_bin', d)
        if N == 0:          # no bins at all: "N = prod(bins)" is all that can be said
            ctx.expect(prod == 0, 'C09.randomly_bin', d)
            ctx.label('zero-bins')
            return
        ctx.expect(all(v >= 1 for v in r), 'C09.randomly_bin', d)
        if exact or not is_prime(N):
            ctx.expect(prod == N, 'C09.randomly_bin', d)
        elif N > 3:
            ctx.expect(prod == N - 1, 'C09.randomly_bin', d)       # "if False, find N-1 bins for prime numbers"
        else:
            ctx.expect(prod in (N, N - 1), 'C09.randomly_bin', d)  # 2 and 3: either reading of the docstring
        if not ones and prod > 1:
            # "prevent bins from containing 1s, wherever possible": as few 1s as the factorisation allows
            k = nfactors(prod)
            if ndim is not None:
                ctx.expect(r.count(1) == max(0, ndim - k), 'C09.randomly_bin', lambda: dict(d(), prime_factors=k))
            else:
                ctx.expect(r.count(1) == 0, 'C09.randomly_bin', lambda: dict(d(), prime_factors=k))
        ctx.label('ndim:%s' % ndim, 'prime' if is_prime(N) else 'composite', 'ones:%s' % ones, 'exact:%s' % exact)
        ctx.nontrivial(ndim is not None and ndim >= 2 and N >= 4)
        return
    lo = FL(case['lo']); hi = FL(case['hi']); dim = case['dim']; npts = case['npts']
    d = lambda: dict(fn=fn, lo=lo, hi=hi, npts=npts)
    if fn == 'samplepts':
        pts = G.samplepts(lo, hi, npts)
        ctx.expect(isinstance(pts, list) and len(pts) == npts and all(len(p) == dim for p in pts), 'C09.samplepts',
                   lambda: dict(d(), n=len(pts)))
        for p in pts:
            ctx.expect(lab.in_box(p, lo, hi), 'C09.samplepts', lambda: dict(d(), point=list(p)))
    elif fn == 'random_samples':
        a = S.random_samples(lo, hi, npts)
        ctx.expect(tuple(np.shape(a)) == (dim, npts), 'C09.random_samples', lambda: dict(d(), shape=list(np.shape(a))))
        for p in np.asarray(a).T.tolist():
            ctx.expect(lab.in_box(p, lo, hi), 'C09.random_samples', lambda: dict(d(), point=p))
    elif fn == 'random_samples_dist':
        from mystic.math import Distribution
        sg = F(case['sigma'])
        if case['per_axis']:
            dist = [Distribution('numpy.random.normal', 0.5 * (l + h), sg * (h - l)) for l, h in zip(lo, hi)]
        else:
            dist = Distribution('numpy.random.normal', 0.5 * (lo[0] + hi[0]), sg * (hi[0] - lo[0]))
        a = S.random_samples(lo, hi, npts, dist, clip=case['clip'])
        ctx.expect(tuple(np.shape(a)) == (dim, npts), 'C09.random_samples', lambda: dict(d(), shape=list(np.shape(a)), dist=True))
        for p in np.asarray(a).T.tolist():
            ctx.expect(lab.in_box(p, lo, hi), 'C09.random_samples', lambda: dict(d(), point=p, dist=True, clip=case['clip']))
            if not case['clip']:       # "else resample": nothing is left sitting on a bound
                ctx.expect(all(l < v < h for v, l, h in zip(p, lo, hi)), 'C09.random_samples',
                           lambda: dict(d(), point=p, dist=True, clip=False, note='a clipped value was not resampled'))
        ctx.label('dist:per-axis' if case['per_axis'] else 'dist:single', 'clip:%s' % case['clip'])
    else:
        data = case['data']
        data_arg = None if data is None else [list(p) for p in FL(data)]
        pts = G.fillpts(lo, hi, npts, data_arg, case['rtol'])
        ctx.expect(isinstance(pts, list) and len(pts) == npts and all(len(p) == dim for p in pts), 'C09.fillpts',
                   lambda: dict(d(), data=data, rtol=case['rtol'], n=len(pts)))
        for p in pts:
            ctx.expect(lab.in_box(p, lo, hi), 'C09.fillpts', lambda: dict(d(), data=data, rtol=case['rtol'], point=list(p)))
        if data is not None:
            ctx.expect(data_arg == [list(p) for p in FL(data)], 'C09.fillpts', lambda: dict(d(), note='the legacy data was modified', data=data_arg))
        ctx.label('rtol:%s' % case['rtol'], 'data:%s' % (None if data is None else len(data)))
    ctx.label('pts-dim:%d' % dim)
    ctx.nontrivial(dim >= 2 and npts >= 4)


TESTS = [
    Test('ensemble', run_ensemble, strategy=lambda tier: ens_cases(tier), examples={'quick': 2000, 'thorough': 30000}),
    Test('wrapper', run_wrapper, strategy=lambda tier: wrapper_cases(tier), examples={'quick': 1200, 'thorough': 15000}),
    Test('points', run_points, strategy=lambda tier: point_cases(tier), examples={'quick': 6000, 'thorough': 80000}),
]


def _kf_bare_instance_counts(case, subcheck, detail):
    # a nested solver given as an instance without strict ranges of its own counts the calls of the ensemble's decorated
    # objective: points the ensemble's bounds wrapper rejects (no real cost call) are counted as evaluations
    # (further faces of the same thing: constraints / penalty also reach the member only inside that objective, so the
    # member stores - and the ensemble reports - the unconstrained vector it handed over, not the point that was evaluated;
    # in step-wise mode the instance has no objective at all when it is first stepped)
    return case.get('as') == 'bare' and subcheck in ('C09.evals', 'C09.twin', 'C09.member', 'C09.best', 'C09.no_crash', 'C09.start')


KNOWN = {'F57-bare-nested-instance-counts-rejected-points': _kf_bare_instance_counts}
