"""C18 - moment-imposing transforms hit their target and keep what they promise to keep;
the statistics and the distance metrics equal their textbook (weighted) definitions.

Six families, one @given test each:

  defs     mean, variance, std, moment, spread, norm, support(_index), expectation,
           expected_variance/std, minimum/maximum/ptp and the ess_* extrema
  shift    impose_mean, impose_variance, impose_std, impose_spread, impose_moment
  robust   median, mad, tmean, tvariance, tstd and impose_median/mad/tmean/tvariance/tstd
  weights  normalize, impose_sum, impose_product, impose_weight_norm, impose_support,
           impose_unweighted, impose_collapse
  dist     Lnorm, absolute_distance, chebyshev, hamming, minkowski, euclidean, manhattan
  reweight impose_reweighted_mean/variance/std (slow: symbolic solve + fmin, few cases)

Oracle: explicit sums with math.fsum (exact rational arithmetic for the trimming fractions),
never a mystic function.  Where a statistic is convention dependent (weighted median: lower /
upper / midpoint) the oracle is the convention-free defining inequality.
"""
import math
from fractions import Fraction
import numpy as np
from hypothesis import strategies as st
from vp.runner import Test
from vp.util import F

PROP = 'C18'
RULE = ("samples of length 2-10 drawn from a small pool (ties), the grid k/64 and 3-decimal floats in [-64,64]; two "
        "supported points >= 0.5 apart are constructed (non-degenerate variance/spread), for median/mad the supported "
        "points are distinct and no point carries half of the mass, for trimmed variants the trimming fractions are "
        "built from a cut that leaves mass on both sides; weights None / positive / positive with exact zeros (never "
        "all zero); targets from pools and floats; index / pair selections incl. negative indices, stars, chains and "
        "cliques.  Non-trivial: weighted with at least one exact zero weight and (for impose_*) a target different "
        "from the current value; for dist: two different point sets with a tie in some coordinate or p>=3; "
        "distinct by canonical JSON of the case.")
ASSUME = ["tolerance rel 1e-9 / abs 1e-12, where 'rel' is taken against max(|value|, sum of the absolute terms) so that "
          "cancelling sums (odd moments, means near zero) are judged at the precision of their terms",
          "population normalisation (divide by the total weight) as measures.moment's code comment and mean document",
          "mean/moment tol is read as |mean| <= tol (the docstring's 'mean <= tol' taken literally would zero every negative mean)",
          "impose_spread's 'weighted range' is spread() = max-min over all returned points (the documented definition of spread)",
          "weighted median: only the convention-free inequality W(x<m) <= W/2 >= W(x>m) is asserted; mad/median preservation "
          "for weighted data only when the weighted median is unique",
          "winsorising (clip=True) exactly on a cumulative-weight boundary accepts either neighbouring quantile",
          "impose_unweighted(nullable=False) with every supported point unweighted: how the total is spread over the other "
          "points is undocumented, only zeroing / total / mean are asserted; impose_collapse: which member of a pair keeps the "
          "weight is not asserted (docstring prose and examples disagree), only that one of the two is zeroed and both are tied",
          "impose_reweighted_*: a None result (documented 'could not impose' warning) is excluded and counted; sign of the new weights is only labelled"]

REL = 1e-9
ABS = 1e-12

POOL = [0.0, 1.0, -1.0, 2.0, 3.0, 0.5, -2.5, 4.0, 10.0, -7.25, 1.5]
WPOOL = [0.1, 0.2, 0.25, 0.5, 1.0, 2.0, 3.0]
GAPS = [0.5, 1.0, 2.0, 5.0, 0.75, 3.0]


# --------------------------------------------------------------------------- helpers / oracle
def near(a, b, scale=0.0, rel=REL, abs_=ABS):
    a = float(a); b = float(b)
    if a == b:
        return True
    if not (math.isfinite(a) and math.isfinite(b)):
        return False
    return abs(a - b) <= abs_ + rel * max(abs(a), abs(b), abs(scale))


def fl(seq):
    return [float(v) for v in seq]


def allfinite(seq):
    return all(math.isfinite(float(v)) for v in seq)


def wts(ws, n):
    return [1.0] * n if ws is None else ws


def wmean(xs, ws=None):
    w = wts(ws, len(xs))
    return math.fsum(a * b for a, b in zip(xs, w)) / math.fsum(w)


def wabs(xs, ws=None, c=0.0, k=1):
    """sum w |x-c|^k / sum w : the size of the terms of a weighted sum"""
    w = wts(ws, len(xs))
    return math.fsum(abs(b) * abs(a - c) ** k for a, b in zip(xs, w)) / math.fsum(w)


def wmoment(xs, ws=None, k=2):
    w = wts(ws, len(xs))
    m = wmean(xs, ws)
    return math.fsum(b * (a - m) ** k for a, b in zip(xs, w)) / math.fsum(w)


def supp(xs, ws, tol=0.0):
    if ws is None:
        return list(xs)
    return [x for x, w in zip(xs, ws) if w > tol]


def rng(xs):
    return max(xs) - min(xs)


def std_median(xs):
    s = sorted(xs); n = len(s)
    return s[n // 2] if n % 2 else 0.5 * (s[n // 2 - 1] + s[n // 2])


def std_mad(xs):
    m = std_median(xs)
    return std_median([abs(x - m) for x in xs])


def median_interval(xs, ws, eps=1e-12):
    """[L, U]: all m with W(x<m) <= W/2 and W(x>m) <= W/2 (every convention picks a point of it)"""
    items = sorted((x, w) for x, w in zip(xs, wts(ws, len(xs))) if w > 0)
    half = math.fsum(w for _, w in items) / 2.0
    L = U = None
    acc = []
    for x, w in items:
        acc.append(w)
        c = math.fsum(acc)
        if L is None and c >= half * (1 - eps):
            L = x
        if c > half * (1 + eps):
            U = x
            break
    if U is None:
        U = items[-1][0]
    return L, U


def inside(v, lo, hi, scale):
    t = ABS + REL * max(abs(lo), abs(hi), abs(v), abs(scale))
    return lo - t <= float(v) <= hi + t


def _moments(vals, w):
    tot = math.fsum(w)
    tm = math.fsum(a * b for a, b in zip(vals, w)) / tot
    tv = math.fsum(b * (a - tm) ** 2 for a, b in zip(vals, w)) / tot
    return tm, tv


def trim_oracle(xs, ws, klo, khi, clip):
    """candidates (tmean, tvariance) of the textbook fractional trimming / winsorising: the kept
    mass of a point is the overlap of its cumulative-weight interval with [klo%, 100%-khi%]"""
    items = sorted(zip(xs, wts(ws, len(xs))))
    vals = [x for x, _ in items]
    fw = [Fraction(w) for _, w in items]
    W = sum(fw)
    lo = Fraction(klo) / 100
    hi = 1 - Fraction(khi) / 100
    cum = []; c = Fraction(0)
    for w in fw:
        c += w; cum.append(c / W)
    prev = [Fraction(0)] + cum[:-1]
    if not clip:
        kept = [float(max(Fraction(0), min(ci, hi) - max(pi, lo))) for ci, pi in zip(cum, prev)]
        return [_moments(vals, kept)]
    eps = Fraction(1, 10 ** 12)
    out = []
    for e1 in (-eps, eps):
        for e2 in (-eps, eps):
            ql = [v for v, ci in zip(vals, cum) if ci > lo + e1]
            qh = [v for v, pi in zip(vals, prev) if pi < hi + e2]
            if not ql or not qh:
                continue
            a, b = ql[0], qh[-1]
            cl = [min(max(v, a), b) for v in vals]
            r = _moments(cl, [float(w) for w in fw])
            if r not in out:
                out.append(r)
    return out


def poly(f):
    c0 = f['c0']; lin = f['lin']; quad = f['quad']

    def fn(x):
        x = list(x)
        v = c0
        for a, t in zip(lin, x):
            v += a * t
        for a, t in zip(quad, x):
            v += a * t * t
        if len(x) > 1:
            v += f['cross'] * x[0] * x[1]
        return v
    return fn


# --------------------------------------------------------------------------- generators
def xval():
    return st.one_of(st.sampled_from(POOL),
                     st.integers(-4096, 4096).map(lambda k: k / 64.0),
                     st.floats(-64, 64, allow_nan=False).map(lambda v: round(v, 3) + 0.0))


def wval():
    return st.one_of(st.sampled_from(WPOOL), st.floats(0.05, 10.0, allow_nan=False))


def gapval():
    return st.one_of(st.sampled_from(GAPS), st.floats(0.5, 50.0, allow_nan=False).map(lambda v: round(v, 3)))


def target():
    return st.one_of(st.sampled_from([0.0, 1.0, -1.0, 2.5, 10.0, -40.0]), st.floats(-100, 100, allow_nan=False))


def ptarget(lo=1e-3, hi=1e3):
    return st.one_of(st.sampled_from([0.25, 1.0, 2.0, 4.0, 9.0, 100.0]), st.floats(lo, hi, allow_nan=False))


@st.composite
def two(draw, n):
    a = draw(st.integers(0, n - 1))
    b = draw(st.integers(0, n - 2))
    if b >= a:
        b += 1
    return a, b


@st.composite
def data(draw, weighted=None, nmin=2, nmax=10):
    """samples + weights with two supported points a, b at least 0.5 apart (constructed)"""
    n = draw(st.integers(nmin, nmax))
    xs = draw(st.lists(xval(), min_size=n, max_size=n))
    a, b = draw(two(n))
    g = draw(gapval())
    xs[b] = xs[a] + (g if draw(st.booleans()) else -g)
    if n > 2:
        for _ in range(draw(st.integers(0, 2))):           # ties
            i = draw(st.integers(0, n - 1)); j = draw(st.integers(0, n - 1))
            if i not in (a, b):
                xs[i] = xs[j]
    mode = draw(st.sampled_from(['none', 'pos', 'zeros', 'zeros'])) if weighted is None else weighted
    if mode == 'zeros' and n == 2:
        mode = 'pos'
    ws = None
    if mode != 'none':
        ws = draw(st.lists(wval(), min_size=n, max_size=n))
        if mode == 'zeros':
            free = [i for i in range(n) if i not in (a, b)]
            z = draw(st.sampled_from(free))
            for i in free:
                if i == z or draw(st.booleans()):
                    ws[i] = 0.0
    return xs, ws


@st.composite
def distinct_data(draw, weighted=None):
    """distinct sample values >= 0.25 apart in random order; when weighted >= 3 supported points whose
    weights lie within [1,1.9]*c (no point carries half of the mass); zero-weight points may tie"""
    mode = draw(st.sampled_from(['none', 'pos', 'zeros', 'zeros'])) if weighted is None else weighted
    n = draw(st.integers(2 if mode == 'none' else (3 if mode == 'pos' else 4), 10))
    x = draw(xval())
    xs = [x]
    for _ in range(n - 1):
        x = x + draw(st.one_of(st.sampled_from([0.25, 0.5, 1.0, 2.0, 7.0]),
                               st.floats(0.25, 20.0, allow_nan=False).map(lambda v: round(v, 3))))
        xs.append(x)
    xs = list(draw(st.permutations(xs)))
    if mode == 'none':
        return xs, None
    c = draw(st.sampled_from([0.1, 0.5, 1.0, 3.0]))
    ws = [c * draw(st.one_of(st.sampled_from([1.0, 1.25, 1.5, 1.9]), st.floats(1.0, 1.9, allow_nan=False)))
          for _ in range(n)]
    if mode == 'zeros':
        nz = draw(st.integers(1, n - 3))
        for i in range(nz):                                 # the list is already in random order
            ws[i] = 0.0
            if draw(st.booleans()):
                xs[i] = xs[draw(st.integers(nz, n - 1))]    # a zero-weight point tied with a supported one
    return xs, ws


@st.composite
def defs_cases(draw):
    xs, ws = draw(data())
    n = len(xs)
    tolw = 0.0
    if ws is not None:
        top = max(ws)
        opts = [0.0, 0.0, top / 2.0] + [w for w in ws if 0 < w < top]
        tolw = draw(st.sampled_from(opts))
    dim = draw(st.integers(1, 2))
    zs = draw(st.lists(xval(), min_size=n, max_size=n))
    coef = st.sampled_from([0.0, 1.0, -1.0, 0.5, 2.0, -0.25])
    f = dict(c0=draw(coef), lin=[draw(coef), draw(coef)], quad=[draw(coef), draw(coef)], cross=draw(coef))
    return dict(xs=xs, ws=ws, order=draw(st.integers(2, 6)), tolw=tolw,
                tolm=draw(st.sampled_from([0.0, 0.0, 1e-3, 0.5, 5.0])), dim=dim, zs=zs, f=f)


@st.composite
def shift_cases(draw):
    xs, ws = draw(data())
    return dict(xs=xs, ws=ws, m=draw(target()),
                v=draw(st.one_of(st.just(0.0), ptarget())),
                s=draw(st.one_of(st.just(0.0), ptarget(0.03, 30.0))),
                r=draw(st.one_of(st.just(0.0), ptarget(0.01, 1e3))),
                morder=draw(st.sampled_from([2, 3, 4, 4, 6])),
                mval=draw(ptarget(1e-2, 1e3)), mneg=draw(st.booleans()))


def _cut(xs, ws):
    """mass fraction at or below the widest gap between adjacent distinct supported values"""
    items = sorted((x, w) for x, w in zip(xs, wts(ws, len(xs))) if w > 0)
    tot = math.fsum(w for _, w in items)
    best = None; acc = 0.0
    cums = []
    for i, (x, w) in enumerate(items):
        acc += w
        cums.append(acc / tot)
        if i + 1 < len(items) and items[i + 1][0] > x:
            g = items[i + 1][0] - x
            if best is None or g > best[0]:
                best = (g, acc / tot)
    return best[1], cums


@st.composite
def robust_cases(draw):
    fam = draw(st.sampled_from(['median', 'trim']))
    if fam == 'median':
        xs, ws = draw(distinct_data())
        return dict(fam=fam, xs=xs, ws=ws, m=draw(target()), s=draw(st.one_of(st.just(0.0), ptarget(0.03, 30.0))))
    xs, ws = draw(data())
    c, cums = _cut(xs, ws)
    lomax = 50.0 * c; himax = 50.0 * (1.0 - c)
    frac = st.one_of(st.sampled_from([0.0, 0.5, 1.0]), st.floats(0, 1, allow_nan=False))
    form = draw(st.sampled_from(['zero', 'float', 'pair', 'pair', 'hit']))
    if form == 'zero':
        k = 0
    elif form == 'float':
        k = draw(frac) * min(lomax, himax)
    elif form == 'pair':
        k = [draw(frac) * lomax, draw(frac) * himax]
    else:                                                   # the low cut exactly on a cumulative weight
        hits = [100.0 * ci for ci in cums if 100.0 * ci <= lomax]
        k = [draw(st.sampled_from(hits)) if hits else 0.0, draw(frac) * himax]
    return dict(fam=fam, xs=xs, ws=ws, k=k, form=form, clip=draw(st.booleans()), m=draw(target()),
                v=draw(st.one_of(st.just(0.0), ptarget())), s=draw(st.one_of(st.just(0.0), ptarget(0.03, 30.0))))


@st.composite
def pair_sets(draw, n):
    kinds = ['single', 'random']
    if n >= 3:
        kinds += ['star', 'chain', 'clique']
    if n >= 4:
        kinds += ['disjoint', 'chain']
    kind = draw(st.sampled_from(kinds))
    idx = list(draw(st.permutations(range(n))))
    if kind == 'single':
        ps = [(idx[0], idx[1])]
    elif kind == 'disjoint':
        ps = [(idx[0], idx[1]), (idx[2], idx[3])]
    elif kind == 'star':
        k = draw(st.integers(2, min(4, n - 1)))
        ps = [(idx[0], idx[i]) for i in range(1, k + 1)]
    elif kind == 'chain':
        k = draw(st.integers(3, min(5, n)))
        ps = [(idx[i], idx[i + 1]) for i in range(k - 1)]
    elif kind == 'clique':
        k = draw(st.integers(3, min(4, n)))
        m = sorted(idx[:k])
        ps = [(m[i], m[j]) for i in range(k) for j in range(i + 1, k)]     # i<j, as collapse_position reports them
    else:
        k = draw(st.integers(1, 4))
        ps = []
        for _ in range(k):
            a, b = draw(two(n))
            if (a, b) not in ps and (b, a) not in ps:
                ps.append((a, b))
    if kind not in ('clique',):
        ps = [(b, a) if draw(st.booleans()) else (a, b) for a, b in ps]
    if draw(st.integers(0, 5)) == 0:
        ps = [(a - n if draw(st.booleans()) else a, b) for a, b in ps]
    return kind, [list(p) for p in ps]


@st.composite
def weights_cases(draw):
    fn = draw(st.sampled_from(['normalize', 'impose_sum', 'impose_product', 'impose_weight_norm',
                               'impose_support', 'impose_unweighted', 'impose_collapse', 'impose_collapse']))
    mass = st.one_of(st.sampled_from([1.0, 1.0, 0.5, 2.0, 10.0]), st.floats(0.1, 100.0, allow_nan=False))
    if fn in ('normalize', 'impose_sum'):
        n = draw(st.integers(2, 10))
        ws = draw(st.lists(wval(), min_size=n, max_size=n))
        kind = draw(st.sampled_from(['pos', 'zeros', 'signed']))
        keep = draw(st.integers(0, n - 1))
        if kind == 'zeros':
            ws = [w if (i == keep or draw(st.booleans())) else 0.0 for i, w in enumerate(ws)]
        elif kind == 'signed':
            sg = [w if (i == keep or draw(st.booleans())) else -w for i, w in enumerate(ws)]
            if abs(math.fsum(sg)) >= 0.1 * math.fsum(ws):     # keep the sum away from zero (else: stay positive)
                ws = sg
        m = draw(st.one_of(mass, st.sampled_from([0.0, -1.0, -2.5])))
        c = dict(fn=fn, ws=ws, mass=m, zsum=False, zmass=1.0)
        if fn == 'normalize' and draw(st.integers(0, 3)) == 0:
            c['mass'] = draw(st.sampled_from(['l1', 'l2', 'l3', 'l2']))
            if draw(st.integers(0, 2)) == 0 and kind != 'signed':
                i = draw(st.integers(0, n - 1))
                if i != keep:
                    ws[i] = draw(st.sampled_from([1e-170, 1e-200, 3e-180]))
        elif m == 0.0 and draw(st.booleans()):
            c['zsum'] = True; c['zmass'] = draw(st.sampled_from([1.0, 2.0, 0.5]))
        return c
    if fn == 'impose_product':
        n = draw(st.integers(2, 8))
        ws = draw(st.lists(st.one_of(st.sampled_from(WPOOL), st.floats(0.1, 5.0, allow_nan=False)), min_size=n, max_size=n))
        m = draw(st.one_of(mass, st.just(0.0)))
        if n % 2 and draw(st.booleans()):
            m = -m
        return dict(fn=fn, ws=ws, mass=m, zsum=(m == 0.0 and draw(st.booleans())))
    xs, ws = draw(data(weighted=draw(st.sampled_from(['pos', 'zeros', 'zeros']))))
    n = len(xs)
    c = dict(fn=fn, xs=xs, ws=ws)
    sup = [i for i, w in enumerate(ws) if w > 0]
    if fn == 'impose_weight_norm':
        c['mass'] = draw(mass)
        return c
    if fn == 'impose_support':
        must = draw(st.sampled_from(sup))
        idx = [i for i in range(n) if i == must or draw(st.booleans())]
        idx = list(draw(st.permutations(idx)))
        if draw(st.integers(0, 4)) == 0:
            idx.append(idx[0])                              # a duplicate
        if draw(st.integers(0, 3)) == 0:
            idx = [i - n if draw(st.booleans()) else i for i in idx]
        c['index'] = None if draw(st.integers(0, 9)) == 0 else idx
        return c
    if fn == 'impose_unweighted':
        c['nullable'] = draw(st.booleans())
        zero_pts = [i for i in range(n) if ws[i] == 0]
        if not c['nullable'] and zero_pts and draw(st.booleans()):
            # every supported point is unweighted; the documented re-weighting of the others applies
            keep = draw(st.sampled_from(zero_pts))
            idx = [i for i in range(n) if i in sup or (i != keep and draw(st.booleans()))]
            c['null'] = True
        else:
            keep = draw(st.sampled_from(sup))
            idx = [i for i in range(n) if i != keep and draw(st.booleans())]
            c['null'] = False
        idx = list(draw(st.permutations(idx)))
        if draw(st.integers(0, 3)) == 0:
            idx = [i - n if draw(st.booleans()) else i for i in idx]
        c['index'] = None if (not idx and draw(st.booleans())) else idx
        return c
    kind, ps = draw(pair_sets(n))
    c['pairs'] = ps; c['shape'] = kind
    return c


TINY = [1e-170, -1e-200, 3e-180, 1e-120]


def coord():
    return st.one_of(st.sampled_from([0.0, 1.0, -1.0, 2.0, 0.5, 3.0, -4.0]), st.integers(-20, 20).map(float),
                     st.floats(-50, 50, allow_nan=False).map(lambda v: round(v, 3) + 0.0))


@st.composite
def dist_cases(draw):
    d = draw(st.integers(1, 4)); n = draw(st.integers(1, 4)); m = draw(st.integers(1, 4))
    mode = draw(st.sampled_from(['point', 'point', 'pair', 'vec', 'vec2', 'scalars', 'self', 'vec-set']))
    if mode == 'pair':
        m = n
    if mode in ('vec', 'vec2'):
        n = m = 1
    X = [[draw(coord()) for _ in range(d)] for _ in range(n)]
    XP = [[(X[draw(st.integers(0, n - 1))][k] if draw(st.integers(0, 2)) == 0 else draw(coord())) for k in range(d)]
          for _ in range(m)]
    nv = draw(st.integers(1, 8))
    v = [draw(st.one_of(st.just(0.0), coord())) for _ in range(nv)]
    if draw(st.integers(0, 3)) == 0:
        # one or two entries that are tiny next to the others: their p-th power underflows to zero,
        # which is harmless (the textbook value does not notice them)
        for _ in range(draw(st.integers(1, 2))):
            i = draw(st.integers(0, nv - 1)); v[i] = draw(st.sampled_from(TINY))
            if draw(st.booleans()):
                r = draw(st.integers(0, n - 1)); k = draw(st.integers(0, d - 1)); X[r][k] = draw(st.sampled_from(TINY))
    return dict(mode=mode, X=X, XP=XP, p=draw(st.sampled_from([1, 2, 3, 5, 'inf'])),
                v=v, lp=draw(st.sampled_from([0, 1, 2, 3, 'inf'])), axis=draw(st.sampled_from([0, 1])))


@st.composite
def reweight_cases(draw):
    fn = draw(st.sampled_from(['impose_reweighted_mean', 'impose_reweighted_variance', 'impose_reweighted_std']))
    n = draw(st.integers(2 if fn.endswith('mean') else 3, 5))
    x = draw(st.sampled_from([0.0, 1.0, -3.0, 2.5]))
    xs = [x]
    for _ in range(n - 1):
        x = x + draw(st.sampled_from([0.5, 1.0, 2.0, 1.5]))
        xs.append(x)
    xs = list(draw(st.permutations(xs)))
    ws = None
    if draw(st.booleans()):
        ws = [draw(st.sampled_from([0.1, 0.2, 0.25, 0.5, 1.0])) for _ in range(n)]
    t = draw(st.sampled_from([0.2, 0.35, 0.5, 0.65, 0.8]))
    return dict(fn=fn, xs=xs, ws=ws, t=t)


# --------------------------------------------------------------------------- labels
def data_labels(ctx, xs, ws):
    n = len(xs)
    ctx.label('n:%s' % ('2' if n == 2 else '3-5' if n <= 5 else '6-10'))
    if ws is None:
        ctx.label('unweighted')
    else:
        ctx.label('weighted')
        if any(w == 0 for w in ws):
            ctx.label('zero-weights')
            s = supp(xs, ws)
            if min(xs) < min(s) or max(xs) > max(s):
                ctx.label('zero-weight-extreme')
    if len(set(xs)) < n:
        ctx.label('ties')
    return ws is not None and any(w == 0 for w in ws)


# --------------------------------------------------------------------------- defs
def run_defs(case, ctx):
    from mystic.math import measures as M
    xs = case['xs']; ws = case['ws']; n = len(xs)
    zeros = data_labels(ctx, xs, ws)
    m = wmean(xs, ws)
    sc = wabs(xs, ws)
    got = M.mean(xs, ws)
    ctx.expect(near(got, m, sc), 'C18.mean', lambda: dict(xs=xs, ws=ws, got=float(got), want=m))
    tolm = case['tolm']
    if tolm:
        if abs(abs(m) - tolm) <= 1e-9 * max(sc, tolm):
            ctx.exclude('mean-on-tol-boundary')
        else:
            want = 0.0 if abs(m) <= tolm else m
            got = M.mean(xs, ws, tolm)
            ctx.label('mean-tol:%s' % ('zeroed' if want == 0.0 and m != 0 else 'kept'))
            ctx.expect(near(got, want, sc), 'C18.mean_tol', lambda: dict(xs=xs, ws=ws, tol=tolm, got=float(got), want=want))
    for k in sorted(set([0, 1, 2, 3, case['order']])):
        want = 1.0 if k == 0 else 0.0 if k == 1 else wmoment(xs, ws, k)
        got = M.moment(xs, ws, order=k)
        ctx.expect(near(got, want, wabs(xs, ws, m, k)), 'C18.moment',
                   lambda: dict(xs=xs, ws=ws, order=k, got=float(got), want=want))
    var = wmoment(xs, ws, 2)
    got = M.variance(xs, ws)
    ctx.expect(near(got, var), 'C18.variance', lambda: dict(xs=xs, ws=ws, got=float(got), want=var))
    got = M.std(xs, ws)
    ctx.expect(near(got, math.sqrt(var)), 'C18.std', lambda: dict(xs=xs, ws=ws, got=float(got), want=math.sqrt(var)))
    got = M.spread(xs)
    ctx.expect(near(got, rng(xs)), 'C18.spread', lambda: dict(xs=xs, got=float(got), want=rng(xs)))
    f = poly(case['f'])
    pts = [[x] for x in xs] if case['dim'] == 1 else [[x, z] for x, z in zip(xs, case['zs'])]
    ys = [f(p) for p in pts]
    ysc = max(abs(y) for y in ys)
    ctx.expect(near(M.minimum(f, pts), min(ys)) and near(M.maximum(f, pts), max(ys)) and near(M.ptp(f, pts), rng(ys), ysc),
               'C18.extrema', lambda: dict(ys=ys, got=[float(M.minimum(f, pts)), float(M.maximum(f, pts)), float(M.ptp(f, pts))]))
    tol = case['tolw']
    if ws is None:
        inc = list(range(n))
        kw = {}
    else:
        inc = [i for i in range(n) if ws[i] > tol]
        kw = dict(tol=tol)
        if tol:
            ctx.label('weight-tol>0')
            if any(w == tol for w in ws):
                ctx.label('weight-on-tol')
        got = M.norm(ws)
        ctx.expect(near(got, math.fsum(ws) / n), 'C18.norm', lambda: dict(ws=ws, got=float(got)))
        got = M.support_index(ws, tol)
        ctx.expect(list(got) == inc, 'C18.support', lambda: dict(ws=ws, tol=tol, got=list(got), want=inc))
        got = M.support(xs, ws, tol)
        ctx.expect(fl(got) == [xs[i] for i in inc], 'C18.support', lambda: dict(ws=ws, tol=tol, got=fl(got), want=inc))
    yi = [ys[i] for i in inc]
    wi = None if ws is None else [ws[i] for i in inc]
    got = [M.ess_minimum(f, pts, ws, **kw), M.ess_maximum(f, pts, ws, **kw), M.ess_ptp(f, pts, ws, **kw)]
    ctx.expect(near(got[0], min(yi)) and near(got[1], max(yi)) and near(got[2], rng(yi), ysc), 'C18.ess_extrema',
               lambda: dict(ys=ys, ws=ws, tol=tol, got=fl(got), want=[min(yi), max(yi), rng(yi)]))
    if len(yi) < n and (min(yi) > min(ys) or max(yi) < max(ys)):
        ctx.label('ess-differs-from-plain')
    e = wmean(yi, wi)
    got = M.expectation(f, pts, ws, **kw)
    ctx.expect(near(got, e, wabs(yi, wi)), 'C18.expectation',
               lambda: dict(pts=pts, ws=ws, tol=tol, f=case['f'], got=float(got), want=e))
    ev = wmoment(yi, wi, 2)
    got = M.expected_variance(f, pts, ws, **kw)
    ctx.expect(near(got, ev, wabs(yi, wi, e, 2)), 'C18.expected_variance',
               lambda: dict(pts=pts, ws=ws, tol=tol, f=case['f'], got=float(got), want=ev))
    got = M.expected_std(f, pts, ws, **kw)
    ctx.expect(near(got, math.sqrt(ev), math.sqrt(wabs(yi, wi, e, 2))), 'C18.expected_variance',
               lambda: dict(pts=pts, ws=ws, tol=tol, f=case['f'], got=float(got), want=math.sqrt(ev)))
    ctx.nontrivial(zeros and n >= 3)


# --------------------------------------------------------------------------- shift
def _mean_kept(ctx, name, y, ws, m0, detail):
    ctx.expect(near(wmean(y, ws), m0, wabs(y, ws)), name, detail)


def run_shift(case, ctx):
    from mystic.math import measures as M
    xs = case['xs']; ws = case['ws']
    zeros = data_labels(ctx, xs, ws)
    m0 = wmean(xs, ws); v0 = wmoment(xs, ws, 2); r0 = rng(xs); e0 = rng(supp(xs, ws))
    big = max(abs(x) for x in xs)

    def det(fn, tgt, y, **kw):
        d = dict(fn=fn, target=tgt, xs=xs, ws=ws, result=fl(y)); d.update(kw)
        return d

    # impose_mean
    m = case['m']
    y = fl(M.impose_mean(m, xs, ws))
    ctx.expect(len(y) == len(xs) and allfinite(y), 'C18.shape', lambda: det('impose_mean', m, y))
    ctx.expect(near(wmean(y, ws), m, wabs(y, ws)), 'C18.impose_mean_target', lambda: det('impose_mean', m, y, got=wmean(y, ws)))
    ctx.expect(near(rng(y), r0, big + abs(m)) and near(rng(supp(y, ws)), e0, big + abs(m)), 'C18.impose_mean_keeps_spread',
               lambda: det('impose_mean', m, y, spread=[rng(y), r0], ess=[rng(supp(y, ws)), e0]))
    ctx.expect(near(wmoment(y, ws, 2), v0), 'C18.impose_mean_keeps_variance',
               lambda: det('impose_mean', m, y, got=wmoment(y, ws, 2), want=v0))
    # impose_variance
    v = case['v']
    y = fl(M.impose_variance(v, xs, ws))
    ctx.expect(len(y) == len(xs) and allfinite(y), 'C18.shape', lambda: det('impose_variance', v, y))
    ctx.expect(near(wmoment(y, ws, 2), v), 'C18.impose_variance_target', lambda: det('impose_variance', v, y, got=wmoment(y, ws, 2)))
    _mean_kept(ctx, 'C18.impose_variance_keeps_mean', y, ws, m0, lambda: det('impose_variance', v, y, got=wmean(y, ws), want=m0))
    # impose_std
    s = case['s']
    y = fl(M.impose_std(s, xs, ws))
    ctx.expect(len(y) == len(xs) and allfinite(y), 'C18.shape', lambda: det('impose_std', s, y))
    ctx.expect(near(math.sqrt(wmoment(y, ws, 2)), s), 'C18.impose_std_target',
               lambda: det('impose_std', s, y, got=math.sqrt(wmoment(y, ws, 2))))
    _mean_kept(ctx, 'C18.impose_std_keeps_mean', y, ws, m0, lambda: det('impose_std', s, y, got=wmean(y, ws), want=m0))
    # impose_spread
    r = case['r']
    y = fl(M.impose_spread(r, xs, ws))
    ctx.expect(len(y) == len(xs) and allfinite(y), 'C18.shape', lambda: det('impose_spread', r, y))
    ctx.expect(near(rng(y), r, max(abs(t) for t in y)), 'C18.impose_spread_target', lambda: det('impose_spread', r, y, got=rng(y)))
    _mean_kept(ctx, 'C18.impose_spread_keeps_mean', y, ws, m0, lambda: det('impose_spread', r, y, got=wmean(y, ws), want=m0))
    # impose_moment
    k = case['morder']; mv = case['mval']
    ctx.label('moment-order:%d' % k)
    if k % 2:
        if case['mneg']:
            mv = -mv
        sq = [x * x for x in xs]                           # documented: odd orders skew the samples (i**2) first
        sv = wmoment(sq, ws, k)
        if abs(sv) <= 1e-4 * wabs(sq, ws, wmean(sq, ws), k):    # (<=: all squares equal gives 0 <= 0)
            ctx.exclude('odd-moment-of-skewed-samples-degenerate')
            k = None
    if k:
        y = fl(M.impose_moment(mv, xs, ws, order=k))
        ctx.expect(len(y) == len(xs) and allfinite(y), 'C18.shape', lambda: det('impose_moment', mv, y, order=k))
        ym = wmean(y, ws)
        ctx.expect(near(wmoment(y, ws, k), mv, wabs(y, ws, ym, k)), 'C18.impose_moment_target',
                   lambda: det('impose_moment', mv, y, order=k, got=wmoment(y, ws, k)))
        _mean_kept(ctx, 'C18.impose_moment_keeps_mean', y, ws, m0, lambda: det('impose_moment', mv, y, order=k, got=ym, want=m0))
    ctx.nontrivial(zeros and not near(m, m0) and not near(v, v0) and not near(r, r0))


# --------------------------------------------------------------------------- robust
def _mad_interval(xs, ws, med):
    return median_interval([abs(x - med) for x in xs], ws)


def run_robust(case, ctx):
    from mystic.math import measures as M
    xs = case['xs']; ws = case['ws']; n = len(xs)
    zeros = data_labels(ctx, xs, ws)
    ctx.label('fam:' + case['fam'], 'count:' + ('even' if n % 2 == 0 else 'odd'))
    big = max(abs(x) for x in xs)

    def det(fn, tgt, y=None, **kw):
        d = dict(fn=fn, target=tgt, xs=xs, ws=ws)
        if y is not None:
            d['result'] = fl(y)
        d.update(kw)
        return d

    if case['fam'] == 'median':
        m = case['m']; s = case['s']
        L, U = median_interval(xs, ws)
        unique = (L == U)
        ctx.label('median-unique' if unique else 'median-interval')
        med = float(M.median(xs, ws))
        mad = float(M.mad(xs, ws))
        y = fl(M.impose_median(m, xs, ws))
        ctx.expect(len(y) == n and allfinite(y), 'C18.shape', lambda: det('impose_median', m, y))
        z = fl(M.impose_mad(s, xs, ws))
        ctx.expect(len(z) == n and allfinite(z), 'C18.shape', lambda: det('impose_mad', s, z))
        if ws is None:
            m0 = std_median(xs); d0 = std_mad(xs)
            ctx.expect(near(med, m0, big), 'C18.median_def', lambda: det('median', None, got=med, want=m0))
            ctx.expect(near(mad, d0, big), 'C18.mad_def', lambda: det('mad', None, got=mad, want=d0))
            ctx.expect(near(std_median(y), m, big + abs(m)), 'C18.impose_median_target',
                       lambda: det('impose_median', m, y, got=std_median(y)))
            ctx.expect(near(std_mad(y), d0, big + abs(m)), 'C18.impose_median_keeps_mad',
                       lambda: det('impose_median', m, y, got=std_mad(y), want=d0))
            zb = max(abs(t) for t in z) + big
            ctx.expect(near(std_mad(z), s, zb), 'C18.impose_mad_target', lambda: det('impose_mad', s, z, got=std_mad(z)))
            ctx.expect(near(std_median(z), m0, zb), 'C18.impose_mad_keeps_median',
                       lambda: det('impose_mad', s, z, got=std_median(z), want=m0))
        else:
            ctx.expect(inside(med, L, U, big), 'C18.median_def', lambda: det('median', None, got=med, lower=L, upper=U))
            Ly, Uy = median_interval(y, ws)
            ctx.expect(inside(m, Ly, Uy, big + abs(m)), 'C18.impose_median_target',
                       lambda: det('impose_median', m, y, lower=Ly, upper=Uy))
            if unique:
                Ld, Ud = _mad_interval(xs, ws, L)
                ctx.expect(inside(mad, Ld, Ud, big), 'C18.mad_def', lambda: det('mad', None, got=mad, lower=Ld, upper=Ud))
                if near(Ly, Uy, big + abs(m)):
                    Lyd, Uyd = _mad_interval(y, ws, Ly)
                    ctx.expect(near(Lyd, Ld, big + abs(m)) and near(Uyd, Ud, big + abs(m)), 'C18.impose_median_keeps_mad',
                               lambda: det('impose_median', m, y, got=[Lyd, Uyd], want=[Ld, Ud]))
                zb = max(abs(t) for t in z) + big
                Lz, Uz = median_interval(z, ws)
                ctx.expect(near(Lz, L, zb) and near(Uz, L, zb), 'C18.impose_mad_keeps_median',
                           lambda: det('impose_mad', s, z, got=[Lz, Uz], want=L))
                Lzd, Uzd = _mad_interval(z, ws, Lz)
                ctx.expect(inside(s, Lzd, Uzd, zb), 'C18.impose_mad_target', lambda: det('impose_mad', s, z, lower=Lzd, upper=Uzd))
            else:
                ctx.exclude('weighted-median-not-unique:mad-checks')
        ctx.expect(near(rng(y), rng(xs), big + abs(m)), 'C18.impose_median_keeps_spread',
                   lambda: det('impose_median', m, y, got=rng(y), want=rng(xs)))
        ctx.nontrivial(zeros and not inside(m, L, U, big))
        return

    # trimmed family
    k = case['k']; clip = case['clip']
    klo, khi = (k, k) if not isinstance(k, list) else k
    karg = tuple(k) if isinstance(k, list) else k
    ctx.label('k:' + case['form'], 'clip' if clip else 'trim')
    if klo or khi:
        ctx.label('k>0')

    def cands(vals):
        return trim_oracle(vals, ws, klo, khi, clip)

    def anynear(got, wants, scale):
        return any(near(got, w, scale) for w in wants)

    c0 = cands(xs)
    if len(c0) > 1:
        ctx.label('clip-quantile-on-boundary')
    tm = float(M.tmean(xs, ws, k=karg, clip=clip))
    tv = float(M.tvariance(xs, ws, k=karg, clip=clip))
    ts = float(M.tstd(xs, ws, k=karg, clip=clip))
    ctx.expect(anynear(tm, [c[0] for c in c0], big), 'C18.tmean_def', lambda: det('tmean', None, k=k, clip=clip, got=tm, want=c0))
    ctx.expect(any(near(tm, c[0], big) and near(tv, c[1]) and near(ts, math.sqrt(c[1])) for c in c0), 'C18.tvariance_def',
               lambda: det('tvariance', None, k=k, clip=clip, got=[tm, tv, ts], want=c0))
    m = case['m']; v = case['v']; s = case['s']
    y = fl(M.impose_tmean(m, xs, ws, k=karg, clip=clip))
    ctx.expect(len(y) == n and allfinite(y), 'C18.shape', lambda: det('impose_tmean', m, y))
    cy = cands(y)
    yb = big + abs(m)
    ctx.expect(anynear(m, [c[0] for c in cy], yb), 'C18.impose_tmean_target', lambda: det('impose_tmean', m, y, k=k, clip=clip, got=cy))
    ctx.expect(near(rng(y), rng(xs), yb), 'C18.impose_tmean_keeps_spread', lambda: det('impose_tmean', m, y, got=rng(y), want=rng(xs)))
    ctx.expect(any(near(a[1], b[1]) for a in cy for b in c0), 'C18.impose_tmean_keeps_tvariance',
               lambda: det('impose_tmean', m, y, k=k, clip=clip, got=cy, want=c0))
    for fn, tgt, vt in (('impose_tvariance', v, v), ('impose_tstd', s, s * s)):
        z = fl(getattr(M, fn)(tgt, xs, ws, k=karg, clip=clip))
        ctx.expect(len(z) == n and allfinite(z), 'C18.shape', lambda: det(fn, tgt, z, k=k, clip=clip))
        cz = cands(z)
        zb = max(abs(t) for t in z) + big
        ctx.expect(any(near(c[1], vt) for c in cz), 'C18.%s_target' % fn, lambda: det(fn, tgt, z, k=k, clip=clip, got=cz))
        ctx.expect(any(near(a[0], b[0], zb) for a in cz for b in c0), 'C18.%s_keeps_tmean' % fn,
                   lambda: det(fn, tgt, z, k=k, clip=clip, got=cz, want=c0))
    ctx.nontrivial(zeros and (klo or khi) and not near(m, c0[0][0]) and not near(v, c0[0][1]))


# --------------------------------------------------------------------------- weights
def _components(n, pairs):
    parent = list(range(n))

    def find(i):
        while parent[i] != i:
            parent[i] = parent[parent[i]]
            i = parent[i]
        return i
    for a, b in pairs:
        parent[find(a)] = find(b)
    comps = {}
    for i in range(n):
        comps.setdefault(find(i), []).append(i)
    return [c for c in comps.values() if len(c) > 1]


def run_weights(case, ctx):
    from mystic.math import measures as M
    fn = case['fn']
    ctx.label('fn:' + fn)
    ws = case['ws']; n = len(ws)
    tot = math.fsum(ws)
    if any(w == 0 for w in ws):
        ctx.label('zero-weights')
    if any(w < 0 for w in ws):
        ctx.label('signed')

    if fn in ('normalize', 'impose_sum'):
        mass = case['mass']
        if fn == 'normalize':
            r = fl(M.normalize(ws, mass, case['zsum'], case['zmass']))
        else:
            r = fl(M.impose_sum(mass, ws, case['zsum'], case['zmass']))
        det = lambda: dict(case, result=r)
        ctx.expect(len(r) == n and allfinite(r), 'C18.shape', det)
        rs = math.fsum(abs(t) for t in r)
        if isinstance(mass, str):
            p = int(mass[1:])
            ctx.label('mass:' + mass)
            nrm = math.fsum(abs(w) ** p for w in ws) ** (1.0 / p)
            ctx.expect(all(near(a, w / nrm) for a, w in zip(r, ws)), 'C18.normalize_lp', det)
        elif case['zsum']:
            ctx.label('zsum')
            ctx.expect(near(math.fsum(r), 0.0, rs), 'C18.normalize_total', det)
        else:
            ctx.label('mass:zero' if mass == 0 else 'mass:negative' if mass < 0 else 'mass:positive')
            ctx.expect(near(math.fsum(r), mass, rs), 'C18.normalize_total', det)
            ctx.expect(all(near(a, w * mass / tot, 0.0) for a, w in zip(r, ws)), 'C18.normalize_proportional', det)
            ctx.expect(all((a == 0) for a, w in zip(r, ws) if w == 0), 'C18.normalize_proportional', det)
        ctx.nontrivial(any(w == 0 for w in ws) and not isinstance(mass, str) and not near(mass, tot))
        return

    if fn == 'impose_product':
        mass = case['mass']
        r = fl(M.impose_product(mass, ws, case['zsum']))
        det = lambda: dict(case, result=r, product=math.prod(r))
        ctx.label('mass:zero' if mass == 0 else 'mass:negative' if mass < 0 else 'mass:positive')
        ctx.expect(len(r) == n and allfinite(r), 'C18.shape', det)
        ctx.expect(near(math.prod(r), mass), 'C18.impose_product', det)
        ctx.nontrivial(mass != 0 and not near(mass, math.prod(ws)))
        return

    xs = case['xs']
    zeros = data_labels(ctx, xs, ws)
    m0 = wmean(xs, ws)
    big = max(abs(x) for x in xs)

    def common(y, w2, det, tag):
        ctx.expect(len(y) == n and len(w2) == n and allfinite(y) and allfinite(w2), 'C18.shape', det)
        ctx.expect(near(math.fsum(w2), tot), 'C18.%s_total' % tag, det)
        ctx.expect(near(wmean(y, w2), m0, wabs(y, w2)), 'C18.%s_mean' % tag, det)

    def shift_only(y, det, tag):
        sh = [a - b for a, b in zip(y, xs)]
        ctx.expect(all(near(t, sh[0], big + abs(sh[0])) for t in sh), 'C18.%s_shift' % tag, det)

    if fn == 'impose_weight_norm':
        mass = case['mass']
        y, w2 = M.impose_weight_norm(xs, ws, mass)
        y = fl(y); w2 = fl(w2)
        det = lambda: dict(case, result=[y, w2])
        ctx.expect(len(y) == n and len(w2) == n and allfinite(y) and allfinite(w2), 'C18.shape', det)
        ctx.expect(near(math.fsum(w2), mass), 'C18.weight_norm_total', det)
        ctx.expect(all(near(a, w * mass / tot) for a, w in zip(w2, ws)), 'C18.weight_norm_total', det)
        ctx.expect(near(wmean(y, w2), m0, wabs(y, w2)), 'C18.weight_norm_mean', det)
        ctx.nontrivial(zeros and not near(mass, tot))
        return

    if fn == 'impose_support':
        index = case['index']
        keep = set(range(n)) if index is None else set(i + n if i < 0 else i for i in index)
        if index is not None and any(i < 0 for i in index):
            ctx.label('neg-index')
        y, w2 = M.impose_support(index, xs, ws)
        y = fl(y); w2 = fl(w2)
        det = lambda: dict(case, result=[y, w2])
        common(y, w2, det, 'support')
        ktot = math.fsum(ws[i] for i in keep)
        ctx.expect(all((w2[i] == 0.0) if i not in keep else ((w2[i] == 0) == (ws[i] == 0) and near(w2[i], ws[i] * tot / ktot))
                       for i in range(n)), 'C18.support_zeroed', det)
        shift_only(y, det, 'support')
        dropped = [i for i in range(n) if i not in keep and ws[i] > 0]
        ctx.label('support:drops-mass' if dropped else 'support:drops-nothing')
        ctx.nontrivial(zeros and bool(dropped))
        return

    if fn == 'impose_unweighted':
        index = case['index']
        drop = set() if index is None else set(i + n if i < 0 else i for i in index)
        if index is not None and any(i < 0 for i in index):
            ctx.label('neg-index')
        y, w2 = M.impose_unweighted(index, xs, ws, case['nullable'])
        y = fl(y); w2 = fl(w2)
        det = lambda: dict(case, result=[y, w2])
        common(y, w2, det, 'unweighted')
        if case['null']:
            ctx.label('unweighted:reweight-the-rest')
            # documented only as "avoid null weights by reweighting non-index weights": how the total is
            # spread over the other points is not specified, so only the zeroing (and total/mean above) is asserted
            ctx.expect(all(w2[i] == 0.0 for i in drop) and all(w2[i] >= 0.0 for i in range(n)), 'C18.unweighted_zeroed', det)
        else:
            ktot = math.fsum(ws[i] for i in range(n) if i not in drop)
            ctx.expect(all((w2[i] == 0.0) if i in drop else ((w2[i] == 0) == (ws[i] == 0) and near(w2[i], ws[i] * tot / ktot))
                           for i in range(n)), 'C18.unweighted_zeroed', det)
        shift_only(y, det, 'unweighted')
        dropped = [i for i in drop if ws[i] > 0]
        ctx.nontrivial(zeros and bool(dropped))
        return

    # impose_collapse
    pairs = [tuple(p) for p in case['pairs']]
    ctx.label('pairs:' + case['shape'])
    if any(a < 0 or b < 0 for a, b in pairs):
        ctx.label('neg-index')
    norm_pairs = [(a + n if a < 0 else a, b + n if b < 0 else b) for a, b in pairs]
    comps = _components(n, norm_pairs)
    ctx.label('components:%d' % len(comps), 'largest-component:%d' % max(len(c) for c in comps))
    y, w2 = M.impose_collapse(set(pairs), xs, ws)
    y = fl(y); w2 = fl(w2)
    det = lambda: dict(case, result=[y, w2], components=comps)
    common(y, w2, det, 'collapse')
    # each collapsed pair ends at one position, and one of the two has given its weight away
    ctx.expect(all(y[a] == y[b] for a, b in norm_pairs), 'C18.collapse_tied', det)
    ctx.expect(all(w2[a] == 0.0 or w2[b] == 0.0 for a, b in norm_pairs), 'C18.collapse_zeroed', det)
    involved = set(i for c in comps for i in c)
    ctx.expect(all(w2[i] == ws[i] for i in range(n) if i not in involved), 'C18.collapse_zeroed', det)
    ctx.expect(all(near(math.fsum(w2[i] for i in c), math.fsum(ws[i] for i in c)) for c in comps), 'C18.collapse_zeroed', det)
    # positions: every point moved by one common shift, after each group was put on one of its members' positions
    shifts = [y[c[0]] - xs[r] for c in comps[:1] for r in c]
    free = [i for i in range(n) if i not in involved]
    if free:
        shifts = [y[free[0]] - xs[free[0]]]

    def fits(sh):
        t = big + abs(sh)
        return (all(near(y[i], xs[i] + sh, t) for i in free) and
                all(any(near(y[c[0]], xs[r] + sh, t) for r in c) for c in comps))
    ctx.expect(any(fits(sh) for sh in shifts), 'C18.collapse_shift', det)
    moved = any(ws[i] > 0 and w2[i] == 0 for i in involved)
    ctx.nontrivial(zeros and moved)


# --------------------------------------------------------------------------- dist
def _metric(name, a, b, p):
    d = [abs(s - t) for s, t in zip(a, b)]
    if name == 'chebyshev' or (name == 'minkowski' and p == math.inf):
        return max(d)
    if name == 'hamming':
        return float(sum(1 for s, t in zip(a, b) if s != t))
    q = {'euclidean': 2, 'manhattan': 1}.get(name, p)
    return math.fsum(t ** q for t in d) ** (1.0 / q)


def _lnorm(v, p):
    if p == 0:
        return float(sum(1 for t in v if t != 0))
    if p == math.inf:
        return max(abs(t) for t in v)
    return math.fsum(abs(t) ** p for t in v) ** (1.0 / p)


def run_dist(case, ctx):
    from mystic.math import distance as D
    mode = case['mode']; X = case['X']; XP = case['XP']
    p = F(case['p']); lp = F(case['lp'])
    ctx.label('mode:' + mode, 'p:%s' % case['p'], 'lp:%s' % case['lp'], 'dim:%d' % len(X[0]))
    # --- Lnorm
    v = case['v']
    got = D.Lnorm(v, lp)
    ctx.expect(near(got, _lnorm(v, lp)), 'C18.lnorm', lambda: dict(v=v, p=case['lp'], got=float(got), want=_lnorm(v, lp)))
    ax = case['axis']
    A = np.array(X, float)
    got = np.ravel(D.Lnorm(X, lp, axis=ax))
    want = [_lnorm(list(A[:, j]), lp) for j in range(A.shape[1])] if ax == 0 else [_lnorm(list(r), lp) for r in A]
    ctx.expect(len(got) == len(want) and all(near(a, b) for a, b in zip(got, want)), 'C18.lnorm_axis',
               lambda: dict(X=X, p=case['lp'], axis=ax, got=fl(got), want=want))
    if any(t == 0 for t in v):
        ctx.label('lnorm-zeros')
    if any(0 < abs(t) < 1e-100 for t in v):
        ctx.label('lnorm-tiny')
    # --- metrics
    names = ['chebyshev', 'hamming', 'minkowski', 'euclidean', 'manhattan']

    def call(name, x, xp, **kw):
        if name == 'minkowski':
            kw['p'] = p
        return getattr(D, name)(x, xp, **kw)

    ties = False
    if mode in ('point', 'self'):
        xp = None if mode == 'self' else XP
        B = X if mode == 'self' else XP
        ad = np.asarray(D.absolute_distance(X, xp))
        wantad = [[[abs(a[k] - b[k]) for b in B] for a in X] for k in range(len(X[0]))]
        ctx.expect(ad.shape == np.shape(wantad) and np.allclose(ad, wantad, rtol=REL, atol=ABS), 'C18.absolute_distance',
                   lambda: dict(X=X, XP=xp, got=ad.tolist(), want=wantad))
        for name in names:
            got = np.asarray(call(name, X, xp, axis=0))
            want = [[_metric(name, a, b, p) for b in B] for a in X]
            ctx.expect(got.shape == np.shape(want) and np.allclose(got, want, rtol=REL, atol=ABS), 'C18.' + name,
                       lambda: dict(mode=mode, X=X, XP=xp, p=case['p'], got=got.tolist(), want=want))
        ties = any(a[k] == b[k] for a in X for b in B for k in range(len(a))) and X != B
    elif mode == 'vec-set':
        # a single point given as a plain vector against a set of points: its distance to each of them
        a = X[0]
        for name in names:
            got = np.ravel(np.asarray(call(name, a, XP, axis=0)))
            want = [_metric(name, a, b, p) for b in XP]
            ctx.expect(got.shape == np.shape(want) and np.allclose(got, want, rtol=REL, atol=ABS), 'C18.' + name,
                       lambda: dict(mode=mode, x=a, XP=XP, p=case['p'], got=got.tolist(), want=want))
        ties = any(a[k] == b[k] for b in XP for k in range(len(a)))
    elif mode == 'pair':
        ad = np.asarray(D.absolute_distance(X, XP, pair=True))
        wantad = [[abs(s - t) for s, t in zip(a, b)] for a, b in zip(X, XP)]
        ctx.expect(ad.shape == np.shape(wantad) and np.allclose(ad, wantad, rtol=REL, atol=ABS), 'C18.absolute_distance',
                   lambda: dict(X=X, XP=XP, pair=True, got=ad.tolist(), want=wantad))
        for name in names:
            got = np.asarray(call(name, X, XP, pair=True, axis=1))
            want = [_metric(name, a, b, p) for a, b in zip(X, XP)]
            ctx.expect(got.shape == np.shape(want) and np.allclose(got, want, rtol=REL, atol=ABS), 'C18.' + name,
                       lambda: dict(mode=mode, X=X, XP=XP, p=case['p'], got=got.tolist(), want=want))
        ties = any(s == t for a, b in zip(X, XP) for s, t in zip(a, b)) and X != XP
    elif mode in ('vec', 'vec2'):
        a, b = X[0], XP[0]
        for name in names:
            want = _metric(name, a, b, p)
            if mode == 'vec':       # the docstring formula itself: two points, coordinate by coordinate
                got = np.asarray(call(name, a, b, pair=True))
            else:                   # documented upconversion of 1-D arrays to single points
                got = np.asarray(call(name, a, b, dmin=2, axis=0))
            ctx.expect(got.size == 1 and near(got.ravel()[0], want), 'C18.' + name,
                       lambda: dict(mode=mode, x=a, xp=b, p=case['p'], got=got.tolist(), want=want))
        ties = any(s == t for s, t in zip(a, b)) and a != b
    else:                           # 1-D arrays are lists of scalar points
        a = [r[0] for r in X]; b = [r[0] for r in XP]
        ad = np.asarray(D.absolute_distance(a, b))
        want = [[abs(s - t) for t in b] for s in a]
        ctx.expect(ad.shape == np.shape(want) and np.allclose(ad, want, rtol=REL, atol=ABS), 'C18.absolute_distance',
                   lambda: dict(x=a, xp=b, got=ad.tolist(), want=want))
    if ties:
        ctx.label('coordinate-ties')
    ctx.nontrivial(mode != 'scalars' and mode != 'self' and (ties or (p != math.inf and p >= 3)))


# --------------------------------------------------------------------------- reweight
def run_reweight(case, ctx):
    from mystic.math import measures as M
    fn = case['fn']; xs = case['xs']; ws = case['ws']; t = case['t']; n = len(xs)
    ctx.label('fn:' + fn, 'weighted' if ws is not None else 'unweighted', 'n:%d' % n)
    tot = 1.0 if ws is None else math.fsum(ws)
    m0 = wmean(xs, ws)
    lo, hi = min(xs), max(xs)
    rel = 1e-7
    if fn == 'impose_reweighted_mean':
        tgt = lo + t * (hi - lo)
        w2 = M.impose_reweighted_mean(tgt, xs, ws)
    else:
        s = sorted(xs)
        below = max(x for x in s if x <= m0); above = min(x for x in s if x >= m0)
        vmin = (above - m0) * (m0 - below)
        vmax = (hi - m0) * (m0 - lo)
        tgt = vmin + t * (vmax - vmin)
        if fn == 'impose_reweighted_variance':
            w2 = M.impose_reweighted_variance(tgt, xs, ws)
        else:
            w2 = M.impose_reweighted_std(math.sqrt(tgt), xs, ws)
    if w2 is None:
        ctx.label('result:none')
        ctx.exclude('reweighting-reported-failure(None)')
        return
    w2 = fl(w2)
    det = lambda: dict(case, target=tgt, result=w2, mean=wmean(xs, w2), var=wmoment(xs, w2, 2), total=math.fsum(w2))
    ctx.expect(len(w2) == n and allfinite(w2), 'C18.shape', det)
    ctx.label('new-weights:' + ('negative' if min(w2) < -1e-9 else 'nonnegative'))
    ctx.expect(near(math.fsum(w2), tot, rel=rel), 'C18.reweighted_total', det)
    if fn == 'impose_reweighted_mean':
        ctx.expect(near(wmean(xs, w2), tgt, wabs(xs, w2), rel=rel), 'C18.reweighted_mean_target', det)
    else:
        ctx.expect(near(wmean(xs, w2), m0, wabs(xs, w2), rel=rel), 'C18.reweighted_variance_keeps_mean', det)
        ctx.expect(near(wmoment(xs, w2, 2), tgt, wabs(xs, w2, m0, 2), rel=rel), 'C18.reweighted_variance_target', det)
    ctx.nontrivial(ws is not None and n >= 3)


# --------------------------------------------------------------------------- samples far from the origin
@st.composite
def offset_cases(draw):
    """samples that share a large offset compared with their spread (|mean| / std up to 1e8): the textbook two-pass
    definitions stay accurate there (the deviations x - mean are small numbers), one-pass shortcuts do not"""
    n = draw(st.integers(2, 8))
    off = draw(st.sampled_from([1e8, -2.5e7, 3e6, -1e8, 1e7]))
    dev = draw(st.lists(st.sampled_from([-1.0, -0.5, 0.0, 0.25, 0.5, 0.75, 1.0, -0.125]), min_size=n, max_size=n))
    if len(set(dev)) < 2:
        dev[0] = 1.0; dev[1] = -1.0
    ws = None
    if draw(st.booleans()):
        ws = draw(st.lists(st.sampled_from([0.0, 0.5, 1.0, 2.0, 0.25]), min_size=n, max_size=n))
        pos = [i for i, w in enumerate(ws) if w > 0 and True]
        if len(set(dev[i] for i in pos)) < 2:          # at least two distinct supported points
            ws = None
    return dict(off=off, dev=dev, ws=ws)


def run_offset(case, ctx):
    from mystic.math import measures as M
    xs = [case['off'] + d for d in case['dev']]          # exact: the deviations are short dyadics
    ws = case['ws']
    m = wmean(xs, ws)
    var = wmoment(xs, ws, 2)
    det = lambda **kw: dict(dict(xs=xs, ws=ws), **kw)
    ctx.label('offset:%g' % case['off'], 'weighted' if ws is not None else 'unweighted')
    got = M.mean(xs, ws)
    ctx.expect(near(got, m, abs(m), rel=1e-12), 'C18.mean', lambda: det(got=float(got), want=m))
    got = M.variance(xs, ws)
    ctx.expect(near(got, var, var, rel=1e-6), 'C18.variance', lambda: det(got=float(got), want=var))
    got = M.std(xs, ws)
    ctx.expect(near(got, math.sqrt(var), math.sqrt(var), rel=1e-6), 'C18.std', lambda: det(got=float(got), want=math.sqrt(var)))
    got = M.moment(xs, ws, order=2)
    ctx.expect(near(got, var, var, rel=1e-6), 'C18.moment', lambda: det(order=2, got=float(got), want=var))
    ctx.nontrivial(True)


# libFuzzer executions per shard and @given test of the coverage-guided extra of the thorough tier (vp/fuzz.py)
FUZZ = 2000

TESTS = [
    Test('defs', run_defs, strategy=lambda tier: defs_cases(), examples={'quick': 4000, 'thorough': 150000}),
    Test('shift', run_shift, strategy=lambda tier: shift_cases(), examples={'quick': 4000, 'thorough': 150000}),
    Test('robust', run_robust, strategy=lambda tier: robust_cases(), examples={'quick': 4000, 'thorough': 150000}),
    Test('weights', run_weights, strategy=lambda tier: weights_cases(), examples={'quick': 5000, 'thorough': 150000}),
    Test('dist', run_dist, strategy=lambda tier: dist_cases(), examples={'quick': 3000, 'thorough': 100000}),
    Test('reweight', run_reweight, strategy=lambda tier: reweight_cases(), examples={'quick': 160, 'thorough': 4000}),
    Test('offset', run_offset, strategy=lambda tier: offset_cases(), examples={'quick': 2000, 'thorough': 50000}),
]

# --------------------------------------------------------------------------- known findings
_MEDIAN_CHECKS = ('C18.median_def', 'C18.mad_def', 'C18.impose_median_target', 'C18.impose_median_keeps_mad',
                  'C18.impose_mad_target', 'C18.impose_mad_keeps_median')


def _kf_weighted_median_even(case, subcheck, detail):
    """measures.median with weights and an even number of samples averages the weighted median with the
    next sample (the unweighted even-count rule), whatever the weights are"""
    return (case.get('fam') == 'median' and case.get('ws') is not None and len(case['xs']) % 2 == 0
            and subcheck in _MEDIAN_CHECKS)


def _kf_collapse_groups(case, subcheck, detail):
    """tools.connected never merges two groups (and can list a root among its own members), so
    impose_collapse on a group joined by >= 3 pairs that is not a star is order dependent"""
    if case.get('fn') != 'impose_collapse' or not subcheck.startswith('C18.collapse_'):
        return False
    n = len(case['xs'])
    pairs = [(a + n if a < 0 else a, b + n if b < 0 else b) for a, b in case['pairs']]
    for comp in _components(n, pairs):
        edges = [p for p in pairs if p[0] in comp]
        if len(edges) >= 3 and not any(all(i in p for p in edges) for i in comp):
            return True
    return False


KNOWN = {}      # the defects this check found were repaired in /repo (see known_findings.json); predicates kept for reference
