"""C17 - combinators claim success only at a fixed point; couplers compose as documented.

Three families of generated-input tests:

``comb``     mystic.constraints.and_/or_/not_ over 1-4 member constraints described by plain
             data (pin, clamp, grid, tie; for or_/not_ also a non-idempotent affine ``step``),
             with onexit/onfail recorders and python's ``random`` seeded from the case and
             wrapped for the duration of the call so that cycle-breaking draws are *counted*
             (labels and failure details only).
``coupler``  mystic.coupler.inner/outer/additive and the *_proxy variants over generated affine
             f, c, p with constructor-time and call-time args/kwds.
``penalty``  mystic.coupler.and_/or_/not_ over member penalties of the eight non-negative
             mystic.penalty types with exactly representable linear conditions.
"""
import contextlib
import numpy as np
from hypothesis import strategies as st
from vp.runner import Test
from vp.util import F, FL, same, pool_or_float

PROP = 'C17'
RULE = ("comb: and_/or_/not_ x 1-4 members {pin x[i]=c, clamp x[i] to [lo,hi], round x[i] to a power-of-two grid, "
        "tie x[j]=a*x[i]+b; or_/not_ also the non-idempotent step x[i]=a*x[i]+b} planned as free / compatible (all satisfied "
        "at a hidden point) / conflicting (pin-pin, pin outside clamp, disjoint clamps, pin off grid on one coordinate) / "
        "cyclic (x_i=a*x_j+b, x_j=a'*x_i+b' incl. x0=x1+1, x1=x0+1) x input (pool values/floats, optionally pre-satisfying "
        "members; list or ndarray) x maxiter 1-50 x seed x which callbacks are given.  coupler: 6 couplers x affine "
        "vector/scalar f,c,p x list/ndarray x constructor/call args/kwds.  penalty: and_/or_/not_ x 1-4 member penalties "
        "(8 non-negative types, k, h, iterations) with dyadic linear conditions (exact arithmetic, boundary hits constructed) "
        "x outer ptype/k.  Non-trivial: comb - the cycle-breaking path was reached (draw count > 0) or the members "
        "conflict/cycle; coupler - some args/kwds are routed; penalty - members of mixed zero-ness, or not_ on/inside the "
        "boundary; distinct by canonical JSON.")
ASSUME = ["member constraints are harness closures over a pure python model (apply); pin/clamp/grid/tie are idempotent exactly "
          "(grids are powers of two, the tie source differs from its target)",
          "and_ is only run with idempotent members (its success test is not meaningful otherwise); or_ and not_ test "
          "c(v)==v / c(v)!=v on the very vector they return, so their oracle is also asserted with the non-idempotent step member",
          "the proxies' docstrings say the call-time args/kwds go to the inner/outer/penalty function; that the "
          "constructor-time args/kwds then go to the decorated function is taken as the only complementary reading",
          "penalty members are used at their current iteration without stored lagrange multipliers; conditions take no args/kwds",
          "wrapping random.* only counts draws; the random stream is the one seeded from the case"]

# =========================================================================== (a) constraint combinators
CVALS = [0.0, 1.0, -1.0, 0.5, 2.0, -2.0, 1.5, 3.0, 0.25]
TVALS = [-2.0, -1.0, 0.0, 1.0, 2.0, 3.0, 0.5, -0.5, 1.5]
GRIDS = [0.25, 0.5, 1.0, 2.0]
TIE_A = [1.0, 1.0, -1.0, 2.0, 0.5, 0.0]
WID = [0.0, 0.5, 1.0, 2.25]


def apply(spec, x):
    """pure model of a member constraint: returns a new list"""
    x = list(x)
    k = spec[0]
    if k == 'pin':
        x[spec[1]] = F(spec[2])
    elif k == 'clamp':
        i, lo, hi = spec[1], F(spec[2]), F(spec[3])
        x[i] = min(max(x[i], lo), hi)
    elif k == 'grid':
        i, g = spec[1], F(spec[2])
        x[i] = round(float(x[i]) / g) * g
    elif k == 'tie':
        j, i, a, b = spec[1], spec[2], F(spec[3]), F(spec[4])
        x[j] = a * x[i] + b
    elif k == 'step':
        i, a, b = spec[1], F(spec[2]), F(spec[3])
        x[i] = a * x[i] + b
    else:
        raise AssertionError(spec)
    return x


def fixes(spec, v):
    v = [float(t) for t in v]
    return apply(spec, v) == v


@st.composite
def free_member(draw, dim, allow_step=False):
    kinds = ['pin', 'clamp', 'grid'] + (['tie', 'tie'] if dim >= 2 else []) + (['step'] * 5 if allow_step else [])
    kind = draw(st.sampled_from(kinds))
    i = draw(st.integers(0, dim - 1))
    if kind == 'pin':
        return ['pin', i, draw(pool_or_float(CVALS, -5, 5))]
    if kind == 'clamp':
        lo = draw(pool_or_float(CVALS, -5, 5))
        return ['clamp', i, lo, lo + draw(st.sampled_from(WID + [3.0]))]
    if kind == 'grid':
        return ['grid', i, draw(st.sampled_from(GRIDS))]
    if kind == 'tie':
        j = draw(st.sampled_from([k for k in range(dim) if k != i]))
        return ['tie', j, i, draw(st.sampled_from(TIE_A)), draw(st.sampled_from(CVALS))]
    return ['step', i, draw(st.sampled_from([1.0, -1.0, 0.5, 2.0, -0.5])), draw(st.sampled_from([0.0, 1.0, -1.0, 0.5]))]


@st.composite
def compatible_members(draw, dim, m):
    t = draw(st.lists(st.sampled_from(TVALS), min_size=dim, max_size=dim))
    out = []
    for _ in range(m):
        kinds = ['pin', 'clamp', 'grid'] + (['tie', 'tie'] if dim >= 2 else [])
        kind = draw(st.sampled_from(kinds))
        i = draw(st.integers(0, dim - 1))
        if kind == 'pin':
            out.append(['pin', i, t[i]])
        elif kind == 'clamp':
            out.append(['clamp', i, t[i] - draw(st.sampled_from(WID)), t[i] + draw(st.sampled_from(WID))])
        elif kind == 'grid':
            out.append(['grid', i, draw(st.sampled_from([g for g in GRIDS if (t[i] / g).is_integer()]))])
        else:
            j = draw(st.sampled_from([k for k in range(dim) if k != i]))
            a = draw(st.sampled_from(TIE_A))
            out.append(['tie', j, i, a, t[j] - a * t[i]])
    return out


@st.composite
def conflicting_pair(draw, dim):
    i = draw(st.integers(0, dim - 1))
    how = draw(st.sampled_from(['pin-pin', 'pin-clamp', 'pin-clamp', 'clamp-clamp', 'pin-grid']))
    c = draw(pool_or_float(CVALS, -5, 5))
    d = draw(st.sampled_from([1.0, 0.5, 2.0, 0.02]))
    if how == 'pin-pin':
        return [['pin', i, c], ['pin', i, c + d]]
    if how == 'pin-clamp':
        w = draw(st.sampled_from(WID))
        if draw(st.booleans()):
            return [['clamp', i, c, c + w], ['pin', i, c + w + d]]
        return [['clamp', i, c, c + w], ['pin', i, c - d]]
    if how == 'clamp-clamp':
        w = draw(st.sampled_from(WID)); w2 = draw(st.sampled_from(WID))
        return [['clamp', i, c, c + w], ['clamp', i, c + w + d, c + w + d + w2]]
    g = draw(st.sampled_from(GRIDS))
    return [['grid', i, g], ['pin', i, g * (draw(st.integers(-3, 3)) + 0.5)]]


@st.composite
def cyclic_pair(draw, dim):
    i, j = draw(st.permutations(list(range(dim))))[:2]
    if draw(st.booleans()):
        return [['tie', i, j, 1.0, 1.0], ['tie', j, i, 1.0, 1.0]]            # x_i = x_j + 1, x_j = x_i + 1
    a1 = draw(st.sampled_from([1.0, -1.0, 2.0, 0.5])); a2 = draw(st.sampled_from([1.0, -1.0, 2.0, 0.5]))
    return [['tie', i, j, a1, draw(st.sampled_from(CVALS))], ['tie', j, i, a2, draw(st.sampled_from(CVALS))]]


@st.composite
def comb_cases(draw, tier):
    comb = draw(st.sampled_from(['and', 'and', 'and', 'or', 'or', 'not']))
    dim = draw(st.integers(1, 4))
    if comb == 'not':
        plan = 'free'
        nonidem = draw(st.sampled_from([False, False, True]))
        members = [draw(free_member(dim, allow_step=nonidem))]
    else:
        plans = ['free', 'compatible', 'conflicting', 'conflicting'] + (['cyclic', 'cyclic'] if dim >= 2 else [])
        if comb == 'or':
            plans = plans + ['nonidem', 'nonidem', 'nonidem', 'nonidem']
        plan = draw(st.sampled_from(plans))
        m = draw(st.integers(1, 4))
        if plan == 'free':
            members = [draw(free_member(dim)) for _ in range(m)]
        elif plan == 'nonidem':
            members = [draw(free_member(dim, allow_step=True)) for _ in range(m)]
        elif plan == 'compatible':
            members = draw(compatible_members(dim, m))
        else:
            core = draw(conflicting_pair(dim) if plan == 'conflicting' else cyclic_pair(dim))
            extra = [draw(free_member(dim)) for _ in range(draw(st.integers(0, 2)))]
            members = list(draw(st.permutations(core + extra)))
    x = draw(st.lists(pool_or_float(CVALS, -5, 5), min_size=dim, max_size=dim))
    presat = draw(st.sampled_from(['none', 'none', 'first', 'all', 'zero']))
    if presat == 'first':
        x = apply(members[0], x)
    elif presat == 'all':
        for s in members:
            x = apply(s, x)
    elif presat == 'zero':
        x = [0.0] * dim
    maxiter = draw(st.one_of(st.sampled_from([2, 3, 5, 10, 20, 50]), st.integers(1, 50)))
    return dict(comb=comb, plan=plan, dim=dim, members=members, x=[float(t) for t in x], maxiter=maxiter,
                seed=draw(st.integers(0, 2 ** 32 - 1)),
                arr=draw(st.sampled_from([False, False, True])),
                ret_arr=(comb != 'not') and draw(st.sampled_from([False, False, False, True])),
                second=draw(st.sampled_from(['none', 'exit', 'fail'])),
                # members written in the usual in-place style (they modify and return their argument)
                inplace=draw(st.sampled_from([False, False, True])),
                # the same combinator object is then called on further inputs (a schedule of calls)
                more=draw(st.lists(st.lists(pool_or_float(CVALS, -5, 5), min_size=dim, max_size=dim), min_size=0, max_size=3)))


RANDOM_NAMES = ['random', 'randint', 'randrange', 'choice', 'choices', 'uniform', 'sample', 'shuffle',
                'gauss', 'normalvariate', 'triangular', 'betavariate', 'expovariate', 'getrandbits']


@contextlib.contextmanager
def counting_random(seed, log):
    """seed python's random from the case and count every module-level draw while the block runs"""
    import random
    state = random.getstate()
    saved = {}
    random.seed(seed)

    def wrap(fn):
        def w(*a, **k):
            log.append(('draw',))
            return fn(*a, **k)
        return w
    try:
        for nm in RANDOM_NAMES:
            if hasattr(random, nm):
                saved[nm] = getattr(random, nm)
                setattr(random, nm, wrap(saved[nm]))
        yield
    finally:
        for nm, fn in saved.items():
            setattr(random, nm, fn)
        random.setstate(state)


def _live(k, spec, log, ret_arr, inplace=False):
    def c(x):
        xin = [t for t in x]
        out = apply(spec, xin)
        log.append(('call', k, out == xin))
        if inplace:
            for i_, t_ in enumerate(out):
                x[i_] = t_
            return x
        return np.array(out, float) if ret_arr else out
    c.__doc__ = None
    return c


def _execute(case, mode):
    import mystic.constraints as MC
    specs = case['members']
    log = []; fired = []; rets = []
    members = [_live(k, s, log, case['ret_arr'], case.get('inplace', False)) for k, s in enumerate(specs)]

    def mk(tag):
        def cb(v):
            fired.append((tag, v))
            r = [t for t in v]
            rets.append(r)
            return r
        return cb
    kw = dict(maxiter=case['maxiter'])
    if mode in ('both', 'exit'):
        kw['onexit'] = mk('exit')
    if mode in ('both', 'fail'):
        kw['onfail'] = mk('fail')
    if case['comb'] == 'not':
        f = MC.not_(members[0], **kw)
    else:
        f = getattr(MC, case['comb'] + '_')(*members, **kw)
    x0 = FL(case['x'])
    xin = np.array(x0, float) if case['arr'] else list(x0)
    later = []
    with counting_random(case['seed'], log):
        out = f(xin)
        # further calls of the same object: (input, what fired, log of that call)
        for xm in case.get('more', []) if mode == 'both' else []:
            xm = FL(xm)
            n_f, n_l = len(fired), len(log)
            f(np.array(xm, float) if case['arr'] else list(xm))
            later.append((xm, fired[n_f:], log[n_l:]))
        del fired[1:]
    _execute.later = later
    n1 = len(log) - sum(len(l_[2]) for l_ in later)
    return out, fired, rets, log[:n1]


def _classify(specs):
    """label-only description of the member set"""
    out = set()
    for a in range(len(specs)):
        for b in range(len(specs)):
            if a == b:
                continue
            p, q = specs[a], specs[b]
            if p[0] == 'tie' and q[0] == 'tie' and p[1] == q[2] and p[2] == q[1]:
                out.add('cyclic')
            if p[0] == 'pin' and q[0] == 'pin' and p[1] == q[1] and F(p[2]) != F(q[2]):
                out.add('conflicting')
            if p[0] == 'pin' and q[0] in ('clamp', 'grid') and p[1] == q[1] and not fixes(q, _at(p)):
                out.add('conflicting')
            if p[0] == 'clamp' and q[0] == 'clamp' and p[1] == q[1] and (F(p[3]) < F(q[2]) or F(q[3]) < F(p[2])):
                out.add('conflicting')
    return out


def _at(pin):
    v = [0.0] * (pin[1] + 1)
    v[pin[1]] = F(pin[2])
    return v


def run_comb(case, ctx):
    comb = case['comb']; specs = case['members']; n = len(specs)
    x0 = FL(case['x'])
    nonidem = any(s[0] == 'step' for s in specs)
    if comb == 'and' and nonidem:           # never generated; and_'s success test assumes idempotent members
        ctx.exclude('and-with-nonidempotent-member')
        return
    out, fired, rets, log = _execute(case, 'both')
    draws = sum(1 for e in log if e[0] == 'draw')
    calls = [e for e in log if e[0] == 'call']
    last_draw = max([k for k, e in enumerate(log) if e[0] == 'draw'] or [-1])
    tail = [e for e in log[last_draw + 1:] if e[0] == 'call']

    def base():
        return dict(comb=comb + '_', n=n, members=specs, x=x0, maxiter=case['maxiter'], draws=draws,
                    calls=len(calls), fired=[(t, list(v)) for t, v in fired])

    # exactly one of onexit/onfail fires, exactly once, and its return value is the combinator's return value
    ctx.expect(len(fired) == 1 and fired[0][0] in ('exit', 'fail'), 'C17.one_callback_once', base)
    if len(fired) != 1:
        return
    ctx.expect(out is rets[0], 'C17.returns_callback_result',
               lambda: dict(base(), out=(list(out) if out is not None else None)))
    kind, v = fired[0]
    v = [float(t) for t in v]
    ctx.expect(len(v) == len(x0), 'C17.callback_vector', lambda: dict(base(), v=v))
    fix = [fixes(s, v) for s in specs]

    if kind == 'exit':
        if comb == 'and':
            ctx.expect(all(fix), 'C17.and_fixed_point',
                       lambda: dict(base(), v=v, fixed=fix, calls_after_last_draw=len(tail),
                                    tail_unchanged=all(e[2] for e in tail),
                                    tail_members=sorted(set(e[1] for e in tail))))
        elif comb == 'or':
            ctx.expect(any(fix), 'C17.or_fixed_point_nonidem' if nonidem else 'C17.or_fixed_point',
                       lambda: dict(base(), v=v, fixed=fix))
        else:
            ctx.expect(not fix[0], 'C17.not_changed_nonidem' if nonidem else 'C17.not_changed',
                       lambda: dict(base(), v=v, fixed=fix))

    # a schedule of calls on the same combinator object: every later call is judged like the first
    for xm, fired_m, log_m in getattr(_execute, 'later', []):
        ctx.expect(len(fired_m) == 1, 'C17.one_callback_once', lambda: dict(base(), later_input=xm, fired=[(t, list(w)) for t, w in fired_m]))
        if len(fired_m) != 1:
            continue
        kind_m, vm = fired_m[0]
        vm = [float(t) for t in vm]
        fix_m = [fixes(s_, vm) for s_ in specs]
        if kind_m == 'exit':
            ctx.label('later-call:exit')
            if comb == 'and':
                ctx.expect(all(fix_m), 'C17.and_fixed_point', lambda: dict(base(), later_input=xm, v=vm, fixed=fix_m, note='later call on the same object'))
            elif comb == 'or':
                ctx.expect(any(fix_m), 'C17.or_fixed_point_nonidem' if nonidem else 'C17.or_fixed_point',
                           lambda: dict(base(), later_input=xm, v=vm, fixed=fix_m, note='later call on the same object'))
            else:
                ctx.expect(not fix_m[0], 'C17.not_changed_nonidem' if nonidem else 'C17.not_changed',
                           lambda: dict(base(), later_input=xm, v=vm, fixed=fix_m, note='later call on the same object'))
        if any(e[0] == 'draw' for e in log_m):
            ctx.label('later-call:draws>0')
    if case.get('inplace'):
        ctx.label('inplace-members', '%s:inplace' % comb)

    # the callbacks are optional: same seed, same members, fewer callbacks -> same vector, same path
    mode = case['second']
    out2, fired2, rets2, log2 = _execute(case, mode)
    want2 = [(kind, v)] if mode == kind else []
    got2 = [(t, [float(u) for u in w]) for t, w in fired2]
    ctx.expect(got2 == want2 and [float(t) for t in out2] == v and [e for e in log2 if e[0] == 'call'] == calls,
               'C17.callbacks_optional',
               lambda: dict(base(), second=mode, fired2=got2, out2=[float(t) for t in out2], v=v))

    # ---- labels
    cls = _classify(specs)
    ctx.label('comb:' + comb, 'plan:' + case['plan'], '%s:%s' % (comb, kind), 'n=%d' % n)
    for c in cls:
        ctx.label(c, '%s:%s' % (comb, c))
    if draws:
        ctx.label('draws>0', '%s:draws>0' % comb, '%s:%s-after-draws' % (comb, kind))
    elif kind == 'exit':
        ctx.label('%s:exit-first-pass' % comb if len(calls) <= n else '%s:exit-in-loop-no-draws' % comb)
    if nonidem:
        ctx.label('nonidem', '%s:nonidem' % comb)
    if case['arr']:
        ctx.label('%s:ndarray-in' % comb)
    if case['ret_arr']:
        ctx.label('member-returns-ndarray')
    if case['maxiter'] == 1:
        ctx.label('maxiter=1')
    if all(fixes(s, x0) for s in specs):
        ctx.label('%s:x0-satisfies-all' % comb)
    ctx.nontrivial(draws > 0 or bool(cls))


# =========================================================================== (b) couplers
def affine(spec, x, scale=1.0, shift=0.0):
    """the generated function family: vector -> vector or vector -> scalar, with two optional parameters"""
    a = FL(spec['a'])
    if spec['out'] == 'vec':
        b = FL(spec['b'])
        if isinstance(x, np.ndarray):
            return scale * (np.array(a[:len(x)], float) * x + np.array(b[:len(x)], float)) + shift
        return [scale * (ai * xi + bi) + shift for ai, bi, xi in zip(a, b, x)]
    s = F(spec['b0'])
    for ai, xi in zip(a, x):
        s = s + ai * xi
    return scale * s + shift


PVALS = [1.0, 2.0, -1.0, 0.5, 0.0, 3.0]


@st.composite
def fn_spec(draw, dim, out):
    return dict(out=out,
                a=draw(st.lists(pool_or_float(PVALS, -3, 3), min_size=dim, max_size=dim)),
                b=draw(st.lists(pool_or_float(PVALS, -3, 3), min_size=dim, max_size=dim)),
                b0=draw(pool_or_float(PVALS, -3, 3)))


@st.composite
def arg_spec(draw):
    """[args, kwds] for a function f(x, scale=1.0, shift=0.0); None = not given"""
    how = draw(st.sampled_from(['none', 'none', 'args1', 'args2', 'kwds-shift', 'kwds-scale', 'kwds-both',
                                'args1+kwds', 'empty']))
    v = lambda: draw(pool_or_float(PVALS, -3, 3))
    if how == 'none':
        return [None, None]
    if how == 'empty':
        return [[], {}]
    if how == 'args1':
        return [[v()], None]
    if how == 'args2':
        return [[v(), v()], None]
    if how == 'kwds-shift':
        return [None, dict(shift=v())]
    if how == 'kwds-scale':
        return [None, dict(scale=v())]
    if how == 'kwds-both':
        return [None, dict(scale=v(), shift=v())]
    return [[v()], dict(shift=v())]


@st.composite
def coupler_cases(draw, tier):
    kind = draw(st.sampled_from(['inner', 'outer', 'additive', 'inner_proxy', 'outer_proxy', 'additive_proxy']))
    dim = draw(st.integers(1, 4))
    arr = draw(st.booleans())
    base = kind.split('_')[0]
    if base == 'inner':
        c_out, f_out = 'vec', draw(st.sampled_from(['vec', 'scalar']))
    elif base == 'outer':
        f_out, c_out = 'vec', draw(st.sampled_from(['vec', 'scalar']))
    else:                             # f(x) + p(x): scalars, or arrays (lists would concatenate)
        f_out = c_out = draw(st.sampled_from(['scalar', 'vec'])) if arr else 'scalar'
    return dict(kind=kind, dim=dim, arr=arr,
                x=draw(st.lists(pool_or_float(PVALS, -10, 10), min_size=dim, max_size=dim)),
                f=draw(fn_spec(dim, f_out)),
                c=(None if draw(st.integers(0, 9)) == 0 else draw(fn_spec(dim, c_out))),
                ctor=draw(arg_spec()), call=draw(arg_spec()))


def _ak(pair):
    a, k = pair
    return (tuple(FL(a)) if a is not None else ()), ({kk: F(vv) for kk, vv in k.items()} if k is not None else {})


def _eq(a, b):
    sa = isinstance(a, (list, tuple, np.ndarray)); sb = isinstance(b, (list, tuple, np.ndarray))
    if sa != sb:
        return False
    if sa:
        if isinstance(a, np.ndarray) != isinstance(b, np.ndarray) or len(a) != len(b):
            return False
        return all(same(p, q) for p, q in zip(a, b))
    return same(a, b)


def _show(v):
    return v.tolist() if isinstance(v, np.ndarray) else v


def run_coupler(case, ctx):
    import mystic.coupler as CP
    kind = case['kind']; base = kind.split('_')[0]; proxy = kind.endswith('_proxy')
    fs = case['f']; cs = case['c']
    x0 = FL(case['x'])
    mkx = lambda: (np.array(x0, float) if case['arr'] else list(x0))
    A, K = _ak(case['ctor'])          # given to the coupler
    Z, W = _ak(case['call'])          # given at call time
    give_ctor = True
    if cs is None:
        # the coupler's own default c (identity / zero penalty) takes no parameters: whatever is
        # routed to c must stay empty (call-time for the proxies, constructor-time otherwise)
        if proxy:
            Z, W = (), {}
        else:
            A, K = (), {}
            give_ctor = False
    calls = []

    def F_(x, *a, **k):
        calls.append('f')
        return affine(fs, x, *a, **k)

    def C_(x, *a, **k):
        calls.append('c')
        return affine(cs, x, *a, **k)
    # ---- expected: the documented composition, computed with the pure model
    if cs is not None:
        Cm = lambda x, *a, **k: affine(cs, x, *a, **k)
    elif base == 'additive':
        Cm = lambda x: 0.0
    else:
        Cm = lambda x: x
    Fm = lambda x, *a, **k: affine(fs, x, *a, **k)
    if not proxy:
        fa, fk, ca, ck = Z, W, A, K   # call-time -> decorated function, constructor -> c
    else:
        fa, fk, ca, ck = A, K, Z, W   # call-time -> c, constructor -> decorated function
    if base == 'inner':
        want = Fm(Cm(mkx(), *ca, **ck), *fa, **fk)
    elif base == 'outer':
        want = Cm(Fm(mkx(), *fa, **fk), *ca, **ck)
    else:
        want = Fm(mkx(), *fa, **fk) + Cm(mkx(), *ca, **ck)
    # ---- actual
    ctor_kw = {}
    if give_ctor and case['ctor'][0] is not None:
        ctor_kw['args'] = tuple(A)
    if give_ctor and case['ctor'][1] is not None:
        ctor_kw['kwds'] = dict(K)
    coupler = getattr(CP, kind)
    dec = coupler(C_, **ctor_kw) if cs is not None else coupler(**ctor_kw)
    g = dec(F_)
    got = g(mkx(), *Z, **W)
    detail = lambda: dict(kind=kind, x=x0, arr=case['arr'], f=fs, c=cs, ctor=[list(A), K], call=[list(Z), W],
                          want=_show(want), got=_show(got), calls=calls)
    ctx.expect(_eq(got, want), 'C17.' + kind, detail)
    ctx.expect(sorted(calls) == (['c', 'f'] if cs is not None else ['f']), 'C17.coupler_calls_each_once', detail)
    if base == 'inner':
        ctx.expect(calls[-1] == 'f', 'C17.coupler_call_order', detail)
    elif base == 'outer':
        ctx.expect(calls[0] == 'f', 'C17.coupler_call_order', detail)
    ctx.label('coupler:' + kind, 'f:' + fs['out'], 'arr' if case['arr'] else 'list')
    if cs is None:
        ctx.label('default-c')
    routed = bool(A or K or Z or W)
    if A or K:
        ctx.label('ctor-args')
    if Z or W:
        ctx.label('call-args')
    if (A or K) and (Z or W):
        ctx.label('both-args')
    ctx.nontrivial(routed and cs is not None)


# =========================================================================== (c) penalty combinators
EQ_TYPES = ['quadratic_equality', 'linear_equality', 'uniform_equality', 'lagrange_equality']
INEQ_TYPES = ['quadratic_inequality', 'linear_inequality', 'uniform_inequality', 'lagrange_inequality']
XPOOL = [-2.0, -1.5, -1.0, -0.5, 0.0, 0.5, 1.0, 1.5, 2.0]
APOOL = [-2.0, -1.0, 0.0, 0.5, 1.0, 2.0]
KPOOL = [0.5, 1.0, 2.0, 100.0]


def lin(a, b, x):
    s = b
    for ai, xi in zip(a, x):
        s = s + ai * xi
    return s


@st.composite
def penalty_member(draw, x):
    dim = len(x)
    ptype = draw(st.sampled_from(EQ_TYPES + INEQ_TYPES))
    a = draw(st.lists(st.sampled_from(APOOL), min_size=dim, max_size=dim))
    b = draw(st.sampled_from(XPOOL))
    where = draw(st.sampled_from(['any', 'boundary', 'boundary', 'inside', 'outside']))
    r = lin(a, 0.0, x)
    if where == 'boundary':
        b = -r
    elif where == 'inside':
        b = -r - draw(st.sampled_from([0.5, 1.0, 0.125]))
    elif where == 'outside':
        b = -r + draw(st.sampled_from([0.5, 1.0, 0.125]))
    return dict(ptype=ptype, a=a, b=b, k=draw(st.sampled_from([None, None] + KPOOL)),
                h=draw(st.sampled_from([None, None, 2, 5])), iters=draw(st.sampled_from([0, 0, 0, 1, 2])))


@st.composite
def penalty_cases(draw, tier):
    op = draw(st.sampled_from(['and', 'or', 'not']))
    dim = draw(st.integers(1, 3))
    x = draw(st.lists(st.sampled_from(XPOOL), min_size=dim, max_size=dim))
    m = 1 if op == 'not' else draw(st.integers(1, 4))
    members = [draw(penalty_member(x)) for _ in range(m)]
    ptype = draw(st.sampled_from([None, None, None] + EQ_TYPES + INEQ_TYPES))
    k = draw(st.sampled_from(['unset', 'unset', None] + KPOOL))
    return dict(op=op, dim=dim, x=x, arr=draw(st.sampled_from([False, False, True])), members=members,
                ptype=ptype, k=k,
                # not_: the member given as a raw condition function (documented) instead of a penalty
                raw=(op == 'not') and draw(st.booleans()))


def _build_penalty(m):
    import mystic.penalty as MP
    a = FL(m['a']); b = F(m['b'])
    cond = lambda x: lin(a, b, x)
    kw = {}
    if m['k'] is not None:
        kw['k'] = F(m['k'])
    if m['h'] is not None:
        kw['h'] = m['h']
    p = getattr(MP, m['ptype'])(cond, **kw)(lambda x: 0.0)
    for _ in range(m['iters']):
        p.iter()
    return p


def run_penalty(case, ctx):
    import mystic.coupler as CP
    import mystic.penalty as MP
    op = case['op']; x0 = FL(case['x'])
    mkx = lambda: (np.array(x0, float) if case['arr'] else list(x0))
    members = case['members']
    ps = [_build_penalty(m) for m in members]
    conds = [lin(FL(m['a']), F(m['b']), x0) for m in members]          # exact: dyadic rationals
    zero = [(c == 0) if m['ptype'].endswith('_equality') else (c <= 0) for m, c in zip(members, conds)]
    vals = [p(mkx()) for p in ps]
    det = lambda **kw: dict(dict(op=op, x=x0, arr=case['arr'], members=members, conditions=conds, member_values=vals,
                                 ptype=case['ptype'], k=case['k']), **kw)
    # the members themselves behave as their docstrings say (satisfied <=> zero, never negative)
    ctx.expect(all((float(v) == 0) == z and not (float(v) < 0) for v, z in zip(vals, zero)), 'C17.penalty_member',
               lambda: det(member_zero_expected=zero))
    kw = {}
    if case['ptype'] is not None:
        kw['ptype'] = getattr(MP, case['ptype'])
    if case['k'] != 'unset':
        kw['k'] = None if case['k'] is None else F(case['k'])
    if op == 'not':
        m = members[0]; c = conds[0]
        raw = bool(case.get('raw'))
        a_ = FL(m['a']); b_ = F(m['b'])
        P = CP.not_((lambda x: lin(a_, b_, x)) if raw else ps[0], **kw)
        got = P(mkx())
        # the penalty type in effect: the one given, else the member's own, else (raw condition) linear_equality
        eff = case['ptype'] if case['ptype'] is not None else ('linear_equality' if raw else m['ptype'])
        inside = (c == 0) if eff.endswith('_equality') else (c < 0)
        ctx.label('pnot:raw-condition' if raw else 'pnot:penalty-member', 'pnot:ptype-given' if case['ptype'] else 'pnot:ptype-default')
        ctx.expect((float(got) > 0) == inside and (inside or float(got) == 0), 'C17.penalty_not',
                   lambda: det(got=got, inside=inside))
        ctx.label('pnot:' + m['ptype'], 'pnot:inside' if inside else ('pnot:boundary' if c == 0 else 'pnot:outside'))
        ctx.nontrivial(c <= 0)
    else:
        P = (CP.and_ if op == 'and' else CP.or_)(*ps, **kw)
        got = P(mkx())
        want_zero = all(zero) if op == 'and' else any(zero)
        ctx.expect((float(got) == 0) == want_zero, 'C17.penalty_%s_zero' % op,
                   lambda: det(got=got, member_zero=zero, want_zero=want_zero))
        if case['ptype'] is None and case['k'] == 'unset':
            # documented defaults: an unscaled linear combination -- the sum, resp. the minimum, of the members
            ref = sum(vals) if op == 'and' else min(vals)
            ctx.expect(same(got, 1.0 * abs(ref) + 0.0), 'C17.penalty_%s_value' % op,
                       lambda: det(got=got, want=1.0 * abs(ref) + 0.0))
            ctx.label('p%s:default-value' % op)
        ctx.label('p%s' % op, 'p%s:n=%d' % (op, len(ps)),
                  'p%s:%s' % (op, 'all-zero' if all(zero) else ('some-zero' if any(zero) else 'none-zero')))
        if case['ptype'] is not None:
            ctx.label('outer:' + case['ptype'])
        if any(float(v) == float('inf') for v in vals):
            ctx.label('member-inf')
        ctx.nontrivial(len(ps) >= 2 and any(zero) and not all(zero))
    for m in members:
        ctx.label('member:' + m['ptype'])
    if case['arr']:
        ctx.label('penalty:ndarray-in')


# =========================================================================== registration
# libFuzzer executions per shard and @given test of the coverage-guided extra of the thorough tier (vp/fuzz.py)
FUZZ = 2000

TESTS = [
    Test('comb', run_comb, strategy=lambda tier: comb_cases(tier),
         examples={'quick': 20000, 'thorough': 600000}),
    Test('coupler', run_coupler, strategy=lambda tier: coupler_cases(tier),
         examples={'quick': 6000, 'thorough': 200000}),
    Test('penalty', run_penalty, strategy=lambda tier: penalty_cases(tier),
         examples={'quick': 8000, 'thorough': 250000}),
]


def _f13(case, subcheck, detail):
    """and_ success right after its cycle-breaking randomisation: fewer than n member calls were made on the
    randomised vector (all without change), and every member that still changes v is one that was not re-applied"""
    if subcheck != 'C17.and_fixed_point' or detail.get('comb') != 'and_':
        return False
    n = detail['n']
    if not (n >= 2 and detail['draws'] > 0 and 1 <= detail['calls_after_last_draw'] < n and detail['tail_unchanged']):
        return False
    unfixed = set(i for i, ok in enumerate(detail['fixed']) if not ok)
    return bool(unfixed) and not (unfixed & set(detail['tail_members']))


KNOWN = {'F13-and-false-success-after-randomisation': _f13}
