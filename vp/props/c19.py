"""C19 - discrete measures: parameter-vector round trips and product structure.

Three families of generated cases, all plain data (nested lists of floats):

``structure``  a product measure / scenario given by its factor weights and positions
               (1-3 factors of 1-4 points).  Oracle = a python model of the *documented*
               parameter layout ``[wx1..wxM, x1..xM, wy1..wyN, y1..yN, ..., values]`` and of the
               *documented* point order (``_pack`` docstring: first factor fastest), written with
               ``itertools.product``; equality is by value (``wts``/``pos``/``values``), never
               ``==`` on the measures (identity).
``stats``      expect / expect_var / pof / support of the product and centre of mass, range,
               variance, mass, expect, extrema of every factor against explicit ``math.fsum``
               sums over the weighted points.
``setters``    ``m.center_mass = v``, ``m.range = r``, ``m.var = v`` on a measure that has (by
               construction) two distinct supported positions, and the product measure's
               ``center_mass`` setter: the value is achieved and what the ``impose_*`` docstrings
               promise to keep is kept.
"""
import math, itertools
from hypothesis import strategies as st
from vp.runner import Test
from vp.util import pool_or_float

PROP = 'C19'
RULE = ("shapes pts = 1-3 factor measures of 1-4 points each (all combinations, size 1 and unequal sizes "
        "included); weights from {0} u [1e-3,10] (pool + arbitrary floats, never all zero inside a factor: one "
        "slot is forced positive; optionally normalised to mass 1); positions from a small pool (ties) or "
        "arbitrary floats in [-100,100]; scenario values of length npts (or none); update() parameter vectors = "
        "the flattened measure with 0-4 edited slots plus 0..npts values; test functions = polynomials (degree<=3) "
        "of the coordinates, pof functions x[d]-c (c often exactly a position) or boolean x[d]>c.  Non-trivial: "
        ">= 2 factors with unequal sizes or an exact zero weight (stats: and a non-constant test function; "
        "setters: every case, the measure has >= 2 distinct supported positions by construction).  "
        "Distinct = canonical JSON of the case.")
ASSUME = ["python arithmetic / math.fsum / itertools.product are the trusted base of the oracle",
          "documented point order is taken from the _pack docstring example (first factor varies fastest) and the "
          "documented parameter layout from product_measure.flatten/load/update docstrings",
          "weights are non-negative and >= 1e-3 when non-zero, so no product of <= 3 weights underflows to 0",
          "sums are compared with |got-want| <= 1e-12 + 1e-9*|want| + 1e-13*sum|terms| (the last term only matters under "
          "cancellation); setters with rel 1e-7 plus 1e-12 * the largest magnitude handled",
          "update() with more appended values than the scenario currently holds: only the existing slots are checked "
          "(docstring says both 'values will be saved' and 'dimensions will not change'); counted as excluded",
          "update()/load() with fewer than 2*sum(pts) parameters is outside the documented domain and not generated"]

WPOS = [1.0, 0.5, 0.25, 2.0, 0.1, 0.2, 0.4, 1.0 / 3.0, 3.0, 1e-3, 10.0]
PPOOL = [0.0, 1.0, -1.0, 2.0, 0.5, -2.5, 3.0, 10.0, 1e-3, 100.0, 4.0, 5.0, 6.0, -100.0]
COEF = [1.0, -1.0, 2.0, 0.5, -0.5, 3.0, -2.0]


# --------------------------------------------------------------------------- generators
def _posw():
    return st.one_of(st.sampled_from(WPOS), st.floats(1e-3, 10.0, allow_nan=False))


def _w():
    return st.one_of(st.just(0.0), _posw(), _posw(), _posw())


def _x():
    return pool_or_float(PPOOL, -100.0, 100.0)


@st.composite
def factors(draw, max_factors=3, max_pts=4):
    """(wts, pos): nested lists; no factor has all-zero weights (one slot forced positive)"""
    nf = draw(st.integers(1, max_factors))
    sizes = draw(st.lists(st.integers(1, max_pts), min_size=nf, max_size=nf))
    if max_factors >= 3 and draw(st.integers(0, 3)) == 0:
        # more, smaller factors (4-5 of 1-3 points, single-point factors in the middle): strides in pack/unpack
        nf = draw(st.integers(4, 5))
        sizes = draw(st.lists(st.sampled_from([1, 1, 2, 2, 3]), min_size=nf, max_size=nf))
        while _prod(sizes) > 72:
            sizes[sizes.index(max(sizes))] -= 1
    wts = []; pos = []
    for n in sizes:
        w = draw(st.lists(_w(), min_size=n, max_size=n))
        j = draw(st.integers(0, n - 1))
        if w[j] == 0.0:
            w[j] = draw(_posw())
        x = draw(st.lists(_x(), min_size=n, max_size=n))
        if n > 1 and draw(st.integers(0, 5)) == 0:          # an explicit tie
            a = draw(st.integers(0, n - 1)); b = draw(st.integers(0, n - 1))
            x[a] = x[b]
        if draw(st.integers(0, 4)) == 0:                    # the usual use: mass 1
            s = math.fsum(w)
            w = [wi / s for wi in w]
        wts.append(w); pos.append(x)
    if draw(st.integers(0, 7)) == 0:
        # un-normalised measures of very small total mass (every weight scaled by a power of two near 1e-6 ... 1e-12)
        for w in wts:
            sc = draw(st.sampled_from([2.0 ** -20, 2.0 ** -30, 2.0 ** -40]))
            for i in range(len(w)):
                w[i] = w[i] * sc
    return wts, pos


def _prod(ns):
    n = 1
    for k_ in ns:
        n *= k_
    return n


def _npts(wts):
    n = 1
    for w in wts:
        n *= len(w)
    return n


@st.composite
def structure_cases(draw):
    wts, pos = draw(factors())
    npts = _npts(wts)
    kind = draw(st.sampled_from(['pm', 'sc', 'sc']))
    case = dict(kind=kind, wts=wts, pos=pos)
    if kind == 'sc':
        nv = npts if draw(st.integers(0, 4)) else 0
        case['values'] = draw(st.lists(_x(), min_size=nv, max_size=nv))
    flatlen = 2 * sum(len(w) for w in wts)
    nedit = draw(st.integers(0, 4))
    edits = []
    for _ in range(nedit):
        edits.append([draw(st.integers(0, flatlen - 1)), draw(st.one_of(_posw(), _x()))])
    k = draw(st.sampled_from([0, 0, 1, npts, npts, max(0, npts - 1), npts + 1]))
    case['upd'] = dict(edits=edits, values=draw(st.lists(_x(), min_size=k, max_size=k)))
    return case


@st.composite
def polys(draw, nf, prefer=None):
    nt = draw(st.integers(1, 3))
    terms = []
    for t in range(nt):
        ex = [0] * nf
        deg = draw(st.integers(1 if t == 0 else 0, 3))     # the first term is never constant ...
        for j in range(deg):
            if t == 0 and j == 0 and prefer:               # ... and involves a coordinate that varies, if any
                ex[draw(st.sampled_from(prefer))] += 1
            else:
                ex[draw(st.integers(0, nf - 1))] += 1
        terms.append([draw(st.one_of(st.sampled_from(COEF), st.floats(-3, 3, allow_nan=False))), ex])
    return ['poly', terms]


@st.composite
def pof_fns(draw, pos):
    nf = len(pos)
    kind = draw(st.sampled_from(['lin', 'lin', 'bool', 'poly']))
    if kind == 'poly':
        return draw(polys(nf))
    d = draw(st.integers(0, nf - 1))
    c = draw(st.one_of(st.sampled_from(pos[d]), st.sampled_from(pos[d]), _x()))
    return [kind, d, c]


@st.composite
def stats_cases(draw):
    wts, pos = draw(factors())
    varying = [d for d, x in enumerate(pos) if len(set(x)) > 1]
    case = dict(wts=wts, pos=pos, f=draw(polys(len(wts), varying)), g=draw(pof_fns(pos)), f1=draw(polys(1)))
    npts = _npts(wts)
    if draw(st.booleans()):
        case['values'] = draw(st.lists(_x(), min_size=npts, max_size=npts))
        case['vcut'] = draw(st.one_of(st.sampled_from(case['values']), _x()))
    return case


def _sw():
    return st.one_of(st.just(0.0), st.sampled_from([1.0, 0.5, 0.25, 2.0, 0.1, 10.0, 1.0 / 3.0]),
                     st.floats(0.05, 10.0, allow_nan=False))


def _spw():
    return st.one_of(st.sampled_from([1.0, 0.5, 0.25, 2.0, 0.1, 10.0, 1.0 / 3.0]), st.floats(0.05, 10.0, allow_nan=False))


@st.composite
def setter_cases(draw):
    op = draw(st.sampled_from(['center_mass', 'range', 'var', 'pm_center_mass']))
    if op == 'pm_center_mass':
        wts, pos = draw(factors())
        return dict(op=op, wts=wts, pos=pos,
                    target=draw(st.lists(_x(), min_size=len(wts), max_size=len(wts))))
    n = draw(st.integers(2, 4))
    order = draw(st.permutations(list(range(n))))
    i0, i1 = order[0], order[1]
    x0 = draw(_x())
    gap = draw(st.one_of(st.sampled_from([0.01, 0.5, 1.0, 2.0, 7.0, 30.0]), st.floats(0.01, 50.0, allow_nan=False)))
    if draw(st.booleans()):
        gap = -gap
    x = draw(st.lists(_x(), min_size=n, max_size=n))
    x[i0] = x0; x[i1] = x0 + gap                       # two distinct positions ...
    w = draw(st.lists(_sw(), min_size=n, max_size=n))
    w[i0] = draw(_spw()); w[i1] = draw(_spw())         # ... both supported
    if op == 'center_mass':
        target = draw(_x())
    else:
        target = draw(st.one_of(st.sampled_from([0.0, 1.0, 0.5, 2.0, 10.0, 100.0, 1e-3]),
                                st.floats(0.0, 100.0, allow_nan=False)))
    return dict(op=op, wts=[w], pos=[x], target=target)


# --------------------------------------------------------------------------- the oracle (python model)
def o_flat(wts, pos):
    """documented layout: [wx1..wxM, x1..xM, wy1..wyN, y1..yN, ...]"""
    out = []
    for w, x in zip(wts, pos):
        out.extend(w); out.extend(x)
    return out


def o_nested(params, pts):
    wts = []; pos = []; i = 0
    for n in pts:
        wts.append(list(params[i:i + n])); i += n
        pos.append(list(params[i:i + n])); i += n
    return wts, pos


def o_points(per_factor):
    """documented point order (_pack docstring): the FIRST factor varies fastest"""
    return [tuple(reversed(t)) for t in itertools.product(*reversed(per_factor))]


def o_weights(wts):
    out = []
    for t in o_points(wts):
        p = 1.0
        for v in t:
            p = p * v
        out.append(p)
    return out


def make_fn(fd):
    kind = fd[0]
    if kind == 'poly':
        terms = [(float(c), tuple(e)) for c, e in fd[1]]

        def f(x):
            tot = 0.0
            for c, ex in terms:
                t = c
                for i, e in enumerate(ex):
                    if e:
                        t = t * float(x[i]) ** e
                tot += t
            return tot
        return f
    d, c = fd[1], fd[2]
    if kind == 'lin':
        return lambda x: x[d] - c
    return lambda x: bool(x[d] > c)          # True = success, False = failure


def sum_close(got, want, scale=0.0):
    try:
        got = float(got)
    except Exception:
        return False
    return abs(got - want) <= 1e-12 + 1e-9 * abs(want) + 1e-13 * scale


def o_mean(ys, ws):
    W = math.fsum(ws)
    m = math.fsum(y * w for y, w in zip(ys, ws)) / W
    scale = math.fsum(abs(y * w) for y, w in zip(ys, ws)) / W
    return m, scale


def o_var(ys, ws):
    W = math.fsum(ws)
    m, scale = o_mean(ys, ws)
    v = math.fsum(w * (y - m) ** 2 for y, w in zip(ys, ws)) / W
    # error of the computed mean (<= ~n*eps*scale) enters as 2*sd*dm + dm^2
    vscale = 10.0 * scale * math.sqrt(v) + 1e-11 * scale * scale
    return v, vscale


def nested_eq(a, b):
    """value equality of two nested lists of numbers"""
    try:
        if len(a) != len(b):
            return False
        for ra, rb in zip(a, b):
            if len(ra) != len(rb):
                return False
            for u, v in zip(ra, rb):
                if not (u == v):
                    return False
        return True
    except TypeError:
        return False


def flat_eq(a, b):
    try:
        return len(a) == len(b) and all(u == v for u, v in zip(a, b))
    except TypeError:
        return False


def points_eq(a, b):
    try:
        return len(a) == len(b) and all(tuple(u) == tuple(v) for u, v in zip(a, b))
    except TypeError:
        return False


def shape_labels(ctx, wts, pos):
    sizes = [len(w) for w in wts]
    ctx.label('nf:%d' % len(sizes))
    if 1 in sizes:
        ctx.label('size1-factor')
    if all(s == 1 for s in sizes):
        ctx.label('all-size1')
    if len(set(sizes)) > 1:
        ctx.label('unequal-sizes')
    elif len(sizes) > 1:
        ctx.label('equal-sizes')
    zero = any(w == 0.0 for ws in wts for w in ws)
    if zero:
        ctx.label('zero-weight')
    if any(len(set(x)) < len(x) for x in pos):
        ctx.label('tie-in-factor')
    if all(abs(math.fsum(w) - 1.0) < 1e-9 for w in wts):
        ctx.label('mass-1')
    n = _npts(wts)
    ctx.label('npts:1' if n == 1 else 'npts:2-7' if n < 8 else 'npts:8-23' if n < 24 else 'npts:24+')
    ctx.label('factors:%s' % (len(wts) if len(wts) < 4 else '4-5'))
    return len(sizes) >= 2 and (len(set(sizes)) > 1 or zero)


def copy2(a):
    return [list(r) for r in a]


# --------------------------------------------------------------------------- structure
def run_structure(case, ctx):
    from mystic.math import discrete as D
    from mystic.math.measures import _pack, _unpack, _flat, _nested
    wts = case['wts']; pos = case['pos']; kind = case['kind']
    pts = [len(w) for w in wts]
    npts = _npts(wts)
    nontriv = shape_labels(ctx, wts, pos)
    ctx.label('kind:' + kind)
    flat = o_flat(wts, pos)
    P = o_points(pos)
    W = o_weights(wts)

    # -- compose / decompose / _list_of_measures
    c = D.compose(copy2(pos), copy2(wts))
    ctx.expect(isinstance(c, D.product_measure) and list(c.pts) == pts and nested_eq(c.wts, wts) and nested_eq(c.pos, pos),
               'C19.compose', lambda: dict(pts=list(c.pts), wts=c.wts, pos=c.pos, want_wts=wts, want_pos=pos))
    lm = D._list_of_measures(copy2(pos), copy2(wts))
    ctx.expect(isinstance(lm, list) and len(lm) == len(pts) and all(isinstance(m, D.measure) for m in lm)
               and nested_eq([m.weights for m in lm], wts) and nested_eq([m.positions for m in lm], pos),
               'C19.compose', lambda: dict(list_of_measures=[[m.weights, m.positions] for m in lm]))
    dx, dw = D.decompose(c)
    ctx.expect(nested_eq(dx, pos) and nested_eq(dw, wts), 'C19.decompose_compose',
               lambda: dict(samples=dx, weights=dw, want_samples=pos, want_weights=wts))
    c2 = D.compose(*D.decompose(c))
    ctx.expect(nested_eq(c2.wts, wts) and nested_eq(c2.pos, pos), 'C19.decompose_compose',
               lambda: dict(wts=c2.wts, pos=c2.pos))
    cu = D.compose(copy2(pos))                     # documented: uniform weights with norm 1.0
    ctx.expect(nested_eq(cu.pos, pos) and [len(w) for w in cu.wts] == pts and
               all(sum_close(wi, 1.0 / len(w)) for w in cu.wts for wi in w),
               'C19.compose_uniform', lambda: dict(wts=cu.wts, pts=pts))

    # -- flatten: the documented layout
    got_flat = c.flatten()
    ctx.expect(flat_eq(got_flat, flat) and flat_eq(D.flatten(c), flat), 'C19.flatten_layout',
               lambda: dict(got=got_flat, want=flat, pts=pts))

    # -- load / unflatten round trips
    e = D.product_measure()
    r = e.load(c.flatten(), c.pts)
    ctx.expect(r is e and list(e.pts) == pts and nested_eq(e.wts, wts) and nested_eq(e.pos, pos),
               'C19.load_roundtrip', lambda: dict(pts=list(e.pts), wts=e.wts, pos=e.pos, want_wts=wts, want_pos=pos))
    u = D.unflatten(D.flatten(c), c.pts)
    ctx.expect(list(u.pts) == pts and nested_eq(u.wts, wts) and nested_eq(u.pos, pos),
               'C19.unflatten_roundtrip', lambda: dict(pts=list(u.pts), wts=u.wts, pos=u.pos, want_wts=wts, want_pos=pos))
    ctx.expect(flat_eq(D.flatten(D.unflatten(list(flat), pts)), flat), 'C19.unflatten_roundtrip',
               lambda: dict(flat=flat, back=D.flatten(D.unflatten(list(flat), pts))))
    # appended values are ignored by a product measure (documented)
    e2 = D.product_measure().load(list(flat) + [7.0, 8.0], pts)
    ctx.expect(nested_eq(e2.wts, wts) and nested_eq(e2.pos, pos) and flat_eq(e2.flatten(), flat),
               'C19.load_roundtrip', lambda: dict(with_values=True, wts=e2.wts, pos=e2.pos))
    # load appends len(pts) new measures (documented)
    e2.load(list(flat), pts)
    ctx.expect(list(e2.pts) == pts + pts and nested_eq(e2.wts, wts + wts) and nested_eq(e2.pos, pos + pos),
               'C19.load_appends', lambda: dict(pts=list(e2.pts), want=pts + pts))

    # -- _pack / _unpack, _flat / _nested
    packed = _pack(copy2(pos))
    ctx.expect(points_eq(packed, P), 'C19.pack_order', lambda: dict(got=packed, want=P, samples=pos))
    un = _unpack(packed, pts)
    ctx.expect(nested_eq(un, pos), 'C19.unpack_pack', lambda: dict(got=un, want=pos, npts=pts))
    ctx.expect(points_eq(_pack(_unpack(list(P), pts)), P), 'C19.unpack_pack',
               lambda: dict(got=_pack(_unpack(list(P), pts)), want=P))
    fl = _flat(copy2(pos))
    ctx.expect(flat_eq(fl, [v for x in pos for v in x]), 'C19.flat_nested', lambda: dict(flat=fl, pos=pos))
    ne = _nested(fl, pts)
    ctx.expect(nested_eq(ne, pos), 'C19.flat_nested', lambda: dict(nested=ne, pos=pos))

    # -- scenario
    if kind == 'sc':
        values = case['values']
        ctx.label('values:full' if values else 'values:none')
        s = D.scenario(c, list(values))
        ctx.expect(list(s.pts) == pts and nested_eq(s.wts, wts) and nested_eq(s.pos, pos) and flat_eq(s.values, values)
                   and nested_eq(c.wts, wts) and nested_eq(c.pos, pos),
                   'C19.scenario_ctor', lambda: dict(pts=list(s.pts), wts=s.wts, pos=s.pos, values=s.values))
        sf = s.flatten()
        ctx.expect(flat_eq(sf, flat + values) and flat_eq(s.flatten(all=True), flat + values)
                   and flat_eq(s.flatten(all=False), flat), 'C19.flatten_layout',
                   lambda: dict(scenario=True, got=sf, want=flat + values))
        t = D.scenario()
        r = t.load(s.flatten(), s.pts)
        ctx.expect(r is t and list(t.pts) == pts and nested_eq(t.wts, wts) and nested_eq(t.pos, pos)
                   and flat_eq(t.values, values), 'C19.load_roundtrip',
                   lambda: dict(scenario=True, pts=list(t.pts), wts=t.wts, pos=t.pos, values=t.values, want_values=values))
        obj = s
    else:
        obj = c

    # -- product structure
    got_w = obj.weights; got_p = obj.positions
    ctx.expect(points_eq(got_p, P), 'C19.product_positions', lambda: dict(got=got_p, want=P, pos=pos))
    ctx.expect(len(got_w) == len(W) and all(sum_close(a, b) for a, b in zip(got_w, W)), 'C19.product_weights',
               lambda: dict(got=got_w, want=W, wts=wts))
    ctx.expect(int(obj.npts) == npts == len(P) and list(obj.pts) == pts, 'C19.npts',
               lambda: dict(npts=obj.npts, pts=list(obj.pts), want=npts))
    masses = [math.fsum(w) for w in wts]
    gm = obj.mass
    ctx.expect(len(gm) == len(masses) and all(sum_close(a, b) for a, b in zip(gm, masses)), 'C19.mass',
               lambda: dict(got=gm, want=masses))
    tot = 1.0
    for m in masses:
        tot *= m
    ctx.expect(sum_close(math.fsum(float(w) for w in got_w), tot), 'C19.total_is_product_of_masses',
               lambda: dict(total=math.fsum(float(w) for w in got_w), product_of_masses=tot))
    sup = [p for p, w in zip(P, W) if w > 0]
    supi = [i for i, w in enumerate(W) if w > 0]
    gs = obj.support()
    ctx.expect(points_eq(gs, sup) and list(obj.support_index()) == supi, 'C19.support',
               lambda: dict(got=gs, want=sup, index=list(obj.support_index()), want_index=supi))
    if len(sup) < npts:
        ctx.label('zero-product-weight')
    if all(n == 2 for n in pts):                   # documented for 2^K measures: select(*range(npts)) == _pack
        ctx.label('all-size2')
        sel = obj.select(*range(npts))
        ctx.expect(points_eq(sel, P), 'C19.select', lambda: dict(got=sel, want=P))

    # -- positions setter: positions = positions is the identity; loading a packed list sets the factors
    sh = D.compose(copy2(pos), copy2(wts))
    newpos = [[v + 1.0 for v in x] for x in pos]
    sh.positions = o_points(newpos)
    ctx.expect(nested_eq(sh.pos, newpos) and nested_eq(sh.wts, wts), 'C19.set_positions',
               lambda: dict(pos=sh.pos, want=newpos, wts=sh.wts))

    # -- update
    upd = case['upd']
    params = list(flat)
    for i, v in upd['edits']:
        params[i] = v
    newv = list(upd['values'])
    ctx.label('upd:edits>0' if upd['edits'] else 'upd:no-edit', 'upd:values' if newv else 'upd:no-values')
    want_w, want_x = o_nested(params, pts)
    before_values = list(obj.values) if kind == 'sc' else None
    r = obj.update(list(params) + newv)
    ctx.expect(r is obj and list(obj.pts) == pts and nested_eq(obj.wts, want_w) and nested_eq(obj.pos, want_x),
               'C19.update', lambda: dict(params=params + newv, pts=list(obj.pts), wts=obj.wts, pos=obj.pos,
                                          want_wts=want_w, want_pos=want_x))
    # "exactly the addressed": slots that were not edited keep their value
    changed = set(i for i, _ in upd['edits'])
    after = o_flat(obj.wts, obj.pos)
    ctx.expect(len(after) == len(flat) and all(after[i] == flat[i] for i in range(len(flat)) if i not in changed),
               'C19.update_exact', lambda: dict(before=flat, after=after, edited=sorted(changed)))
    if kind == 'sc':
        k = len(newv); L = len(before_values)
        if k <= L:
            wantv = newv + before_values[k:]
            ctx.expect(flat_eq(obj.values, wantv), 'C19.update_values',
                       lambda: dict(values=obj.values, want=wantv, given=newv, before=before_values))
        else:
            ctx.exclude('update: more values given than the scenario holds (existing slots checked only)')
            ctx.expect(flat_eq(list(obj.values)[:L], newv[:L]), 'C19.update_values',
                       lambda: dict(values=obj.values, given=newv, before=before_values))
        ctx.expect(flat_eq(obj.flatten(all=False), params), 'C19.update',
                   lambda: dict(flatten=obj.flatten(all=False), params=params))
    else:
        ctx.expect(flat_eq(obj.flatten(), params), 'C19.update', lambda: dict(flatten=obj.flatten(), params=params))
    # the product follows the update
    ctx.expect(points_eq(obj.positions, o_points(want_x)) and
               all(sum_close(a, b) for a, b in zip(obj.weights, o_weights(want_w))), 'C19.update',
               lambda: dict(positions=obj.positions, weights=obj.weights))

    # -- _mimic: N points per dimension carrying the product's marginals
    d = D._mimic(list(P), list(W))
    ok = list(d.pts) == [npts] * len(pts)
    for i in range(len(pts)):
        xs = [p[i] for p in P]
        ok = ok and flat_eq(d[i].positions, xs) and flat_eq(d[i].weights, W)
        m, sc_ = o_mean(pos[i], wts[i])
        _, msc = o_mean(xs, W)
        ok = ok and sum_close(d[i].center_mass, m, max(sc_, msc))
        ok = ok and (d[i].range == max(pos[i]) - min(pos[i]))
    ctx.expect(ok, 'C19.mimic', lambda: dict(pts=list(d.pts), center=[d[i].center_mass for i in range(len(pts))],
                                            want_center=[o_mean(pos[i], wts[i])[0] for i in range(len(pts))],
                                            ranges=[d[i].range for i in range(len(pts))]))

    # -- norm_wts_constraintsFactory: last weight of every factor := 1 - sum(others); rest untouched
    vals = list(case.get('values') or [])
    out = D.norm_wts_constraintsFactory(pts)(list(flat) + vals)
    nw = copy2(wts)
    for w in nw:
        w[-1] = 1.0 - sum(w[:-1])
    wantn = o_flat(nw, pos) + vals
    ctx.expect(len(out) == len(wantn) and all(sum_close(a, b) for a, b in zip(out, wantn)), 'C19.norm_wts',
               lambda: dict(got=out, want=wantn))
    ctx.nontrivial(nontriv)


# --------------------------------------------------------------------------- stats
def run_stats(case, ctx):
    from mystic.math import discrete as D
    wts = case['wts']; pos = case['pos']
    pts = [len(w) for w in wts]
    nontriv = shape_labels(ctx, wts, pos)
    P = o_points(pos)
    W = o_weights(wts)
    f = make_fn(case['f']); g = make_fn(case['g']); f1 = make_fn(case['f1'])
    c = D.compose(copy2(pos), copy2(wts))
    if 'values' in case:
        c = D.scenario(c, list(case['values']))
        ctx.label('kind:sc')
    else:
        ctx.label('kind:pm')

    ys = [f(p) for p in P]
    ctx.label('f:const' if len(set(ys)) == 1 else 'f:varies')
    m, sc_ = o_mean(ys, W)
    got = c.expect(f)
    ctx.expect(sum_close(got, m, sc_), 'C19.expect', lambda: dict(got=got, want=m, f=case['f'], wts=wts, pos=pos))
    v, vsc = o_var(ys, W)
    gotv = c.expect_var(f)
    ctx.expect(sum_close(gotv, v, vsc), 'C19.expect_var', lambda: dict(got=gotv, want=v, f=case['f'], wts=wts, pos=pos))

    # pof: plain sum of the weights of the points where f(x) <= 0 (False counts as failure)
    gs = [g(p) for p in P]
    fail = [w for y, w in zip(gs, W) if y <= 0.0]
    want_pof = math.fsum(fail)
    got_pof = c.pof(g)
    ctx.label('pof:' + case['g'][0])
    if any((y == 0.0 and not isinstance(y, bool)) and w > 0 for y, w in zip(gs, W)):
        ctx.label('pof:boundary-hit')
    ctx.label('pof:none' if not fail else 'pof:all' if len(fail) == len(W) else 'pof:some')
    ctx.expect(sum_close(got_pof, want_pof), 'C19.pof',
               lambda: dict(got=got_pof, want=want_pof, g=case['g'], wts=wts, pos=pos))

    sup = [p for p, w in zip(P, W) if w > 0]
    gsup = c.support()
    ctx.expect(points_eq(gsup, sup), 'C19.support', lambda: dict(got=gsup, want=sup))
    # a tolerance lying clearly between two distinct point weights ("any weight <= tol is zero")
    dw = sorted(set(W))
    gaps = [(a, b) for a, b in zip(dw, dw[1:]) if b - a > 1e-6 * b]
    if gaps:
        a, b = gaps[len(gaps) // 2]
        tol = 0.5 * (a + b)
        supt = [p for p, w in zip(P, W) if w > tol]
        ctx.label('support:tol')
        ctx.expect(points_eq(c.support(tol), supt) and list(c.support_index(tol)) == [k for k, w in enumerate(W) if w > tol],
                   'C19.support', lambda: dict(tol=tol, got=c.support(tol), want=supt))

    # per-factor measures
    cm = c.center_mass
    for i, (w, x) in enumerate(zip(wts, pos)):
        mi = c[i]
        mm, msc = o_mean(x, w)
        mv, mvsc = o_var(x, w)
        ctx.expect(sum_close(mi.center_mass, mm, msc) and sum_close(cm[i], mm, msc), 'C19.measure_center_mass',
                   lambda: dict(got=mi.center_mass, want=mm, w=w, x=x))
        ctx.expect(sum_close(mi.var, mv, mvsc), 'C19.measure_var', lambda: dict(got=mi.var, want=mv, w=w, x=x))
        ctx.expect(mi.range == max(x) - min(x), 'C19.measure_range', lambda: dict(got=mi.range, want=max(x) - min(x), x=x))
        ctx.expect(sum_close(mi.mass, math.fsum(w)) and mi.npts == len(x), 'C19.measure_mass',
                   lambda: dict(got=mi.mass, want=math.fsum(w)))
        y1 = [f1((xi,)) for xi in x]
        e1, e1s = o_mean(y1, w)
        v1, v1s = o_var(y1, w)
        ctx.expect(sum_close(mi.expect(f1), e1, e1s) and sum_close(mi.expect_var(f1), v1, v1s), 'C19.measure_expect',
                   lambda: dict(expect=mi.expect(f1), want=e1, expect_var=mi.expect_var(f1), want_var=v1,
                                f1=case['f1'], w=w, x=x))
        ysup = [y for y, wi in zip(y1, w) if wi > 0]
        ok = (mi.maximum(f1) == max(y1) and mi.minimum(f1) == min(y1) and mi.ptp(f1) == max(y1) - min(y1)
              and mi.ess_maximum(f1) == max(ysup) and mi.ess_minimum(f1) == min(ysup)
              and mi.ess_ptp(f1) == max(ysup) - min(ysup))
        ctx.expect(ok, 'C19.measure_extrema',
                   lambda: dict(max=mi.maximum(f1), min=mi.minimum(f1), ess_max=mi.ess_maximum(f1),
                                ess_min=mi.ess_minimum(f1), want=[max(y1), min(y1), max(ysup), min(ysup)]))
        xsup = [xi for xi, wi in zip(x, w) if wi > 0]
        ctx.expect(flat_eq(mi.support(), xsup) and list(mi.support_index()) == [k for k, wi in enumerate(w) if wi > 0],
                   'C19.support', lambda: dict(measure=i, got=mi.support(), want=xsup))

    if 'values' in case:
        vals = case['values']
        mv_, mvs = o_mean(vals, W)
        ctx.expect(sum_close(c.mean_value(), mv_, mvs), 'C19.scenario_values',
                   lambda: dict(mean_value=c.mean_value(), want=mv_))
        cut = case['vcut']
        wp = math.fsum(w for y, w in zip(vals, W) if y - cut <= 0.0)
        gp = c.pof_value(lambda y: y - cut)
        ctx.expect(sum_close(gp, wp), 'C19.scenario_values', lambda: dict(pof_value=gp, want=wp, cut=cut))
    ctx.nontrivial(nontriv and len(set(ys)) > 1)


# --------------------------------------------------------------------------- setters
def _stats(x, w):
    x = [float(v) for v in x]
    m, _ = o_mean(x, w)
    v, _ = o_var(x, w)
    return m, max(x) - min(x), v


def run_setters(case, ctx):
    from mystic.math import discrete as D
    op = case['op']; wts = case['wts']; pos = case['pos']
    ctx.label('op:' + op)
    c = D.compose(copy2(pos), copy2(wts))
    if op == 'pm_center_mass':
        shape_labels(ctx, wts, pos)
        target = case['target']
        c.center_mass = list(target)
        for i, (w, x) in enumerate(zip(wts, pos)):
            newx = [float(v) for v in c[i].positions]
            m0, r0, v0 = _stats(x, w)
            m1, r1, v1 = _stats(newx, w)
            big = max([abs(v) for v in x] + [abs(v) for v in newx]) + 1.0
            ok = (abs(m1 - target[i]) <= 1e-7 * abs(target[i]) + 1e-12 * big
                  and abs(r1 - r0) <= 1e-7 * r0 + 1e-12 * big
                  and abs(v1 - v0) <= 1e-7 * v0 + 1e-12 * big * (math.sqrt(v0) + 1e-12 * big)
                  and flat_eq(c[i].weights, w) and len(newx) == len(x)
                  and sum_close(c[i].center_mass, m1, big))
            ctx.expect(ok, 'C19.set_product_center_mass',
                       lambda: dict(i=i, target=target[i], mean=m1, range=[r0, r1], var=[v0, v1], x=x, newx=newx, w=w))
        ctx.nontrivial(len(wts) >= 2)
        return
    w = wts[0]; x = pos[0]
    target = case['target']
    m = c[0]
    if 0.0 in w:
        ctx.label('zero-weight')
    if len(set(x)) < len(x):
        ctx.label('tie')
    if target == 0.0:
        ctx.label('target:0')
    ctx.label('n:%d' % len(x))
    m0, r0, v0 = _stats(x, w)
    setattr(m, op, target)
    newx = [float(v) for v in m.positions]
    m1, r1, v1 = _stats(newx, w)
    pmax = max(abs(v) for v in x)
    scale = 1.0
    if op == 'range':
        scale = max(1.0, target / r0)
    elif op == 'var':
        scale = max(1.0, math.sqrt(target / v0))
    big = max(pmax * scale, max(abs(v) for v in newx), abs(m0)) + 1.0
    same_w = flat_eq(m.weights, w) and len(newx) == len(x)
    detail = lambda: dict(op=op, target=target, before=dict(mean=m0, range=r0, var=v0), after=dict(mean=m1, range=r1, var=v1),
                          x=x, newx=newx, w=w, reported=dict(mean=m.center_mass, range=m.range, var=m.var))
    mean_kept = abs(m1 - m0) <= 1e-7 * abs(m0) + 1e-12 * big
    if op == 'center_mass':
        ctx.expect(abs(m1 - target) <= 1e-7 * abs(target) + 1e-12 * big and sum_close(m.center_mass, m1, big),
                   'C19.set_center_mass', detail)
        # impose_mean: "does not alter the weighted range or the weighted variance"
        ctx.expect(same_w and abs(r1 - r0) <= 1e-7 * r0 + 1e-12 * big
                   and abs(v1 - v0) <= 1e-7 * v0 + 1e-12 * big * (math.sqrt(v0) + 1e-12 * big),
                   'C19.set_center_mass_keeps', detail)
    elif op == 'range':
        ctx.expect(abs(r1 - target) <= 1e-7 * target + 1e-12 * big and sum_close(m.range, r1, big),
                   'C19.set_range', detail)
        # impose_spread: "does not alter the weighted mean"
        ctx.expect(same_w and mean_kept, 'C19.set_range_keeps', detail)
    else:
        sd0 = math.sqrt(v0); sd1 = math.sqrt(target)
        tolv = 1e-7 * target + 1e-12 * big * (sd1 + 1e-12 * big) + target * 1e-12 * (pmax + 1.0) / sd0
        ctx.expect(abs(v1 - target) <= tolv and abs(float(m.var) - v1) <= tolv + 1e-9 * v1, 'C19.set_var', detail)
        # impose_variance: "does not alter the weighted mean"
        ctx.expect(same_w and mean_kept, 'C19.set_var_keeps', detail)
    ctx.nontrivial(True)


# libFuzzer executions per shard and @given test of the coverage-guided extra of the thorough tier (vp/fuzz.py)
FUZZ = 2000

TESTS = [
    Test('structure', run_structure, strategy=lambda tier: structure_cases(),
         examples={'quick': 5000, 'thorough': 200000}),
    Test('stats', run_stats, strategy=lambda tier: stats_cases(),
         examples={'quick': 4000, 'thorough': 160000}),
    Test('setters', run_setters, strategy=lambda tier: setter_cases(),
         examples={'quick': 4000, 'thorough': 160000}),
]


KNOWN = {}
