"""C04 - best-so-far never worsens; counters, monitors and callbacks are faithful.
State machine over Step / Solve / Set* / Finalize histories (vp.solver_machine)."""
from vp.runner import Test, fold_run
from vp import solver_machine as sm

PROP = 'C04'
RULE = ("RuleBasedStateMachine histories for DE, DE2, Nelder-Mead and Powell: header (solver, dim 1-4, cost family, "
        "initial point/box, seed, monitor kinds, termination, initial limits) + up to 20/50 operations out of "
        "step(n), solve(g), limits(g,e,new), constraints, penalty, ranges, reducer, term, evalmon(kind,new), "
        "stepmon(kind), finalize; invariants after every operation against the harness's own recorder "
        "(real cost calls, callback invocations). Non-trivial: the history contains a re-decoration or a "
        "continue-after-stop and >= 3 completed iterations; distinct by canonical JSON of the whole trace.")
ASSUME = ["constraints drawn are deterministic and idempotent (catalog); NaN-valued costs are outside the domain",
          "the step monitor is swapped only with new=False (history carried over); new=True on the evaluation monitor "
          "ends the 'holds every call' relation for that monitor",
          "monotonicity is asserted within segments of unchanged objective"]

_run = fold_run(lambda case, ctx: sm.SolverState(case, ctx, PROP), lambda s, op, ctx: s.apply(op), lambda s: s.close())

TESTS = [Test('machine', _run, machine=sm.machine_factory(PROP),
              examples={'quick': 3200, 'thorough': 60000}, steps={'quick': 16, 'thorough': 40},
              shrink={'quick': True, 'thorough': True})]

KNOWN = {'F52-gradient-norm-tolerance-calls-raw-cost': sm.kf_gnt}
from vp.solver_machine import kf_gnt as _kf_gnt_pred
