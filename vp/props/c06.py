"""C06 - a checkpointed solver resumes exactly as if it had never been interrupted;
restored solvers and deep copies are independent of the original."""
import os, copy, math
import numpy as np
from hypothesis import strategies as st
from vp.runner import Test
from vp import lab
from vp.solver_run import Run, configs
from vp.util import F, FL

PROP = 'C06'
RULE = ("@given: a solver configuration as in C01 (DE, DE2, Nelder-Mead, Powell; bounds; catalog constraints incl. "
        "symbolic-generated ones and in-place ones; mystic penalties; plain/verbose/logging monitors; save frequency) x "
        "interruption generation k x continuation length m x restore path in {SaveSolver->LoadSolver, periodic "
        "SetSaveFrequency dump->LoadSolver, dill dumps/loads, copy.deepcopy}.  Run A is uninterrupted and snapshotted after "
        "every Step; run B is identical up to k, is checkpointed (file bytes copied at once), optionally advanced, then the "
        "RNG states captured at the checkpoint are restored and the loaded solver continues for m steps: every snapshot "
        "(population, energies, best, counters, both monitors, energy history) must equal A's exactly.  Non-trivial: k >= 1, "
        "m >= 2 and the best changed during the continuation; distinct by canonical JSON.")
ASSUME = ["'same random-generator state' = python random + numpy.random global states captured at the checkpoint and restored before continuing",
          "recording cost objects pickle to a registry lookup (the recorder is shared by copies, calls are attributed by deltas)",
          "DE settings given as Step/Solve keywords (strategy, CrossProbability, ScalingFactor) are part of the solver's state "
          "(the code stores them: 'sticky'), so a restored solver continued with a bare Step()/Solve() goes on with them, as a "
          "user resuming an interrupted Solve(strategy=...) from its restart file expects"]


@st.composite
def cases(draw, tier):
    cfg = draw(configs(tier, allow_reducer=False))
    cfg['term'] = 'never'
    cfg['maxfun'] = None
    path = draw(st.sampled_from(['save', 'periodic', 'dill', 'deepcopy']))
    n = draw(st.sampled_from([1, 2, 3])) if path == 'periodic' else draw(st.sampled_from([None, None, 2]))
    k = draw(st.integers(0, 6 if tier == 'quick' else 12))
    lazy = draw(st.integers(0, 3)) == 0
    if path == 'periodic':
        k = max(n, (k // n) * n)
        if lazy and draw(st.booleans()):
            k = 0                       # the restart file written by the very first Step (generation 0)
    m = draw(st.integers(2, 5))
    cfg['maxiter'] = k + m + 3
    # DE settings given as Step/Solve keywords (as Solve(strategy=...) forwards them to every Step) instead of attributes
    cfg['de_kwargs'] = cfg['solver'] in ('DE', 'DE2') and draw(st.booleans())
    # limits asked for as 'the defaults, counted from now' (new=True without numbers): the solver resolves them when it
    # next looks at its limits - the resolved values are part of the state a restored solver has to share
    cfg['lazy_limits'] = lazy
    # the other solvers' sticky Step/Solve keywords (Powell: line-search settings, Nelder-Mead: simplex settings)
    if cfg['solver'] == 'PW' and draw(st.booleans()):
        cfg['step_kwargs'] = dict(xtol=draw(st.sampled_from([1e-7, 1e-2, 1e-3])), imax=draw(st.sampled_from([500, 500, 3])))
    elif cfg['solver'] == 'NM' and draw(st.booleans()):
        cfg['step_kwargs'] = dict(adaptive=draw(st.booleans()), radius=draw(st.sampled_from([0.05, 0.1, 0.3])))
    # benign re-decorations (the same penalty / constraints / ranges installed again, Finalize) before given iterations,
    # made in the uninterrupted run and in the checkpointed one alike; mostly around the checkpoint
    if draw(st.integers(0, 2)) == 0:
        hows = ['penalty', 'constraints', 'finalize', 'penalty2'] + (['ranges', 'ranges'] if cfg.get('bounds') else [])
        cfg['reconf'] = [[draw(st.sampled_from([k, k, max(1, k - 1), k + 1, k + 2])), draw(st.sampled_from(hows))]
                         for _ in range(draw(st.integers(1, 2)))]
    cfg.update(path=path, savefreq=n, k=k, m=m,
               stepmon=draw(st.sampled_from([None, 'plain', 'verbose', 'logging', 'vlogging'])),
               evalmon=draw(st.sampled_from([None, 'plain', 'plain', 'logging'])),
               advance=draw(st.sampled_from([0, 0, 1, 2])),
               # cost multiplier of the monitors (k=-1 is the usual 'maximisation' log)
               monk=draw(st.sampled_from([None, None, -1, 0.5, 100])))
    return cfg


def de_kw(case):
    """the keywords a Solve(strategy=..., CrossProbability=..., ScalingFactor=...) call forwards to every Step"""
    if case.get('step_kwargs'):
        return dict((k, (F(v) if isinstance(v, float) else v)) for k, v in case['step_kwargs'].items())
    if not case.get('de_kwargs'):
        return {}
    import mystic.strategy as mstrat
    return dict(strategy=getattr(mstrat, case['strategy']), CrossProbability=F(case['CR']), ScalingFactor=F(case['F']))


def build(case, ctx, tag):
    cfg = case
    if case.get('de_kwargs'):
        cfg = dict(case); cfg['strategy'] = None; cfg['CR'] = None; cfg['F'] = None
    run = Run(cfg, ctx)
    s = run.solver
    d = ctx.mkdtemp()
    if case.get('evalmon'):
        s.SetEvaluationMonitor(_mon(case['evalmon'], d, 'eval', case.get('monk')))
    if case.get('stepmon'):
        s.SetGenerationMonitor(_mon(case['stepmon'], d, 'step', case.get('monk')))
    fn = os.path.join(d, 'state.pkl')
    if case.get('savefreq'):
        s.SetSaveFrequency(case['savefreq'], fn)
    if case.get('lazy_limits'):
        s.SetEvaluationLimits(new=True)
    return run, d, fn


def _limits(s):
    return [repr(getattr(s, '_maxiter', None)), repr(getattr(s, '_maxfun', None))]


def _mon(kind, d, name, k=None):
    from mystic.monitors import Monitor, VerboseMonitor, LoggingMonitor, VerboseLoggingMonitor
    kw = {} if k is None else {'k': k}
    if kind == 'plain': return Monitor(**kw)
    if kind == 'verbose': return VerboseMonitor(1, **kw)
    if kind == 'logging': return LoggingMonitor(1, filename=os.path.join(d, name + '.log'), **kw)
    return VerboseLoggingMonitor(1, 1, filename=os.path.join(d, name + '.log'), **kw)


def _reconf(case, run, solver, step_index):
    """the benign re-decorations planned before iteration `step_index` (same settings installed again)"""
    n = 0
    for at, how in case.get('reconf') or []:
        if at != step_index or step_index < 1:
            continue
        n += 1
        if how == 'penalty':
            solver.SetPenalty(run.pen)
        elif how == 'penalty2':
            # not benign: another penalty from here on (in both runs; a restart file written later must carry it)
            solver.SetPenalty(lab.make_penalty(dict(kind='plain', i=0, c=-0.5, k=3.0)))
        elif how == 'constraints':
            solver.SetConstraints(run.con)
        elif how == 'finalize':
            solver.Finalize()
        elif how == 'ranges':
            b = run.cfg['bounds']
            solver.SetStrictRanges(list(run.box[0]), list(run.box[1]), tight=b.get('tight'), clip=b.get('clip'))
    return n


def run_case(case, ctx):
    import dill
    from mystic.solvers import LoadSolver
    k = case['k']; m = case['m']; path = case['path']
    total = k + m
    # ---- run A: uninterrupted
    runA, dA, fnA = build(case, ctx, 'A')
    SA = []; LA = []
    kwA = de_kw(case)
    for b in range(total + 1):
        _reconf(case, runA, runA.solver, b)
        msg = runA.solver.Step(callback=runA.cb, **kwA)       # uninterrupted: the keywords on every Step, as Solve does
        SA.append(lab.snapshot(runA.solver))
        LA.append(_limits(runA.solver))
        if msg: break
    if len(SA) < total + 1:
        ctx.exclude('run-stopped-before-k+m')
        return
    # ---- run B: identical up to k
    runB, dB, fnB = build(case, ctx, 'B')
    sB = runB.solver
    blob = {}
    state = {}

    def cb(x):
        runB.cb(x)
        if len(runB.callbacks) - 1 == k:
            state['rng'] = lab.rng_state()
            if path == 'periodic' and os.path.exists(fnB):
                with open(fnB, 'rb') as fh:
                    blob['bytes'] = fh.read()          # copy the dump at once: later saves overwrite the file
    for b in range(k + 1):
        _reconf(case, runB, sB, b)
        sB.Step(callback=cb, **kwA)
        d = lab.snap_equal(SA[b], lab.snapshot(sB))
        if d is not None:
            raise AssertionError('harness: runs A and B diverge before the checkpoint at boundary %d on %s' % (b, d))
    if path == 'periodic':
        if 'bytes' not in blob:
            ctx.exclude('no-periodic-dump-at-k')
            return
        fn2 = os.path.join(dB, 'copy.pkl')
        with open(fn2, 'wb') as fh:
            fh.write(blob['bytes'])
    elif path == 'save':
        fn1 = os.path.join(dB, 'saved.pkl')
        sB.SaveSolver(fn1)
        state['rng'] = lab.rng_state()
        # SaveSolver registers the file for later periodic/forced saves: keep our own copy of the bytes
        fn2 = os.path.join(dB, 'copy.pkl')
        with open(fn1, 'rb') as fh:
            data1 = fh.read()
        with open(fn2, 'wb') as fh:
            fh.write(data1)
    elif path == 'dill':
        data = dill.dumps(sB)
        state['rng'] = lab.rng_state()
    else:
        pre_copy = copy.deepcopy(sB)          # the copy is taken at the checkpoint, like the other paths
        state['rng'] = lab.rng_state()
    snapB_k = lab.snapshot(sB)
    # ---- optionally advance the original first (it must follow A, and must not disturb the restored one)
    cost = runB.cost
    for j in range(case['advance']):
        _reconf(case, runB, sB, k + 1 + j)
        sB.Step(callback=runB.cb, **kwA)
        d = lab.snap_equal(SA[k + 1 + j], lab.snapshot(sB))
        ctx.expect(d is None, 'C06.original_continues', lambda: dict(solver=runB.kind, boundary=k + 1 + j, differs=d, path=path))
    # ---- restore
    if path == 'periodic' or path == 'save':
        s2 = LoadSolver(fn2)
    elif path == 'dill':
        s2 = dill.loads(data)
    else:
        s2 = pre_copy
    ctx.expect(type(s2).__name__ == type(sB).__name__, 'C06.resume', lambda: dict(note='restored solver has another type', got=type(s2).__name__))
    base = int(s2.generations)
    if path == 'periodic':
        # a periodic dump holds the state of the generation it was written in (Powell logs - and dumps - one
        # generation late); the claim is about continuing from whatever generation the dump holds
        ctx.expect(base <= k and k - base <= (case['savefreq'] or 1), 'C06.resume',
                   lambda: dict(solver=runB.kind, path=path, k=k, dump_generation=base, note='dump is older than one save period'))
        if base != k: ctx.label('dump-lags-checkpoint')
    else:
        ctx.expect(base == k, 'C06.resume', lambda: dict(solver=runB.kind, path=path, k=k, restored_generation=base))
        d0 = lab.snap_equal(SA[k], lab.snapshot(s2))
        ctx.expect(d0 is None, 'C06.resume', lambda: dict(solver=runB.kind, path=path, boundary=k, differs=d0, note='state right after restore'))
    lab.set_rng_state(state['rng'])
    changed = False
    first_best = lab.fvec(s2.bestSolution)
    cbs2 = []
    n_steps = 0
    for j in range(m + (k - base)):
        c0 = cost.ncalls(); e0 = int(s2.evaluations)
        orig_before = lab.snapshot(sB)
        if _reconf(case, runB, s2, int(s2.generations) + 1):
            ctx.label('re-decorated-after-restore')
        s2.Step(callback=lambda x: cbs2.append(1))
        made = cost.ncalls() - c0
        got = lab.snapshot(s2)
        g = got['generations']
        if g > total:
            break
        n_steps += 1
        want = SA[g]
        d = lab.snap_equal(want, got)
        ctx.expect(d is None, 'C06.resume',
                   lambda: dict(solver=runB.kind, path=path, k=k, restored_at=base, boundary=g, differs=d,
                                want=_brief(want, d), got=_brief(got, d), savefreq=case.get('savefreq')))
        if case.get('lazy_limits'):
            ctx.expect(_limits(s2) == LA[g], 'C06.resume',
                       lambda: dict(solver=runB.kind, path=path, k=k, restored_at=base, boundary=g, differs='resolved limits',
                                    want=LA[g], got=_limits(s2)))
        ctx.expect(int(s2.evaluations) - e0 == made, 'C06.own_count',
                   lambda: dict(solver=runB.kind, path=path, counted=int(s2.evaluations) - e0, real_calls=made))
        d2 = lab.snap_equal(orig_before, lab.snapshot(sB))
        ctx.expect(d2 is None, 'C06.independent',
                   lambda: dict(solver=runB.kind, path=path, differs=d2, note='advancing the restored/copied solver changed the original'))
        if lab.fvec(s2.bestSolution) != first_best:
            changed = True
    # advancing the original must not change the restored one
    snap2 = lab.snapshot(s2)
    lab.set_rng_state(state['rng'])
    sB.Step(callback=runB.cb, **kwA)
    d3 = lab.snap_equal(snap2, lab.snapshot(s2))
    ctx.expect(d3 is None, 'C06.independent',
               lambda: dict(solver=runB.kind, path=path, differs=d3, note='advancing the original changed the restored/copied solver'))
    ctx.label('solver:' + runB.kind, 'path:' + path, 'stepmon:%s' % case.get('stepmon'), 'evalmon:%s' % case.get('evalmon'))
    for kk in ('bounds', 'constraint', 'penalty'):
        if case.get(kk): ctx.label(kk)
    if case.get('constraint'): ctx.label('con:' + case['constraint']['kind'])
    if case['advance']: ctx.label('original-advanced-first')
    if case.get('de_kwargs'): ctx.label('de-settings-as-keywords')
    if case.get('step_kwargs'): ctx.label('sticky-step-keywords')
    if case.get('lazy_limits'): ctx.label('limits-resolved-lazily', 'checkpoint-at-generation-0' if k == 0 else 'checkpoint-later')
    if case.get('reconf'): ctx.label('re-decorations:' + ','.join(sorted(set(h for _, h in case['reconf']))))
    ctx.label('monitor-k:%s' % case.get('monk'))
    ctx.nontrivial(k >= 1 and n_steps >= 2 and changed)


def _brief(snap, key):
    if key is None or key not in snap:
        return None
    v = snap[key]
    return v if not isinstance(v, list) or len(str(v)) < 400 else str(v)[:400]



# --------------------------------------------------------------------------- the restart file of a stopped run
@st.composite
def final_cases(draw, tier):
    """a run with SetSaveFrequency that stops on its generation limit: the restart file then holds the forced dump written
    after the stop.  Restored from it and given the same new limit as the original, it must continue like the original."""
    cfg = draw(configs(tier, allow_reducer=False))
    cfg['term'] = 'never'
    cfg['maxfun'] = None
    n = draw(st.sampled_from([1, 2, 3, 5]))
    k = draw(st.integers(1, 8 if tier == 'quick' else 15))
    if draw(st.booleans()):
        k = max(n, (k // n) * n)          # the stop generation is one the periodic dump also fires at
    cfg.update(savefreq=n, k=k, m=draw(st.integers(2, 5)), maxiter=k, path='final', de_kwargs=False, advance=0,
               stepmon=draw(st.sampled_from([None, 'plain', 'logging'])), evalmon=draw(st.sampled_from([None, 'plain'])),
               monk=draw(st.sampled_from([None, None, -1])))
    if draw(st.integers(0, 2)) == 0:
        # a setter called on the running solver just before its last iteration / before the Step that finds it stopped
        hows = ['penalty2', 'penalty2', 'penalty', 'constraints'] + (['ranges'] if cfg.get('bounds') else [])
        cfg['reconf'] = [[draw(st.sampled_from([k, k + 1])), draw(st.sampled_from(hows))]]
    return cfg


def run_final(case, ctx):
    from mystic.solvers import LoadSolver
    k = case['k']; m = case['m']
    run, d, fn = build(case, ctx, 'B')
    s = run.solver
    msg = None
    for b in range(k + 4):
        if _reconf(case, run, s, b): ctx.label('setter-before-the-stop')
        msg = s.Step(callback=run.cb)
        if msg:
            break
    if not msg or int(s.generations) != k or not os.path.exists(fn):
        ctx.exclude('run-did-not-stop-at-k-with-a-restart-file')
        return
    rng = lab.rng_state()
    fn2 = os.path.join(d, 'copy.pkl')
    with open(fn, 'rb') as fh:
        data = fh.read()
    with open(fn2, 'wb') as fh:
        fh.write(data)
    at_stop = lab.snapshot(s)
    # the original goes on under a new (total) generation limit
    s.SetEvaluationLimits(generations=k + m + 3)
    SO = []
    for j in range(m):
        s.Step(callback=run.cb)
        SO.append(lab.snapshot(s))
    # the solver restored from the restart file, same new limit, same random-generator state
    s2 = LoadSolver(fn2)
    ctx.expect(type(s2).__name__ == type(s).__name__ and int(s2.generations) == k, 'C06.resume',
               lambda: dict(solver=run.kind, path='final', k=k, restored_generation=int(s2.generations)))
    d0 = lab.snap_equal(at_stop, lab.snapshot(s2))
    ctx.expect(d0 is None, 'C06.resume', lambda: dict(solver=run.kind, path='final', boundary=k, differs=d0, note='state right after restore'))
    lab.set_rng_state(rng)
    s2.SetEvaluationLimits(generations=k + m + 3)
    changed = False
    for j in range(m):
        s2.Step()
        got = lab.snapshot(s2)
        dd = lab.snap_equal(SO[j], got)
        ctx.expect(dd is None, 'C06.resume',
                   lambda: dict(solver=run.kind, path='final', k=k, savefreq=case['savefreq'], boundary=k + 1 + j, differs=dd,
                                want=_brief(SO[j], dd), got=_brief(got, dd)))
        if got['bestSolution'] != at_stop['bestSolution']:
            changed = True
    ctx.label('solver:' + run.kind, 'path:final', 'stop-on-dump-generation' if k % case['savefreq'] == 0 else 'stop-between-dumps')
    for kk in ('bounds', 'constraint', 'penalty'):
        if case.get(kk): ctx.label(kk)
    ctx.nontrivial(changed)


# --------------------------------------------------------------------------- collapses inside Solve, restart in between
@st.composite
def collapse_cases(draw, tier):
    """Solve() under Or(ChangeOverGeneration, CollapseAt(0.0)) on a bowl whose first coordinates have their optimum at 0
    and converge at different speeds, so that Solve goes through collapses at different generations; a restart file of
    some generation in between is restored and continued with the public API (Step until a stop, Collapse, again)"""
    dim = draw(st.integers(3, 4))
    w = [draw(st.sampled_from([50.0, 20.0])), draw(st.sampled_from([0.5, 1.0, 2.0]))] + \
        [draw(st.sampled_from([1.0, 5.0])) for _ in range(dim - 2)]
    a = [0.0, 0.0] + [draw(st.sampled_from([1.0, 2.0, -1.5])) for _ in range(dim - 2)]
    return dict(solver=draw(st.sampled_from(['NM', 'DE', 'DE'])), dim=dim, w=w, a=a, seed=draw(st.integers(0, 2 ** 20)),
                npop=draw(st.integers(8, 12)), window=draw(st.sampled_from([3, 5, 8])), crash=draw(st.floats(0.05, 0.95)),
                path=draw(st.sampled_from(['load', 'dill'])))


def _collapse_build(case, ctx, fn):
    from mystic.termination import Or, CollapseAt, ChangeOverGeneration as COG
    lab.reset_registry(); lab.seed_rng(case['seed'])
    s = lab.make_solver(case['solver'], case['dim'], case['npop'])
    if case['solver'] == 'DE':
        s.SetRandomInitialPoints([0.0] * case['dim'], [3.0] * case['dim'])
    else:
        s.SetInitialPoints([1.5, 2.5, 0.5, 3.0][:case['dim']])
    s.SetEvaluationLimits(generations=300)
    s.SetTermination(Or(COG(1e-14, 40), CollapseAt(0.0, tolerance=1e-3, generations=case['window'])))
    cost = lab.Cost('c0', dict(fam='quad', a=case['a'], w=case['w'], ret='float'))
    s.SetObjective(cost)
    s.SetSaveFrequency(1, fn)
    return s


def _final(s):
    return dict(generations=int(s.generations), evaluations=int(s.evaluations), bestSolution=lab.lst(s.bestSolution),
                bestEnergy=float(s.bestEnergy), population=lab.lst(s.population), popEnergy=lab.lst(s.popEnergy),
                energy_history=lab.lst(s.energy_history))


def run_collapse(case, ctx):
    import dill
    from mystic.solvers import LoadSolver
    d = ctx.mkdtemp(); fn = os.path.join(d, 'state.pkl')
    s = _collapse_build(case, ctx, fn)
    dumps = {}; collapses = []

    def cb(x):
        g = int(s.generations)
        if os.path.exists(fn):
            with open(fn, 'rb') as fh:
                dumps[g] = (fh.read(), lab.rng_state())
    s.Solve(callback=cb, disp=0)
    want = _final(s)
    # (when the collapses happened: a collapsed coordinate is exactly 0.0 from then on - read off the step monitor, the
    #  solver itself is left untouched: anything hung onto it would travel into the restart files)
    hist = [lab.fvec(x) for x in s.solution_history]
    for i in range(2):
        first = next((g for g, x in enumerate(hist) if x[i] == 0.0 and all(y[i] == 0.0 for y in hist[g:])), None)
        if first is not None:
            collapses.append(first)
    collapses.sort()
    if want['generations'] < 4 or not dumps:
        ctx.exclude('run-too-short'); return
    gens = sorted(g for g in dumps if 0 < g < want['generations'])
    if not gens:
        ctx.exclude('no-restart-file-inside-the-run'); return
    if len(collapses) >= 2 and case['seed'] % 4:
        # mostly: a restart file written after one collapse was applied and before the next
        inner = [g for g in gens if collapses[0] <= g < collapses[-1]]
        gens = inner or gens
    c = gens[min(len(gens) - 1, int(case['crash'] * len(gens)))]
    data, rng = dumps[c]
    if case['path'] == 'load':
        f2 = os.path.join(d, 'copy.pkl')
        with open(f2, 'wb') as fh: fh.write(data)
        s2 = LoadSolver(f2)
    else:
        s2 = dill.loads(data)
    lab.set_rng_state(rng)
    ctx.expect(int(s2.generations) == c, 'C06.resume', lambda: dict(path='collapse', restored_generation=int(s2.generations), file_of_generation=c))
    steps = 0
    try:
        while True:                       # what Solve does, spelled out with the public API
            while not s2.Step():
                steps += 1
                if steps > 400: raise RuntimeError('continuation does not stop')
            if not s2.Collapse():
                break
        got = _final(s2); err = None
    except Exception as e:              # noqa
        got = None; err = '%s: %s' % (type(e).__name__, e)
    ctx.expect(err is None, 'C06.resume', lambda: dict(path='collapse', solver=case['solver'], restored_at=c, collapses_at=collapses,
                                                       error=err, note='the restored solver cannot be continued'))
    if got is not None:
        dk = lab.snap_equal(want, got)
        ctx.expect(dk is None, 'C06.resume', lambda: dict(path='collapse', solver=case['solver'], restored_at=c, collapses_at=collapses, differs=dk,
                                                          want=_brief(want, dk), got=_brief(got, dk)))
    between = any(g <= c for g in collapses) and any(g > c for g in collapses)
    ctx.label('solver:' + case['solver'], 'path:collapse/' + case['path'], 'collapses:%d' % min(len(collapses), 3))
    if between: ctx.label('restart-between-two-collapses')
    ctx.nontrivial(between)


TESTS = [Test('resume', run_case, strategy=lambda tier: cases(tier),
              examples={'quick': 1600, 'thorough': 40000}),
         Test('collapse', run_collapse, strategy=lambda tier: collapse_cases(tier),
              examples={'quick': 48, 'thorough': 1600}),
         Test('final', run_final, strategy=lambda tier: final_cases(tier),
              examples={'quick': 640, 'thorough': 16000})]

KNOWN = {}
