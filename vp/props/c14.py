"""C14 - compiled condition and penalty functions measure exactly the stated violation.

Constraint texts of 1-5 lines with arbitrary left-hand sides are generated as expression trees
(vp.symgen), rendered under a naming scheme and compiled with ``generate_conditions`` and
``generate_penalty``.  Oracle: the tree interpreter evaluates lhs and rhs of every line at the
point; the penalty is the documented sum of per-line terms (mystic.penalty docstrings) joined as
documented by mystic.coupler.and_ / or_.

Tests
  penalty   : condition values, their orientation, the penalty's value and its zero set
  roundtrip : isolated-form systems: penalty(constraint(x)) == 0 for the same text
"""
import math
from fractions import Fraction
import numpy as np
from hypothesis import strategies as st
from vp.runner import Test
from vp.util import close
from vp import symgen as sg

PROP = 'C14'
RULE = ("texts of 1-5 lines 'lhs <cmp> rhs' (all seven comparators) split over 1-3 constraint strings; lines are "
        "isolated ('xi cmp f'), pivot ('a*xs + g cmp r', so that points on / one ulp off / inside and outside the "
        "strictness band of the boundary can be constructed) or free (arbitrary trees both sides); trees over "
        "+ - * / abs min max sqrt (exact) or with one sin/cos/tanh/exp term (inexact); 1-13 variables under a "
        "naming scheme (x0..xN incl. N>10, another base, explicit name list), optional nvars, locals (constants, tol, "
        "rel); penalty types default / one type for all lines / one per line from {quadratic, linear, uniform}, "
        "k, h, 0-2 iter() calls, join in {None, and_, or_}; 1-6 points per text as list / ndarray. "
        "Non-trivial: the point satisfies some lines and violates others; distinct = canonical JSON of the case.")
ASSUME = ["the interpreter's python float arithmetic equals what python computes from the rendered text for + - * / "
          "abs min max sqrt (vp.symgen.selftest); lines with sin/cos/tanh/exp are compared with slack 1e-11 * "
          "sum-of-magnitudes",
          "strict lines: value <= 0 is asserted only when the line holds by more than tol + |rhs|*rel "
          "(mystic.math.tolerance), value > 0 when it fails; inside the band either is accepted; points inside a band "
          "are excluded from the zero-set check and counted",
          "a user-supplied (tol, rel) below four ulp of rhs cannot separate a strict boundary: excluded and counted",
          "the penalty formula is checked against the documented per-type terms of the (separately checked) condition "
          "values: quadratic k*h^n*v^2 (x2 and max(0,v) for inequalities), linear k*h^n*|v|, uniform k*h^n; "
          "barrier and lagrange types belong to C15",
          "join=or_ over a single text whose inequality or equality group is empty is not generated (the empty group "
          "has penalty 0, so the minimum is identically 0)",
          "points where a side is undefined / not finite are excluded and counted; |lhs-rhs| below 1e-100 (square "
          "underflows) cannot occur: coordinates are 0 or 1e-3 <= |x| <= 1e15"]

FAMS = ['quadratic', 'linear', 'uniform']
DEFAULT_K = {'quadratic': 100, 'linear': 100, 'uniform': math.inf}
MODES = ['on', 'on', 'above', 'below', 'band-in+', 'band-in-', 'band-out+', 'band-out-', 'far+', 'far-']
INEQ = ('<', '<=', '>', '>=')


# ------------------------------------------------------------------------------ generators
@st.composite
def _line(draw, n, locs, exact):
    kind = draw(st.sampled_from(['iso', 'pivot', 'pivot', 'free', 'free-const']))
    cmp = draw(st.sampled_from(sg.CMPS))
    allv = list(range(n))
    if n > 10 and draw(st.booleans()):
        allv = [1, 10, 11 if n > 11 else 0, n - 1]
    if kind == 'iso':
        s = draw(st.sampled_from(allv))
        others = [j for j in allv if j != s]
        return {'kind': kind, 'cmp': cmp, 'lhs': ['v', s], 'rhs': draw(sg.trees(others, locs, depth=2, exact=exact)),
                'pivot': s, 'coef': 1, 'g': ['c', 0]}
    if kind == 'pivot':
        s = draw(st.sampled_from(allv))
        others = [j for j in allv if j != s]
        a = draw(st.sampled_from([1.0, -1.0, 2.0, 0.5, -2.5, 4, 1e3, 0.1, 3]))
        g = draw(sg.trees(others, locs, depth=1, exact=True))
        term = ['mul', ['c', a], ['v', s]] if draw(st.booleans()) else ['mul', ['v', s], ['c', a]]
        form = draw(st.sampled_from(['t+g', 'g+t', 'g-t']))
        lhs = ['add', term, g] if form == 't+g' else (['add', g, term] if form == 'g+t' else ['sub', g, term])
        rhs = draw(st.one_of(sg.trees(others, locs, depth=1, exact=exact), sg.consts().map(lambda c: ['c', c])))
        return {'kind': kind, 'cmp': cmp, 'lhs': lhs, 'rhs': rhs, 'pivot': s, 'coef': -a if form == 'g-t' else a, 'g': g}
    lhs = draw(sg.trees(allv, locs, depth=2, exact=exact))
    if kind == 'free':
        rhs = draw(sg.trees(allv, locs, depth=1, exact=True))
    else:
        rhs = ['c', draw(sg.consts())]
    return {'kind': kind, 'cmp': cmp, 'lhs': lhs, 'rhs': rhs, 'pivot': None, 'coef': 1, 'g': ['c', 0]}


@st.composite
def penalty_cases(draw, tier):
    n = draw(st.one_of(st.integers(1, 5), st.integers(2, 5), st.sampled_from([11, 12, 13])))
    locs = draw(sg.locals_dicts())
    nl = draw(st.integers(1, 5))
    exact = draw(st.integers(0, 4)) > 0
    lines = [draw(_line(n, sorted(locs), exact)) for _ in range(nl)]
    # how the lines are distributed over constraint strings
    split = [nl]
    if nl >= 2 and draw(st.integers(0, 3)) == 0:
        k = draw(st.integers(1, nl - 1))
        split = [k, nl - k]
        if nl - k >= 2 and draw(st.booleans()):
            split = [k, 1, nl - k - 1]
    join = draw(st.sampled_from([None, None, None, 'and', 'or']))
    isineq = [l['cmp'] in INEQ for l in lines]
    if join == 'or' and len(split) == 1 and (all(isineq) or not any(isineq)):
        join = 'and'
    mode = draw(st.sampled_from(['default', 'default', 'single', 'perline', 'perline']))
    if mode == 'single' and any(isineq) and not all(isineq):
        mode = 'perline'
    fams = [draw(st.sampled_from(FAMS)) for _ in lines]
    if mode == 'single':
        fams = [fams[0]] * nl
    tol, rel = draw(sg.tolerances())
    pts = []
    for _ in range(draw(st.integers(1, 6))):
        kind, x = draw(sg.xvectors(n))
        hits = []
        for _h in range(draw(st.integers(0, 2))):
            hits.append([draw(st.integers(0, nl - 1)), draw(st.sampled_from(MODES))])
        pts.append({'x': x, 'kind': kind, 'container': draw(st.sampled_from(['list', 'array'])), 'hits': hits})
    return {'seed': draw(st.integers(0, 2 ** 20)), 'n': n, 'scheme': draw(sg.schemes(n)),
            'pass_nvars': draw(st.booleans()), 'lines': lines, 'split': split, 'locals': locs, 'tol': tol, 'rel': rel,
            'tight': draw(st.booleans()), 'blank': draw(st.booleans()),
            'ptype': {'mode': mode, 'fams': fams},
            'k': draw(st.sampled_from([None, None, 1, 2.5, 1000.0, 1e-3, 7])),
            'h': draw(st.sampled_from([None, None, 2, 5, 10, 1.5])),
            'niter': draw(st.sampled_from([0, 0, 1, 2])) if join is None else 0,
            'join': join, 'points': pts,
            # between compiling this text and evaluating it, the same text is compiled again with other values for the
            # same local names and other tol/rel (and evaluated): earlier compiled functions must not notice
            'interfere': draw(st.booleans())}


@st.composite
def roundtrip_cases(draw, tier):
    case = draw(sg.isolated_systems(min_lines=1))
    case['cjoin'] = draw(st.sampled_from([None, None, 'and']))
    case['pjoin'] = draw(st.sampled_from([None, None, 'and', 'or']))
    case['k'] = draw(st.sampled_from([None, 1, 1000.0]))
    if case['cjoin'] == 'and' and len(case['rels']) >= 2 and not case['extra'] and draw(st.booleans()):
        # a chain: the right-hand side of every line but the last is the left-hand variable of the line after it plus a
        # constant, so one pass in the listed order leaves the earlier lines broken and the and_ join has to go round again
        rels = case['rels']
        for k_ in range(len(rels) - 1):
            rels[k_]['rhs'] = ['add', ['v', rels[k_ + 1]['i']], ['c', draw(st.sampled_from([1.0, -0.5, 2.0, 0.25, -3.0]))]]
        for r in rels:
            r['cmp'] = draw(st.sampled_from(['=', '>=', '<=', '=']))
        case['rels'] = list(draw(st.permutations(rels)))       # listed in any order
        case['chain'] = True
    pts = []
    for _ in range(draw(st.integers(1, 6))):
        kind, x = draw(sg.xvectors(case['n']))
        pts.append({'x': x, 'kind': kind, 'container': draw(st.sampled_from(['list', 'array']))})
    case['points'] = pts
    return case


# ------------------------------------------------------------------------------ helpers
def _texts(case, names):
    out = []
    k = 0
    for cnt in case['split']:
        ls = [sg.render_line(l['lhs'], l['cmp'], l['rhs'], names, case['tight'], '    ' if case['blank'] else '')
              for l in case['lines'][k:k + cnt]]
        t = ('\n\n' if case['blank'] else '\n').join(ls)
        out.append(('\n' + t + '\n') if case['blank'] else t)
        k += cnt
    return out


def _ptype_of(fam, ineq):
    import mystic.penalty as P
    return getattr(P, fam + ('_inequality' if ineq else '_equality'))


def _term(fam, ineq, v, k, h, n):
    """the documented per-line penalty term"""
    kk = DEFAULT_K[fam] if k is None else k
    hh = 5 if h is None else h
    pk = float(kk) * float(hh) ** n
    v = float(v)
    if fam == 'quadratic':
        return 2 * pk * max(0.0, v) ** 2 if ineq else pk * v ** 2
    if fam == 'linear':
        return 2 * pk * max(0.0, v) if ineq else pk * abs(v)
    return (pk if v > 0 else 0.0) if ineq else (pk if v != 0 else 0.0)


def _line_truth(l, Lv, Rv, fz, tol, rel):
    """True / False / None (inside the strictness band or the libm slack)"""
    cmp = l['cmp']
    d = Fraction(Lv) - Fraction(Rv)
    fzq = Fraction(fz)
    if cmp in sg.STRICT:
        g = sg.band_guard(Rv, tol, rel) + fzq
        s = -d if cmp == '<' else d            # s > 0: holds
        return True if s > g else (False if s <= -fzq else None)
    if cmp in ('<=', '>='):
        s = -d if cmp == '<=' else d
        return True if s >= fzq else (False if s < -fzq else None)
    if cmp == '!=':
        return True if abs(d) > fzq else (False if fzq == 0 else None)
    return True if (d == 0 and fzq == 0) else (False if abs(d) > fzq else None)


def _apply_hit(l, mode, x, locs, tol, rel):
    """move the pivot variable so that lhs lands on / next to rhs; returns False when not applicable"""
    if l['pivot'] is None:
        return False
    R, why = sg.safe_ev(l['rhs'], x, locs)
    if why:
        return False
    G, why = sg.safe_ev(l['g'], x, locs)
    if why:
        return False
    R = float(R)
    t = float(sg.tolerance(R, tol, rel))
    if mode == 'on':
        target = R
    elif mode == 'above':
        target = math.nextafter(R, math.inf)
    elif mode == 'below':
        target = math.nextafter(R, -math.inf)
    elif mode.startswith('band-in'):
        target = R + (0.5 * t if mode.endswith('+') else -0.5 * t)
    elif mode.startswith('band-out'):
        target = R + (2 * t if mode.endswith('+') else -2 * t)
    else:
        d = max(1.0, 0.25 * abs(R))
        target = R + d if mode.endswith('+') else R - d
    v = (target - G) / l['coef']
    if not math.isfinite(v):
        return False
    x[l['pivot']] = v
    return True


def _interfere(case, texts, n):
    """compile (and evaluate once) the same texts with different values for the same local names and a coarse
    tol/rel; whatever it returns is discarded"""
    from mystic.symbolic import generate_conditions, generate_penalty
    locs2 = {}
    for k_, v_ in (case.get('locals') or {}).items():
        locs2[k_] = (v_ * -3.0 + 7.5) if isinstance(v_, (int, float)) else v_
    kw2 = sg.parser_kwargs(case['scheme'], n, case['pass_nvars'], locs2, 0.5, 0.25)
    try:
        other = generate_conditions(tuple(texts) if len(texts) > 1 else texts[0], **kw2)
        p2 = generate_penalty(other)
        p2([0.5] * n)
    except Exception:
        pass


# ------------------------------------------------------------------------------ conditions + penalty
def run_penalty(case, ctx):
    from vp import lab
    lab.seed_rng(case['seed'])
    from mystic.symbolic import generate_conditions, generate_penalty
    from mystic.coupler import and_, or_
    n = case['n']; lines = case['lines']; locs = case['locals']; tol = case['tol']; rel = case['rel']
    names = sg.names_of(case['scheme'], n)
    texts = _texts(case, names)
    kw = lambda: sg.parser_kwargs(case['scheme'], n, case['pass_nvars'], locs, tol, rel)
    multi = len(texts) > 1
    if multi:
        conds = generate_conditions(tuple(texts), **kw())
        pairs = list(conds)
    else:
        conds = generate_conditions(texts[0], **kw())
        pairs = [conds]
    # map every line to its condition function: per text, inequalities in order, then equalities in order
    cond_of = [None] * len(lines)
    groups = []                      # what join= combines: texts, or (inequalities, equalities) of the one text
    order = []                       # flattened order of the conditions
    k0 = 0
    shape_ok = True
    for (ineqs, eqs), cnt in zip(pairs, case['split']):
        idx = list(range(k0, k0 + cnt))
        ii = [j for j in idx if lines[j]['cmp'] in INEQ]
        ee = [j for j in idx if lines[j]['cmp'] not in INEQ]
        if len(ineqs) != len(ii) or len(eqs) != len(ee):
            shape_ok = False
            break
        for j, f in zip(ii, ineqs):
            cond_of[j] = f
        for j, f in zip(ee, eqs):
            cond_of[j] = f
        order += ii + ee
        groups += [ii + ee] if multi else [ii, ee]
        k0 += cnt
    ctx.expect(shape_ok, 'C14.condition_containers',
               lambda: dict(texts=texts, got=[[len(a), len(b)] for a, b in pairs]))
    # the penalty
    pt = case['ptype']; fams = pt['fams']; join = case['join']
    isineq = [l['cmp'] in INEQ for l in lines]
    if pt['mode'] == 'default':
        ptype = None
        fams = ['quadratic'] * len(lines)
    elif pt['mode'] == 'single':
        ptype = _ptype_of(fams[0], isineq[0])
    else:
        T = lambda js: [_ptype_of(fams[j], isineq[j]) for j in js]
        if join is None:
            ptype = T(order)
        elif multi:
            ptype = []
            k0 = 0
            for cnt in case['split']:
                idx = list(range(k0, k0 + cnt))
                ptype.append([T([j for j in idx if isineq[j]]), T([j for j in idx if not isineq[j]])])
                k0 += cnt
        else:
            ptype = [T([j for j in order if isineq[j]]), T([j for j in order if not isineq[j]])]
    kwds = {}
    if case['k'] is not None:
        kwds['k'] = case['k']
    if case['h'] is not None:
        kwds['h'] = case['h']
    J = {None: None, 'and': and_, 'or': or_}[join]
    pen = generate_penalty(conds, ptype, join=J, **kwds) if J is not None else generate_penalty(conds, ptype, **kwds)
    niter = case['niter']
    for _ in range(niter):
        pen.iter()
    if case.get('interfere'):
        _interfere(case, texts, n)
        ctx.label('interfering-compile')
    # labels
    ops = set()
    for l in lines:
        ops |= sg.tree_ops(l['lhs']) | sg.tree_ops(l['rhs'])
    exact = not (ops & {'sin', 'cos', 'tanh', 'exp'})
    ctx.label(sg.scheme_label(case['scheme'], n), 'tight' if case['tight'] else 'spaced', 'lines:%d' % len(lines),
              'texts:%d' % len(texts), 'join:%s' % join, 'ptype:' + pt['mode'], 'niter:%d' % niter,
              'k:%s' % ('default' if case['k'] is None else 'given'), 'h:%s' % ('default' if case['h'] is None else 'given'),
              'exact-tree' if exact else 'inexact-tree', 'nvars-given' if case['pass_nvars'] else 'nvars-inferred')
    for l in lines:
        ctx.label('cmp:' + l['cmp'], 'line:' + l['kind'])
    if pt['mode'] != 'default':
        for f in set(fams):
            ctx.label('fam:' + f)
    if locs and any(sg.tree_locals(l['lhs']) | sg.tree_locals(l['rhs']) for l in lines):
        ctx.label('uses-locals')
    if tol is not None or rel is not None:
        ctx.label('custom-tol/rel')
    vs = set()
    for l in lines:
        vs |= sg.tree_vars(l['lhs']) | sg.tree_vars(l['rhs'])
    if 1 in vs and (vs & {10, 11, 12}):
        ctx.label('x1-and-x1k-in-text')

    for p in case['points']:
        x = list(p['x'])
        for j, mode in p['hits']:
            if _apply_hit(lines[j], mode, x, locs, tol, rel):
                ctx.label('hit:' + mode)
        vals = []
        bad = None
        for l in lines:
            Lv, why = sg.safe_ev(l['lhs'], x, locs)
            if why is None:
                Rv, why = sg.safe_ev(l['rhs'], x, locs)
            if why:
                bad = why
                break
            vals.append((Lv, Rv, sg.fuzz(l['lhs'], x, locs) + sg.fuzz(l['rhs'], x, locs)))
        if bad:
            ctx.exclude('side-' + bad)
            continue
        if any(l['cmp'] in sg.STRICT and not sg.resolvable(Rv, tol, rel) for l, (Lv, Rv, fz) in zip(lines, vals)):
            ctx.exclude('tolerance-below-resolution')
            continue
        xin = sg.to_container(x, p['container'])
        ctx.label('container:' + p['container'], 'x:' + p['kind'])
        truth = []
        got = []
        for j, (l, (Lv, Rv, fz)) in enumerate(zip(lines, vals)):
            cmp = l['cmp']
            try:        # (the generated function's own frame is '<string>', not a file of the package)
                v = cond_of[j](xin)
            except Exception as e:
                v = None
                ctx.expect(False, 'C14.condition_evaluates',
                           dict(texts=texts, line=j, doc=cond_of[j].__doc__, x=x, error=repr(e)[:300]))
            got.append(v)
            tr = _line_truth(l, Lv, Rv, fz, tol, rel)
            truth.append(tr)
            d = Lv - Rv
            det = lambda: dict(texts=texts, line=j, doc=cond_of[j].__doc__, x=x, value=float(v), lhs=float(Lv),
                               rhs=float(Rv), locals=locs, tol=tol, rel=rel)
            # --- the value: lhs - rhs, negated for > / >=, up to the strictness tolerance for < / >
            if cmp == '!=':
                ctx.expect(tr is None or (bool(v) == (not tr)), 'C14.condition_value', det)
            else:
                want = -d if cmp in ('>', '>=') else d
                if cmp in sg.STRICT:
                    lo_ = Fraction(want) - Fraction(fz)
                    hi_ = Fraction(want) + sg.band_guard(Rv, tol, rel) + Fraction(fz) + Fraction(sg.ulp(v)) + Fraction(sg.ulp(want))
                    ctx.expect(lo_ <= Fraction(float(v)) <= hi_, 'C14.condition_value', det)
                elif fz == 0:
                    ctx.expect(v == want, 'C14.condition_value', det)
                else:
                    ctx.expect(abs(float(v) - float(want)) <= fz, 'C14.condition_value', det)
            # --- the orientation: holds iff value <= 0 (inequality) / == 0 (equality)
            if tr is None:
                ctx.label('line-in-band')
            elif cmp in INEQ:
                ctx.expect((v <= 0) == tr, 'C14.condition_sign', det)
            else:
                ctx.expect((v == 0) == tr, 'C14.condition_sign', det)
        # --- the penalty: documented sum of per-line terms, joined as documented
        pv = float(pen(xin))
        terms = [_term(fams[j], isineq[j], got[j], case['k'], case['h'], niter) for j in range(len(lines))]
        if join is None:
            want = math.fsum(terms) if all(math.isfinite(t) for t in terms) else math.inf
        else:
            gs = []
            for g in groups:
                ts = [terms[j] for j in g]
                gs.append(math.fsum(ts) if all(math.isfinite(t) for t in ts) else math.inf)
            want = abs(sum(gs)) if join == 'and' else abs(min(gs))
        detp = lambda: dict(texts=texts, doc=pen.__doc__, x=x, penalty=pv, expected=want, terms=terms,
                            values=[float(v) for v in got], fams=fams, k=case['k'], h=case['h'], niter=niter,
                            join=join, mode=pt['mode'])
        ctx.expect(close(pv, want, rel=1e-12, abs_=0.0), 'C14.penalty_sum', detp)
        # --- zero exactly where every line holds (join None / and_), where some group holds entirely (or_)
        if join == 'or':
            gt = []
            for g in groups:
                ts = [truth[j] for j in g]
                gt.append(False if any(t is False for t in ts) else (None if any(t is None for t in ts) else True))
            sat = True if any(t is True for t in gt) else (None if any(t is None for t in gt) else False)
        else:
            sat = False if any(t is False for t in truth) else (None if any(t is None for t in truth) else True)
        if sat is None:
            ctx.exclude('point-inside-a-band')
        elif any(t is False and 0 < abs(float(v)) < 1e-150 for t, v in zip(truth, got)):
            ctx.exclude('violation-underflows-when-squared')      # one (subnormal) ulp beside a boundary at 0
        else:
            ctx.expect((pv == 0) == sat and pv >= 0, 'C14.penalty_zero_iff_satisfied', lambda: dict(detp(), truth=truth))
            ctx.label('point:satisfied' if sat else 'point:violated')
        if any(t is True for t in truth) and any(t is False for t in truth):
            ctx.label('mixed-lines')
            ctx.nontrivial()
        if any(t is True for t in truth) and all(t is not False for t in truth):
            ctx.label('all-lines-hold')


# ------------------------------------------------------------------------------ round trip
def run_roundtrip(case, ctx):
    from vp import lab
    lab.seed_rng(case['seed'])
    from mystic.symbolic import generate_conditions, generate_penalty, generate_solvers, generate_constraint
    from mystic.coupler import and_ as pand, or_ as por
    from mystic.constraints import and_ as cand
    n = case['n']; rels = case['rels']; locs = case['locals']; tol = case['tol']; rel = case['rel']
    text = sg.system_text(case)
    kw = lambda: sg.parser_kwargs(case['scheme'], n, case['pass_nvars'], locs, tol, rel)
    solvers = generate_solvers(text, **kw())
    con = generate_constraint(solvers, join=cand) if case['cjoin'] == 'and' else generate_constraint(solvers)
    kwds = {} if case['k'] is None else {'k': case['k']}
    J = {None: None, 'and': pand, 'or': por}[case['pjoin']]
    conds = generate_conditions(text, **kw())
    pen = generate_penalty(conds, join=J, **kwds) if J is not None else generate_penalty(conds, **kwds)
    ctx.label(sg.scheme_label(case['scheme'], n), 'lines:%d' % len(rels), 'extra:' + (case['extra'] or 'none'),
              'cjoin:%s' % case['cjoin'], 'pjoin:%s' % case['pjoin'])
    if case.get('chain'): ctx.label('chain-of-dependent-lines')
    for r in rels:
        ctx.label('cmp:' + r['cmp'])
    for p in case['points']:
        x = list(p['x'])
        fs = []
        why = None
        for r in rels:
            f, why = sg.safe_ev(r['rhs'], x, locs)
            fs.append(f)
            if why:
                break
        if why:
            ctx.exclude('f-' + why)
            continue
        if any(r['cmp'] in sg.STRICT + ('!=',) and not sg.resolvable(f, tol, rel) for r, f in zip(rels, fs)):
            ctx.exclude('tolerance-below-resolution')
            continue
        fzs = [sg.fuzz(r['rhs'], x, locs) for r in rels]
        if sg.neq_tie(rels, fs, fzs, tol, rel):
            ctx.exclude('neq-target-inside-band-of-strict-companion')
            continue
        before = float(pen(sg.to_container(x, p['container'])))
        y = con(sg.to_container(x, p['container']))
        after = float(pen(y))
        ctx.label('container:' + p['container'], 'x:' + p['kind'], 'before:zero' if before == 0 else 'before:positive')
        ctx.expect(after == 0, 'C14.roundtrip_zero',
                   lambda: dict(text=text, x=x, y=[float(v) for v in y], before=before, after=after,
                                cdoc=con.__doc__, pdoc=pen.__doc__, locals=locs, tol=tol, rel=rel))
        if before != 0:
            ctx.nontrivial()


# libFuzzer executions per shard and @given test of the coverage-guided extra of the thorough tier (vp/fuzz.py)
FUZZ = 2000

TESTS = [
    Test('penalty', run_penalty, strategy=lambda tier: penalty_cases(tier),
         examples={'quick': 4000, 'thorough': 200000}),
    Test('roundtrip', run_roundtrip, strategy=lambda tier: roundtrip_cases(tier),
         examples={'quick': 2000, 'thorough': 100000}),
]

KNOWN = {}
