"""C03 - hard constraints hold at every evaluation and for the reported result."""
import math
from hypothesis import strategies as st
from vp.runner import Test
from vp import lab
from vp.solver_run import Run, configs, feq, red_tol
from vp.util import F, FL

PROP = 'C03'
RULE = ("@given configurations as in C01 but with a deterministic, idempotent, box-compatible constraint always present "
        "(pin, clamp, grid rounding, affine tie, sort, symbolic-generated; pure or in-place; list- or array-returning), all "
        "range modes except the randomising clip=False, stops by small generation/evaluation limits; scenario 'late' installs "
        "the constraint after k>=1 steps.  Every recorded cost call is tested with the catalog's independent predicate sat(x). "
        "Non-trivial: the constraint moved at least one candidate (counted by the constraint object) and the run was "
        "stopped by a limit before convergence; distinct by canonical JSON.")
ASSUME = ["sat(x) is exact because catalog constraints *set* values (no solving)",
          "result checks are asserted when the reported best energy is finite (otherwise nothing was found; counted as excluded)"]


def run_case(case, ctx):
    late = case.get('late', 0)
    cfg = dict(case)
    con_spec = cfg['constraint']
    if late:
        cfg = dict(cfg); cfg.pop('constraint')
    run = Run(cfg, ctx)
    s = run.solver
    mark = 0
    it = 0
    shrinks = 0
    nmax = case['maxiter'] + 3
    msg = None
    for b in range(nmax):
        if late and b == late:
            run.con = lab.Constraint(con_spec)
            s.SetConstraints(run.con)
            mark = run.cost.ncalls()
        n0 = run.cost.ncalls()
        msg = run.step()
        if len(run.callbacks) > it:
            it = len(run.callbacks)
            if it >= 2 and run.kind == 'NM' and run.cost.ncalls() - n0 >= run.dim + 2:
                shrinks += 1          # reflection + contraction + one evaluation per shrunk vertex
            if run.con is not None:
                for j in range(mark, run.cost.ncalls()):
                    x = run.cost.calls[j][0]
                    ctx.expect(run.con.sat(x), 'C03.calls',
                               lambda: dict(solver=run.kind, call=j, x=x, constraint=con_spec, boundary=b,
                                            late=late, mode=case.get('bounds')))
                mark = run.cost.ncalls()
                if not late:
                    check_result(run, ctx, con_spec, b, case)
        if msg:
            break
    if msg and not late and math.isfinite(float(s.bestEnergy)):
        sh = s.solution_history
        ctx.expect(len(sh) > 0 and lab.fvec(sh[-1]) == lab.fvec(s.bestSolution), 'C03.result',
                   lambda: dict(solver=run.kind, note='solution_history[-1] != bestSolution after the stop',
                                last=lab.fvec(sh[-1]) if len(sh) else None, best=lab.fvec(s.bestSolution)))
    if run.kind == 'NM' and shrinks:
        ctx.label('nm-shrink')
    ctx.label('solver:' + run.kind, 'con:' + con_spec['kind'], 'inplace' if con_spec.get('inplace') else 'pure',
              'ret:' + con_spec.get('ret', 'same'))
    if late: ctx.label('late-install')
    if case.get('bounds'):
        ctx.label('mode:%s/%s' % (case['bounds'].get('tight'), case['bounds'].get('clip')))
    moved = run.con is not None and run.con.moved > 0
    if moved: ctx.label('moved')
    stopped_by_limit = bool(msg) and str(msg).startswith('EvaluationLimits')
    ctx.nontrivial(moved and stopped_by_limit and it >= 2)


def check_result(run, ctx, con_spec, b, case):
    s = run.solver
    be = float(s.bestEnergy)
    bs = lab.fvec(s.bestSolution)
    if not math.isfinite(be):
        ctx.exclude('result-with-non-finite-best-energy')
        return
    ctx.expect(run.con.sat(bs), 'C03.result',
               lambda: dict(solver=run.kind, boundary=b, bestSolution=bs, constraint=con_spec, mode=case.get('bounds'),
                            note='reported solution violates the constraint'))
    want = run.objective(bs)
    ctx.expect(feq(be, want, 4 if run.red else 0, red_tol(run, bs)), 'C03.result',
               lambda: dict(solver=run.kind, boundary=b, bestSolution=bs, bestEnergy=be, objective=float(want),
                            note='reported energy is not the energy of the constrained point'))


@st.composite
def cases(draw, tier):
    cfg = draw(configs(tier, need_constraint=True))
    cfg['maxiter'] = draw(st.integers(1, 10 if tier == 'quick' else 20))
    cfg['maxfun'] = draw(st.sampled_from([None, None, 3, 10, 40]))
    if draw(st.integers(0, 3)) == 0:
        cfg['late'] = draw(st.integers(1, 3))
    return cfg


@st.composite
def shrink_cases(draw, tier):
    """Nelder-Mead on a rugged / quantised cost with a grid constraint on every coordinate (a feasible set that is not
    convex: the midpoint of two grid points an odd number of steps apart is off the grid), run long enough for shrink
    steps; observed at every boundary, so a shrunk vertex that becomes the best one is seen whichever iteration it is"""
    cfg = draw(configs(tier, solvers=('NM',), need_constraint=True, allow_reducer=False, symbolic=False))
    dim = cfg['dim']
    if cfg['init']['kind'] != 'point' or draw(st.booleans()):
        cfg['init'] = dict(kind='point', x0=[draw(st.sampled_from([0.33, 2.7, -2.64, 1.2, -0.4, -2.79, -3.2, 3.41, -1.89]))
                                            for _ in range(dim)])
    cfg['cost'] = draw(lab.cost_specs(dim, families=('rast', 'rast', 'stair', 'cos', 'rosen')))
    b = cfg.get('bounds')
    box = (b['lo'], b['hi']) if b else None
    g = draw(st.sampled_from([0.5, 0.25, 1.0, 0.125]))
    spec = dict(kind='round', i=0, g=g, all=True, inplace=draw(st.booleans()), ret=draw(st.sampled_from(['same', 'list', 'array'])))
    if box is not None and not lab.box_compatible(spec, *box):
        cfg.pop('bounds')
    cfg['constraint'] = spec
    cfg['maxiter'] = draw(st.integers(10, 40))
    cfg['maxfun'] = None
    cfg['term'] = 'never'
    return cfg


@st.composite
def tight_cases(draw, tier):
    """ranges imposed as a constraint (tight=True: the solver couples and_(constraints, bounds)), a box-compatible affine
    tie whose image of an out-of-box candidate is broken again by clipping (x_j = x_i/2 on [0,2]^2: (2.8, 1.4) clips to
    (2.0, 1.4)), and an optimum outside the box so that Powell's line searches and DE's mutations keep proposing
    out-of-box candidates: the coupling has to iterate until both hold"""
    kind = draw(st.sampled_from(['PW', 'PW', 'DE', 'DE2']))
    cfg = draw(configs(tier, solvers=(kind,), need_constraint=True, allow_reducer=False, symbolic=False, max_dim=3))
    dim = max(2, cfg['dim']); cfg['dim'] = dim
    side = float(draw(st.sampled_from([2.0, 4.0, 1.0])))
    lo = [0.0] * dim; hi = [side] * dim
    cfg['bounds'] = dict(lo=lo, hi=hi, tight=True, clip=draw(st.sampled_from([None, None, True])))
    i = draw(st.integers(0, dim - 1)); j = draw(st.integers(0, dim - 1).filter(lambda k_: k_ != i))
    a_, b_ = draw(st.sampled_from([(0.5, 0.0), (0.25, 0.0), (-1.0, side), (-0.5, side), (0.5, 0.5 * side)]))
    spec = dict(kind='tie', i=i, j=j, a=a_, b=b_, inplace=draw(st.booleans()), ret=draw(st.sampled_from(['same', 'list', 'array'])))
    if not lab.box_compatible(spec, lo, hi):
        spec.update(a=0.5, b=0.0)
    cfg['constraint'] = spec
    # the unconstrained optimum lies beyond the upper corner
    cfg['cost'] = dict(fam='quad', a=[side + draw(st.sampled_from([1.0, 3.0, 0.5])) for _ in range(dim)], w=[1.0] * dim, ret='float')
    cfg.pop('penalty', None); cfg.pop('extra', None); cfg.pop('kw_first', None)
    x0 = [draw(st.sampled_from([0.25, 0.5, 0.9])) * side for _ in range(dim)]
    x0[j] = a_ * x0[i] + b_
    if kind in ('DE', 'DE2'):
        cfg['init'] = dict(kind='random', lo=lo, hi=hi) if draw(st.booleans()) else dict(kind='point', x0=x0)
    else:
        cfg['init'] = dict(kind='point', x0=x0)
    cfg['maxiter'] = draw(st.integers(2, 8))
    cfg['maxfun'] = None
    cfg['term'] = 'never'
    return cfg



def _kf_f8(case, subcheck, detail):
    return bool(case.get('reducer')) and case['reducer']['kind'] in ('sum', 'add2', 'sumsq', 'maxabs') and bool(case.get('penalty')) \
        and subcheck == 'C03.result' and isinstance(detail, dict) and 'objective' in detail


TESTS = [Test('run', run_case, strategy=lambda tier: cases(tier),
              examples={'quick': 8000, 'thorough': 120000}),
         Test('nm_shrink', run_case, strategy=lambda tier: shrink_cases(tier),
              examples={'quick': 3000, 'thorough': 60000}),
         Test('tight_tie', run_case, strategy=lambda tier: tight_cases(tier),
              examples={'quick': 1600, 'thorough': 30000})]

KNOWN = {'F8-sum-reducer-counts-penalty-per-component': _kf_f8}
