"""C11 - dimensional collapse is detected per definition, applied exactly, reported once.

Detector tests (cheap, @given): real ``mystic.monitors.Monitor`` instances are filled with
engineered T x n histories (flat columns, columns inside / on / just outside the tolerance,
pairs tied with and without a constant offset) and handed to ``collapse_at`` / ``collapse_as`` /
``collapse_weight`` / ``collapse_position`` / ``collapse_cost`` with tolerances (incl. the exact
boundary value), windows (<= T and > T), targets (None / scalar / list) and masks in every accepted
format.  Oracle: the documented definition evaluated directly in python floats over the last N rows
(the same float operations as the definition names: max-min, max|x-t|, max_t|xi-xj|, ptp_t|xi-xj|,
max_t w), minus the mask; idempotence (own output as mask -> nothing); malformed masks raise;
the Collapse* termination conditions agree with the detectors on a fake solver state and
``mask.update_mask`` grows the mask by exactly what was reported.

Solver test: DE / Nelder-Mead / Powell on generated costs with a flat coordinate and/or a tied pair,
termination ``Or(ChangeOverGeneration, CollapseAt, CollapseAs)`` with short windows; ``solver.Collapse``
is wrapped on the instance to log (number of cost calls so far, best solution, termination state
before/after, what was returned).  Oracle: what was returned is what the definition gives on the
step monitor at that time; the masks grow by exactly that; successive collapses are disjoint; every
later cost call and the final solution satisfy the applied relations exactly; Solve returns inside
the generation budget.
"""
import types, copy
import numpy as np
from hypothesis import strategies as st
from vp.runner import Test
from vp.util import F, FL, pool_or_float, finite_floats
from vp import lab

PROP = 'C11'
RULE = ("detectors: Monitor histories of 1-8 rows x 1-5 columns whose columns are flat / within, on and just outside "
        "the tolerance / tied to another column (with or without a constant offset) / free; tolerance from a pool or "
        "the exact change of one column or pair (boundary); window 1..T, T+2, 50; target None/scalar/list; masks as "
        "None, empty, set of indices, set of pairs, mixed, dict, set-of-tuples and 'where' tuples (measure detectors: "
        "product-measure monitors with equal points per measure), malformed masks.  Non-trivial: at least one collapsing "
        "column/pair/weight present and a non-empty mask used.  solver: DE/NM/Powell on sums of quadratics with a flat "
        "coordinate, a tied pair (cost depends on x[i]-x[j], or is minimised at x[i]==x[j]) or both, "
        "Or(ChangeOverGeneration, CollapseAt(None|scalar|list), CollapseAs(offset)), windows 3-5, generation budget; "
        "non-trivial: a collapse was detected and applied and at least one iteration followed.  distinct = canonical JSON")
ASSUME = ["the oracle reproduces the documented inequalities with the same float operations (max-min, abs, <=), so the "
          "comparison with the detectors is exact, no tolerance band",
          "collapse_cost is checked by a validity predicate (no sampled point within `limit` of the minimum lies outside "
          "the returned intervals) and idempotence, not by re-deriving its interval construction",
          "product-measure monitors with unequal points per measure are outside the domain of "
          "Monitor.get_wts/get_pos (rectangular reshape; get_ipos offsets every measure by npts[0]); only 'raises "
          "ValueError/IndexError/TypeError' is asserted, and only for shapes whose total is not divisible by the number "
          "of measures (others, e.g. npts=(1,3), reshape silently to a wrong layout - noted, not asserted)",
          "when CollapseAt and CollapseAs fix one index at two different values (x[i]=a, x[j]=b, x[i]=x[j], a!=b) no point "
          "can satisfy all relations; such groups are excluded from the exact check and only 'every member sits at one of "
          "the fixed values' is asserted",
          "CollapseAs(offset=True): the relation asserted after the collapse is the loose one, | |x[j]-x[i]| - d | <= "
          "tolerance with d the distance at collapse time (and parameters fixed in the same run stay fixed)",
          "CollapseAt(target=None): the value a parameter is fixed at is bestSolution[i] at the time of the Collapse() "
          "call (tools.select_params), read by the wrapper just before the call",
          "a Solve whose Collapse() is called more often than there are distinct collapses is aborted by the wrapper "
          "and reported as C11.solve_returns (otherwise a non-growing mask would hang the check)",
          "the solver's step monitor (rows seen by the detectors) is trusted as the record of the history (C03)"]

POOL = [0.0, 1.0, -1.0, 0.5, 2.0, 0.25, -2.5, 3.0]
TOLS = [0.0, 1e-3, 5e-3, 0.01, 0.5, 1.0]
CLEAN = (TypeError, ValueError)


def ints(s):
    return set(int(i) for i in s)


def pairs(s):
    return set((int(a), int(b)) for a, b in s)


# =========================================================================== histories
def perts(tol):
    return [0.0, 0.0, tol, -tol, tol / 2, -tol / 2, tol * 1.0001, -tol * 1.0001, 2 * tol, 1e-9]


@st.composite
def histories(draw, nmin=1, nmax=5):
    """rows (T x n python floats), per-column kinds, the tolerance used for the perturbations"""
    T = draw(st.integers(1, 8))
    n = draw(st.integers(nmin, nmax))
    tol = draw(st.sampled_from(TOLS))
    cols, kinds = [], []
    for j in range(n):
        opts = ['flat', 'near', 'free'] + (['tied', 'tied', 'tiedoff', 'tiednear'] if j else [])
        kind = draw(st.sampled_from(opts))
        base = draw(pool_or_float(POOL, -3, 3))
        if kind == 'flat':
            col = [base] * T
        elif kind == 'near':
            col = [base + draw(st.sampled_from(perts(tol))) for _ in range(T)]
        elif kind == 'free':
            col = [draw(pool_or_float(POOL, -3, 3)) for _ in range(T)]
        else:
            k = draw(st.integers(0, j - 1))
            off = 0.0 if kind == 'tied' else draw(st.sampled_from([0.5, -1.0, tol, 0.0]))
            if kind == 'tiednear':
                col = [cols[k][t] + off + draw(st.sampled_from(perts(tol))) for t in range(T)]
            else:
                col = [cols[k][t] + off for t in range(T)]
        cols.append([float(v) for v in col])
        kinds.append(kind)
    rows = [[cols[j][t] for j in range(n)] for t in range(T)]
    return rows, kinds, tol


def windows(draw, T):
    return draw(st.sampled_from([1, 2, 3, T, max(1, T - 1), T + 2, 50]))


def window(rows, N):
    return rows if N is None else rows[-N:]


def fill(rows, y=None, npts=None):
    from mystic.monitors import Monitor
    m = Monitor(npts=tuple(npts)) if npts else Monitor()
    for t, r in enumerate(rows):
        m(list(r), float(y[t]) if y is not None else float(t))
    return m


def fake_solver(mon, T):
    s = types.SimpleNamespace()
    s.energy_history = [float(T - t) for t in range(T)]
    s._stepmon = mon
    return s


# =========================================================================== oracles (documented definitions)
def change_at(rows, N, target, j):
    col = [r[j] for r in window(rows, N)]
    if target is None:
        return max(col) - min(col)
    t = target[j] if isinstance(target, list) else target
    return max(abs(v - t) for v in col)


def expect_at(rows, N, target, tol, mask):
    n = len(rows[0])
    return set(j for j in range(n) if change_at(rows, N, target, j) <= tol) - set(mask or ())


def change_as(rows, N, offset, i, j):
    d = [abs(r[i] - r[j]) for r in window(rows, N)]
    return (max(d) - min(d)) if offset else max(d)


def as_masked(p, mask):
    for q in (mask or ()):
        if isinstance(q, tuple):
            if p == q or p == q[::-1]:
                return True
        elif q in p:
            return True
    return False


def expect_as(rows, N, offset, tol, mask):
    n = len(rows[0])
    return set((i, j) for i in range(n) for j in range(i + 1, n)
               if change_as(rows, N, offset, i, j) <= tol and not as_masked((i, j), mask))


# =========================================================================== collapse_at
@st.composite
def at_cases(draw, tier):
    rows, kinds, tol = draw(histories())
    T, n = len(rows), len(rows[0])
    N = windows(draw, T)
    tk = draw(st.sampled_from(['none', 'none', 'scalar', 'list']))
    if tk == 'none':
        target = None
    elif tk == 'scalar':
        target = draw(st.one_of(st.sampled_from(POOL), st.sampled_from([rows[-1][j] for j in range(n)])))
    else:
        target = [draw(st.one_of(st.just(rows[draw(st.integers(0, T - 1))][j]), st.sampled_from(POOL))) for j in range(n)]
    boundary = draw(st.integers(0, 2)) == 0
    if boundary:
        tol = change_at(rows, N, target, draw(st.integers(0, n - 1)))
    mk = draw(st.sampled_from(['none', 'empty', 'indices', 'indices', 'collapsed', 'bad']))
    mask, bad = None, None
    if mk == 'empty':
        mask = []
    elif mk == 'indices':
        mask = sorted(draw(st.sets(st.integers(0, n), max_size=n)))
    elif mk == 'collapsed':          # a non-empty part of what is collapsed (if anything is)
        full = sorted(expect_at(rows, N, target, tol, None))
        mask = sorted(draw(st.sets(st.sampled_from(full), min_size=1))) if full else []
    elif mk == 'bad':
        bad = draw(st.sampled_from(['list', 'tuple', 'dict', 'frozenset', 'int', 'set-of-tuple']))
    return dict(rows=rows, tol=tol, gens=N, target=target, mask=mask, bad=bad, boundary=boundary, kinds=kinds)


BAD_AT = {'list': lambda: [0], 'tuple': lambda: (0,), 'dict': lambda: {0: 1}, 'frozenset': lambda: frozenset([0]),
          'int': lambda: 0, 'set-of-tuple': lambda: {(0, 1)}}


def run_at(case, ctx):
    import mystic.collapse as ct
    import mystic.termination as mt
    import mystic.mask as ma
    rows = FL(case['rows']); tol = F(case['tol']); N = case['gens']
    target = case['target']
    target = FL(target) if isinstance(target, list) else (None if target is None else F(target))
    T, n = len(rows), len(rows[0])
    mon = fill(rows)
    ctx.label('det:at', 'target:' + ('none' if target is None else 'list' if isinstance(target, list) else 'scalar'))
    if N > T:
        ctx.label('window>T')
    if case['boundary']:
        ctx.label('boundary-tol')
    if case['bad']:
        ctx.label('bad-mask:' + case['bad'])
        try:
            got = ct.collapse_at(mon, target=target, tolerance=tol, generations=N, mask=BAD_AT[case['bad']]())
            ok = False
        except CLEAN:
            ok, got = True, None
        ctx.expect(ok, 'C11.bad_mask_raises', lambda: dict(detector='collapse_at', mask=case['bad'], got=repr(got)))
        return
    mask = None if case['mask'] is None else set(case['mask'])
    ctx.label('mask:' + ('none' if mask is None else 'indices' if mask else 'empty'))
    full = expect_at(rows, N, target, tol, None)
    want = full - (mask or set())
    got = ct.collapse_at(mon, target=target, tolerance=tol, generations=N, mask=None if mask is None else set(mask))
    ctx.expect(type(got) is set and ints(got) == want, 'C11.at_definition',
               lambda: dict(rows=window(rows, N), target=target, tol=tol, gens=N, mask=sorted(mask or ()),
                            expected=sorted(want), got=sorted(ints(got)),
                            changes=[change_at(rows, N, target, j) for j in range(n)]))
    # own output as mask: nothing new
    again = ct.collapse_at(mon, target=target, tolerance=tol, generations=N, mask=set(got) | (mask or set()))
    ctx.expect(again == set(), 'C11.idempotent', lambda: dict(detector='collapse_at', got=sorted(ints(got)), again=sorted(ints(again))))
    # the termination condition on a fake solver state, and the mask update
    cond = mt.CollapseAt(target=target, tolerance=tol, generations=N, mask=None if mask is None else set(mask))
    s = fake_solver(mon, T)
    truth = (T > N) and bool(want)
    info = cond(s, True)
    ctx.expect(bool(cond(s)) == truth and bool(info) == truth, 'C11.condition',
               lambda: dict(cond=cond.__doc__, expected=truth, got=bool(cond(s)), T=T))
    if truth:
        rep = ct.collapsed(info)
        ctx.expect(isinstance(rep, dict) and list(rep) == [cond.__doc__] and ints(rep[cond.__doc__]) == want,
                   'C11.condition_reports', lambda: dict(info=info, expected=sorted(want)))
        new = ma.update_mask(cond, rep)
        newmask = mt.state(new)[new.__doc__]['mask']
        ctx.expect(type(newmask) is set and ints(newmask) == (mask or set()) | want, 'C11.mask_update',
                   lambda: dict(old=sorted(mask or ()), applied=sorted(want), new=repr(newmask)))
        ctx.expect(not new(s) and new(s, True) == '', 'C11.reported_once', lambda: dict(cond=new.__doc__, info=new(s, True)))
        ctx.label('condition-fired')
    ctx.label('collapsed:%d' % min(len(full), 3))
    ctx.nontrivial(bool(full) and bool(mask))


# =========================================================================== collapse_as
@st.composite
def as_cases(draw, tier):
    rows, kinds, tol = draw(histories(nmin=1, nmax=5))
    T, n = len(rows), len(rows[0])
    N = windows(draw, T)
    offset = draw(st.booleans())
    allpairs = [(i, j) for i in range(n) for j in range(i + 1, n)]
    boundary = bool(allpairs) and draw(st.integers(0, 2)) == 0
    if boundary:
        i, j = draw(st.sampled_from(allpairs))
        tol = change_as(rows, N, offset, i, j)
    mk = draw(st.sampled_from(['none', 'empty', 'indices', 'pairs', 'pairs', 'mixed', 'collapsed', 'bad']))
    mask, bad = None, None
    flip = lambda p: list(p[::-1]) if draw(st.booleans()) else list(p)
    if mk == 'empty' or (mk in ('pairs', 'mixed', 'collapsed') and not allpairs):
        mask = []; mk = 'empty'
    elif mk == 'indices':
        mask = sorted(draw(st.sets(st.integers(0, n), max_size=2)))
    elif mk == 'pairs':
        mask = [flip(p) for p in sorted(draw(st.sets(st.sampled_from(allpairs), max_size=4)))]
    elif mk == 'mixed':
        mask = [flip(p) for p in sorted(draw(st.sets(st.sampled_from(allpairs), min_size=1, max_size=3)))] \
            + sorted(draw(st.sets(st.integers(0, n - 1), min_size=1, max_size=1)))
    elif mk == 'collapsed':
        full = sorted(expect_as(rows, N, offset, tol, None))
        mask = [flip(p) for p in sorted(draw(st.sets(st.sampled_from(full), min_size=1)))] if full else []
    elif mk == 'bad':
        bad = draw(st.sampled_from(['list', 'tuple', 'dict', 'frozenset', 'int', 'set-of-triple', 'set-of-single']))
    return dict(rows=rows, tol=tol, gens=N, offset=offset, mask=mask, maskkind=mk, bad=bad, boundary=boundary, kinds=kinds)


BAD_AS = {'list': lambda: [(0, 1)], 'tuple': lambda: ((0, 1),), 'dict': lambda: {0: 1}, 'frozenset': lambda: frozenset([0]),
          'int': lambda: 0, 'set-of-triple': lambda: {(0, 1, 2)}, 'set-of-single': lambda: {(0,)}}


def dec_asmask(m):
    if m is None:
        return None
    return set(tuple(q) if isinstance(q, list) else q for q in m)


def run_as(case, ctx):
    import mystic.collapse as ct
    import mystic.termination as mt
    import mystic.mask as ma
    rows = FL(case['rows']); tol = F(case['tol']); N = case['gens']; offset = bool(case['offset'])
    T, n = len(rows), len(rows[0])
    mon = fill(rows)
    ctx.label('det:as', 'offset:%s' % offset)
    if N > T:
        ctx.label('window>T')
    if case['boundary']:
        ctx.label('boundary-tol')
    if case['bad']:
        ctx.label('bad-mask:' + case['bad'])
        try:
            got = ct.collapse_as(mon, offset=offset, tolerance=tol, generations=N, mask=BAD_AS[case['bad']]())
            ok = False
        except CLEAN:
            ok, got = True, None
        ctx.expect(ok, 'C11.bad_mask_raises', lambda: dict(detector='collapse_as', mask=case['bad'], got=repr(got)))
        return
    mask = dec_asmask(case['mask'])
    ctx.label('mask:' + case['maskkind'])
    full = expect_as(rows, N, offset, tol, None)
    want = expect_as(rows, N, offset, tol, mask)
    got = ct.collapse_as(mon, offset=offset, tolerance=tol, generations=N, mask=copy.deepcopy(mask))
    ctx.expect(type(got) is set and pairs(got) == want, 'C11.as_definition',
               lambda: dict(rows=window(rows, N), offset=offset, tol=tol, gens=N, mask=repr(mask),
                            expected=sorted(want), got=sorted(pairs(got))))
    # own output as mask, as pairs / reversed pairs / the indices involved
    fmts = {'pairs': set(got) | (mask or set()),
            'reversed': set(tuple(p)[::-1] for p in got) | (mask or set()),
            'indices': set(int(p[0]) for p in got) | (mask or set())}
    for name, mk in fmts.items():
        again = ct.collapse_as(mon, offset=offset, tolerance=tol, generations=N, mask=mk)
        ctx.expect(again == set(), 'C11.idempotent', lambda: dict(detector='collapse_as', fmt=name, got=sorted(pairs(got)),
                                                                   again=sorted(pairs(again))))
    cond = mt.CollapseAs(offset=offset, tolerance=tol, generations=N, mask=copy.deepcopy(mask))
    s = fake_solver(mon, T)
    truth = (T > N) and bool(want)
    info = cond(s, True)
    ctx.expect(bool(cond(s)) == truth and bool(info) == truth, 'C11.condition',
               lambda: dict(cond=cond.__doc__, expected=truth, got=bool(cond(s)), T=T))
    if truth:
        rep = ct.collapsed(info)
        ctx.expect(isinstance(rep, dict) and list(rep) == [cond.__doc__] and pairs(rep[cond.__doc__]) == want,
                   'C11.condition_reports', lambda: dict(info=info, expected=sorted(want)))
        new = ma.update_mask(cond, rep)
        newmask = mt.state(new)[new.__doc__]['mask']
        wantmask = set(mask or set()) | want
        ctx.expect(type(newmask) is set and set((tuple(int(v) for v in q) if isinstance(q, tuple) else int(q)) for q in newmask) == wantmask,
                   'C11.mask_update', lambda: dict(old=repr(mask), applied=sorted(want), new=repr(newmask)))
        ctx.expect(not new(s) and new(s, True) == '', 'C11.reported_once', lambda: dict(cond=new.__doc__, info=new(s, True)))
        ctx.label('condition-fired')
    ctx.label('collapsed:%d' % min(len(full), 3))
    ctx.nontrivial(bool(full) and bool(mask))


# =========================================================================== collapse_weight / collapse_position
FORMATS = ['dict', 'set', 'where']


@st.composite
def measure_cases(draw, tier):
    kind = draw(st.sampled_from(['weight', 'position']))
    M = draw(st.integers(1, 3))
    a = draw(st.integers(2, 3)) if kind == 'position' else draw(st.integers(1, 3))
    T = draw(st.integers(1, 6))
    tol = draw(st.sampled_from([0.0, 1e-3, 5e-3, 0.01, 0.1]))
    N = windows(draw, T)
    unequal = draw(st.sampled_from([False] * 11 + [True]))
    W = [[None] * a for _ in range(M)]; P = [[None] * a for _ in range(M)]
    for m in range(M):
        for k in range(a):
            wk = draw(st.sampled_from(['zero', 'small', 'edge', 'big']))
            vals = {'zero': [0.0], 'small': [0.0, tol / 2, tol], 'edge': [tol, tol * 1.0001, tol / 2],
                    'big': [0.3, 0.5, 1.0, 2 * tol + 1e-3]}[wk]
            W[m][k] = [draw(st.sampled_from(vals)) for _ in range(T)]
            pk = draw(st.sampled_from(['same', 'same', 'free'])) if k else 'free'
            if pk == 'same':
                k0 = draw(st.integers(0, k - 1))
                P[m][k] = [P[m][k0][t] + draw(st.sampled_from(perts(tol))) for t in range(T)]
            else:
                base = draw(st.sampled_from(POOL))
                P[m][k] = [base + draw(st.sampled_from([0.0, 0.0, 0.1, tol])) for _ in range(T)]
    rows = []
    for t in range(T):
        r = []
        for m in range(M):
            r += [W[m][k][t] for k in range(a)] + [P[m][k][t] for k in range(a)]
        rows.append([float(v) for v in r])
    if kind == 'weight':
        universe = [[m, k] for m in range(M) for k in range(a)]
    else:
        universe = [[m, [i, j]] for m in range(M) for i in range(a) for j in range(i + 1, a)]
    content = draw(st.sets(st.integers(0, len(universe) - 1), max_size=4)) if universe else set()
    content = [universe[i] for i in sorted(content)]
    if kind == 'position':
        content = [[m, (p[::-1] if draw(st.booleans()) else p)] for m, p in content]
    bad = draw(st.sampled_from([None] * 9 + ['set-of-int', 'set-bad-measure', 'dict-of-list', 'dict-wrong-items', 'int', 'flat-pair', 'str']))
    npts = [a] * M
    if unequal:
        # unequal points per measure with a total that is not divisible by the number of measures
        M = draw(st.integers(2, 3)); npts = [draw(st.integers(1, 3)) for _ in range(M)]
        if sum(npts) % M == 0:          # (equal points per measure always have a divisible total)
            npts[0] += 1
        rows = [[draw(st.sampled_from([0.0, 0.5, 1.0])) for _ in range(2 * sum(npts))] for _ in range(T)]
    return dict(kind=kind, npts=npts, rows=rows, tol=tol, gens=N, content=content, bad=bad, unequal=unequal)


def enc_mask(kind, content, fmt):
    """content: set of (m,k) or (m,(i,j)) -> live mask in the given format"""
    if fmt == 'dict':
        d = {}
        for m, v in content:
            d.setdefault(m, set()).add(v)
        return d
    if fmt == 'set':
        return set(content)
    if not content:
        return ()
    ms, vs = zip(*sorted(content))
    return (tuple(ms), tuple(vs))


def dec_result(kind, res, fmt):
    """detector result in the given format -> (well-formed?, set of (m,k) / (m,(i,j)))"""
    norm = (lambda v: int(v)) if kind == 'weight' else (lambda v: (int(v[0]), int(v[1])))
    try:
        if fmt == 'dict':
            if type(res) is not dict or any(type(v) is not set or not v for v in res.values()):
                return False, None
            return True, set((int(m), norm(v)) for m, vs in res.items() for v in vs)
        if fmt == 'set':
            if type(res) is not set:
                return False, None
            return True, set((int(m), norm(v)) for m, v in res)
        if type(res) is not tuple or len(res) not in (0, 2):
            return False, None
        if not res:
            return True, set()
        if len(res[0]) != len(res[1]) or not len(res[0]):
            return False, None
        return True, set((int(m), norm(v)) for m, v in zip(*res))
    except (TypeError, ValueError, IndexError):
        return False, None


BAD_MEASURE = {
    'weight': {'set-of-int': lambda: {1}, 'set-bad-measure': lambda: {(0.5, 1)}, 'dict-of-list': lambda: {0: [1]},
               'dict-wrong-items': lambda: {0: {(0, 1)}}, 'int': lambda: 3, 'flat-pair': lambda: (0, 1), 'str': lambda: 'abc'},
    'position': {'set-of-int': lambda: {1}, 'set-bad-measure': lambda: {(0.5, (0, 1))}, 'dict-of-list': lambda: {0: [(0, 1)]},
                 'dict-wrong-items': lambda: {0: {1}}, 'int': lambda: 3, 'flat-pair': lambda: (0, 1), 'str': lambda: 'abc'}}


def expect_measure(kind, rows, npts, N, tol):
    a = npts[0]; out = set()
    W = window(rows, N)
    for m in range(len(npts)):
        base = 2 * a * m
        if kind == 'weight':
            for k in range(a):
                if max(r[base + k] for r in W) <= tol:
                    out.add((m, k))
        else:
            for i in range(a):
                for j in range(i + 1, a):
                    if max(abs(r[base + a + i] - r[base + a + j]) for r in W) <= tol:
                        out.add((m, (i, j)))
    return out


def canon_content(kind, content):
    if kind == 'weight':
        return set((m, k) for m, k in content)
    return set((m, tuple(sorted(p))) for m, p in content)


def run_measure(case, ctx):
    import mystic.collapse as ct
    import mystic.termination as mt
    import mystic.mask as ma
    kind = case['kind']; rows = FL(case['rows']); tol = F(case['tol']); N = case['gens']; npts = list(case['npts'])
    det = ct.collapse_weight if kind == 'weight' else ct.collapse_position
    mon = fill(rows, npts=npts)
    T = len(rows)
    ctx.label('det:' + kind)
    if case['unequal']:
        ctx.label('unequal-npts')
        try:
            got = det(mon, tolerance=tol, generations=N)
            ok = False
        except CLEAN + (IndexError,):
            ok, got = True, None
        ctx.expect(ok, 'C11.unequal_npts_raises', lambda: dict(detector=kind, npts=npts, got=repr(got)))
        return
    if case['bad']:
        ctx.label('bad-mask:' + case['bad'])
        try:
            got = det(mon, tolerance=tol, generations=N, mask=BAD_MEASURE[kind][case['bad']]())
            ok = False
        except CLEAN:
            ok, got = True, None
        ctx.expect(ok, 'C11.bad_mask_raises', lambda: dict(detector=kind, mask=case['bad'], got=repr(got)))
        return
    if N > T:
        ctx.label('window>T')
    content = set((m, (tuple(v) if isinstance(v, list) else v)) for m, v in case['content'])
    ccontent = canon_content(kind, content)
    full = expect_measure(kind, rows, npts, N, tol)
    want = full - ccontent
    variants = [('dict', enc_mask(kind, content, 'dict'), 'dict'), ('set', enc_mask(kind, content, 'set'), 'set'),
                ('where', enc_mask(kind, content, 'where'), 'where')]
    if not content:
        variants += [('none', None, 'dict'), ('empty-list', [], 'where')]
    for name, mask, fmt in variants:
        ctx.label('mask:' + name + ('' if content else '-empty'))
        got = det(mon, tolerance=tol, generations=N, mask=copy.deepcopy(mask))
        ok, gotset = dec_result(kind, got, fmt)
        ctx.expect(ok, 'C11.measure_format', lambda: dict(detector=kind, mask=repr(mask), fmt=fmt, got=repr(got)))
        ctx.expect(gotset == want, 'C11.%s_definition' % kind,
                   lambda: dict(detector=kind, rows=window(rows, N), npts=npts, tol=tol, gens=N, mask=repr(mask),
                                expected=sorted(want), got=sorted(gotset)))
        # own output (plus the old mask) as mask, same format: nothing new
        both = enc_mask(kind, content | gotset, fmt)
        again = det(mon, tolerance=tol, generations=N, mask=copy.deepcopy(both))
        ok2, againset = dec_result(kind, again, fmt)
        ctx.expect(ok2 and againset == set(), 'C11.idempotent',
                   lambda: dict(detector=kind, fmt=name, mask=repr(both), again=repr(again)))
        # the termination condition, and the mask update
        Cond = mt.CollapseWeight if kind == 'weight' else mt.CollapsePosition
        cond = Cond(tolerance=tol, generations=N, mask=copy.deepcopy(mask))
        s = fake_solver(mon, T)
        truth = (T > N) and bool(want)
        info = cond(s, True)
        ctx.expect(bool(cond(s)) == truth and bool(info) == truth, 'C11.condition',
                   lambda: dict(cond=cond.__doc__, expected=truth, got=bool(cond(s)), T=T))
        if truth:
            rep = ct.collapsed(info)
            okr, repset = (False, None)
            if isinstance(rep, dict) and list(rep) == [cond.__doc__]:
                okr, repset = dec_result(kind, rep[cond.__doc__], fmt)
            ctx.expect(okr and repset == want, 'C11.condition_reports', lambda: dict(info=info, expected=sorted(want)))
            new = ma.update_mask(cond, rep)
            newmask = mt.state(new)[new.__doc__]['mask']
            okm, newset = dec_result(kind, newmask, fmt)
            ctx.expect(okm and canon_content(kind, newset) == ccontent | want, 'C11.mask_update',
                       lambda: dict(old=repr(mask), applied=sorted(want), new=repr(newmask)))
            ctx.expect(not new(s) and new(s, True) == '', 'C11.reported_once', lambda: dict(cond=new.__doc__, info=new(s, True)))
            ctx.label('condition-fired')
    ctx.label('collapsed:%d' % min(len(full), 3))
    ctx.nontrivial(bool(full) and bool(content))


# =========================================================================== collapse_cost
@st.composite
def cost_cases(draw, tier):
    T = draw(st.integers(1, 12)); n = draw(st.integers(1, 2))
    rows = [[draw(st.one_of(st.integers(-4, 4).map(float), finite_floats(-3, 3))) for _ in range(n)] for _ in range(T)]
    y = [draw(st.sampled_from([0.0, 0.5, 1.0, 2.0, 5.0])) for _ in range(T)]
    bad = draw(st.sampled_from([None] * 7 + ['list', 'none-and-index', 'str-key', 'empty-bounds', 'triple']))
    return dict(rows=rows, y=y, limit=draw(st.sampled_from([0.0, 0.5, 1.0, 2.0])),
                samples=draw(st.sampled_from([1, 2, 3, None])), clip=draw(st.booleans()), bad=bad)


BAD_COST = {'list': lambda: [(0, 1)], 'none-and-index': lambda: {None: (0, 1), 0: (0, 1)}, 'str-key': lambda: {'a': (0, 1)},
            'empty-bounds': lambda: {0: ()}, 'triple': lambda: {0: [(0, 1, 2)]}}


def cost_failure_class(v, ivs, clip):
    """where an excluded 'good' sample lies relative to the returned intervals"""
    inf = float('inf')
    upper = [iv for iv in ivs if iv[1] == inf]
    lower = [iv for iv in ivs if iv[0] == -inf]
    finite_hi = [iv[1] for iv in ivs if iv[1] != inf]
    finite_lo = [iv[0] for iv in ivs if iv[0] != -inf]
    if clip and not upper and all(v > h for h in finite_hi):
        return 'clip-dropped-upper-region'
    if clip and not lower and all(v < l for l in finite_lo):
        return 'clip-dropped-lower-region'
    if upper and v < upper[0][0] and all(v > h for h in finite_hi):
        return 'below-start-of-upper-interval'
    return 'other'


def run_cost(case, ctx):
    import mystic.collapse as ct
    rows = FL(case['rows']); y = FL(case['y']); limit = F(case['limit']); samples = case['samples']; clip = bool(case['clip'])
    mon = fill(rows, y=y)
    ctx.label('det:cost', 'clip:%s' % clip)
    if case['bad']:
        ctx.label('bad-mask:' + case['bad'])
        try:
            got = ct.collapse_cost(mon, clip=clip, limit=limit, samples=samples, mask=BAD_COST[case['bad']]())
            ok = False
        except CLEAN:
            ok, got = True, None
        ctx.expect(ok, 'C11.bad_mask_raises', lambda: dict(detector='collapse_cost', mask=case['bad'], got=repr(got)))
        return
    res = ct.collapse_cost(mon, clip=clip, limit=limit, samples=samples)
    n = len(rows[0])
    wf = type(res) is dict and all(isinstance(p, (int, np.integer)) and 0 <= p < n and len(ivs) > 0 and
                                   all(len(iv) == 2 and iv[0] <= iv[1] for iv in ivs) for p, ivs in res.items())
    ctx.expect(wf, 'C11.cost_format', lambda: dict(got=repr(res)))
    ymin = min(y)
    for p, ivs in sorted(res.items()):
        ivs = [(float(lo), float(hi)) for lo, hi in ivs]
        for x, c in zip(rows, y):
            if c - ymin <= limit:       # a sample the definition calls comparably cheap: must stay inside the bounds
                inside = any(lo <= x[p] <= hi for lo, hi in ivs)
                if not ctx.expect(inside, 'C11.cost_valid',
                                  lambda: dict(param=int(p), value=x[p], cost=c, min=ymin, limit=limit, samples=samples, clip=clip,
                                               intervals=ivs, cls=cost_failure_class(x[p], ivs, clip))):
                    break
    if res:
        again = ct.collapse_cost(mon, clip=clip, limit=limit, samples=samples, mask=copy.deepcopy(res))
        plain = lambda r: {int(p): [(float(lo), float(hi)) for lo, hi in ivs] for p, ivs in r.items()}
        nondeg = {p: [iv for iv in ivs if iv[0] != iv[1]] for p, ivs in plain(res).items()}
        nondeg = {p: ivs for p, ivs in nondeg.items() if ivs}
        ctx.expect(again == {}, 'C11.cost_idempotent',
                   lambda: dict(result=repr(res), again=repr(again),
                                again_is_result_without_zero_width=(isinstance(again, dict) and plain(again) == nondeg
                                                                    and nondeg != plain(res))))
        ctx.label('cost-collapsed')
        if all(len(ivs) == 1 for ivs in res.values()):
            # the same bounds written in the other accepted mask format, one (min, max) pair per parameter (what
            # tools.solver_bounds produces)
            pair = {int(p): (float(ivs[0][0]), float(ivs[0][1])) for p, ivs in res.items()}
            again2 = ct.collapse_cost(mon, clip=clip, limit=limit, samples=samples, mask=copy.deepcopy(pair))
            ctx.expect(again2 == {}, 'C11.cost_idempotent',
                       lambda: dict(result=repr(res), mask_as_pairs=repr(pair), again=repr(again2),
                                    again_is_result_without_zero_width=(isinstance(again2, dict) and plain(again2) == nondeg
                                                                        and nondeg != plain(res))))
            ctx.label('cost-mask-as-(min,max)-pairs')
    ctx.nontrivial(bool(res))


# =========================================================================== solver
def cost_value(terms, x):
    v = 0.0
    for t in terms:
        if t[0] == 'quad':
            v += t[3] * (x[t[1]] - t[2]) ** 2
        else:                           # 'diff': depends only on x[i]-x[j]
            v += (x[t[1]] - x[t[2]] - t[3]) ** 2
    return v


@st.composite
def solver_cases(draw, tier):
    kind = draw(st.sampled_from(['NM', 'NM', 'DE', 'DE', 'PW']))
    scen = draw(st.sampled_from(['flat', 'tied', 'both']))
    dim = draw(st.integers(3 if scen == 'both' else 2, 4))
    perm = list(draw(st.permutations(list(range(dim)))))
    terms, roles = [], ['quad'] * dim
    aval = lambda: draw(st.sampled_from([0.0, 1.0, -1.5, 0.5]))
    wval = lambda: draw(st.sampled_from([1.0, 0.5, 10.0]))
    used = 0
    if scen in ('tied', 'both'):
        i, j = perm[0], perm[1]; used = 2
        style = draw(st.sampled_from(['diff', 'diff-anchored', 'meet']))
        if style == 'meet':
            a = aval(); terms += [['quad', i, a, wval()], ['quad', j, a, wval()]]
        else:
            terms.append(['diff', i, j, draw(st.sampled_from([0.0, 0.0, 0.5]))])
            if style == 'diff-anchored':
                terms.append(['quad', i, aval(), wval()])
        roles[i] = roles[j] = 'tied:' + style
    if scen in ('flat', 'both'):
        roles[perm[used]] = 'flat'; used += 1
    for k in perm[used:]:
        terms.append(['quad', k, aval(), wval()])
    quad_a = {t[1]: t[2] for t in terms if t[0] == 'quad'}
    x0 = [draw(st.sampled_from([0.5, -0.5, 1.2, 2.0, 0.3, 0.0])) for _ in range(dim)]
    which = draw(st.sampled_from(['at', 'as', 'both', 'both']))
    tk = draw(st.sampled_from(['none', 'none', 'none', 'scalar', 'scalar', 'scalar', 'list']))
    if tk == 'none':
        target = None
    elif tk == 'scalar':
        target = draw(st.sampled_from(sorted(set(quad_a.values())) or [0.0]))
    else:
        target = [quad_a.get(k, x0[k]) for k in range(dim)]
    offset = draw(st.sampled_from([False] * 8 + [True]))
    G = {'NM': draw(st.integers(30, 70)), 'DE': draw(st.integers(25, 45)), 'PW': draw(st.integers(8, 16))}[kind]
    return dict(solver=kind, dim=dim, terms=terms, roles=roles, x0=x0, npop=draw(st.integers(5, 9)), seed=draw(st.integers(0, 10 ** 6)),
                which=which, target=target, offset=offset, tol=draw(st.sampled_from([1e-3, 1e-2, 1e-4])),
                gens=draw(st.integers(3, 5)), cog=[draw(st.sampled_from([1e-10, 1e-13])), draw(st.integers(8, 14))], budget=G)


class _Runaway(Exception):
    pass


class Groups(object):
    """the relations applied so far: x[i] == c (fixed), x[i] == x[j] (ties, union-find)"""
    def __init__(self, dim):
        self.parent = list(range(dim)); self.fixed = {}

    def find(self, i):
        while self.parent[i] != i:
            i = self.parent[i]
        return i

    def tie(self, i, j):
        a, b = self.find(i), self.find(j)
        if a != b:
            self.parent[b] = a

    def comps(self):
        out = {}
        for i in range(len(self.parent)):
            out.setdefault(self.find(i), []).append(i)
        return [c for c in out.values() if len(c) > 1 or c[0] in self.fixed]


def run_solver(case, ctx):
    import mystic.termination as mt
    kind = case['solver']; dim = case['dim']; terms = case['terms']; N = case['gens']; tol = F(case['tol'])
    target = case['target']
    target = FL(target) if isinstance(target, list) else (None if target is None else F(target))
    offset = bool(case['offset']); G = case['budget']
    lab.seed_rng(case['seed'])
    calls = []

    def cost(x):
        xt = lab.fvec(x)
        calls.append(xt)
        return cost_value(terms, xt)

    s = lab.make_solver(kind, dim, case['npop'])
    x0 = FL(case['x0'])
    if kind == 'DE':
        s.SetRandomInitialPoints([v - 1.0 for v in x0], [v + 1.0 for v in x0])
    else:
        s.SetInitialPoints(x0)
    conds = [mt.ChangeOverGeneration(F(case['cog'][0]), case['cog'][1])]
    if case['which'] in ('at', 'both'):
        conds.append(mt.CollapseAt(target, tol, N))
    if case['which'] in ('as', 'both'):
        conds.append(mt.CollapseAs(offset, tol, N))
    s.SetObjective(cost)
    s.SetTermination(mt.Or(*conds))
    s.SetEvaluationLimits(generations=G)
    log = []
    orig = s.Collapse

    max_collapses = dim + dim * (dim - 1) // 2 + 2      # more calls than distinct collapses exist: the loop is not ending

    def wrapped(disp=False):
        if len(log) > max_collapses:
            raise _Runaway()
        e = dict(mark=len(calls), gen=int(s.generations), best=lab.fvec(s.bestSolution), before=mt.state(s._termination),
                 hist=[[float(v) for v in r] for r in s._stepmon._x[-N:]], nhist=len(s.energy_history))
        e['result'] = orig(disp)
        e['after'] = mt.state(s._termination)
        log.append(e)
        return e['result']
    s.Collapse = wrapped
    try:
        s.Solve()
        runaway = False
    except _Runaway:
        runaway = True
    ctx.expect(not runaway, 'C11.solve_returns',
               lambda: dict(why='Collapse() called more often than there are distinct collapses: Solve does not end',
                            results=[repr(e['result']) for e in log[-3:]]))

    tkind = 'none' if target is None else 'list' if isinstance(target, list) else 'scalar'
    ctx.label('solver:' + kind, 'conds:' + case['which'], 'target:' + tkind, 'offset:%s' % offset)
    for r in set(case['roles']):
        ctx.label('role:' + r)
    events = [e for e in log if e['result']]
    ctx.label('collapses-applied:%d' % min(len(events), 4))

    # --- Solve came back, inside the budget, with the collapse loop properly finished
    ctx.expect(len(log) >= 1 and not log[-1]['result'] and all(e['result'] for e in log[:-1]), 'C11.solve_returns',
               lambda: dict(why='Collapse() sequence', results=[repr(e['result']) for e in log]))
    ctx.expect(int(s.generations) <= G and bool(s.Terminated()), 'C11.solve_returns',
               lambda: dict(generations=int(s.generations), budget=G, terminated=s.Terminated(info=True)))

    def kinds_of(state):
        return {('At' if d.startswith('CollapseAt') else 'As'): d for d in state if d.startswith('Collapse')}

    groups = Groups(dim)
    otie = []                 # offset ties: (i, j, distance at collapse time)
    oidx = set()
    applied = {'At': set(), 'As': set()}
    segments = []             # (first call index, relations snapshot)
    fixev, tieev = {}, []     # which Collapse() call fixed index i / tied (i, j)
    for evno, e in enumerate(events):
        res = e['result']
        before = kinds_of(e['before']); after = kinds_of(e['after'])
        ctx.expect(isinstance(res, dict) and set(res) <= set(before.values()), 'C11.detected_per_definition',
                   lambda: dict(why='keys are not the collapse conditions in force', keys=sorted(res), conditions=sorted(before.values())))
        for k, doc in before.items():
            kw = e['before'][doc]
            oldmask = kw['mask']
            got = res.get(doc, set())
            if k == 'At':
                want = expect_at(e['hist'], N, target, tol, ints(oldmask or ())) if e['nhist'] > N else set()
                gotn = ints(got)
            else:
                om = set((int(q[0]), int(q[1])) for q in (oldmask or ()))
                want = expect_as(e['hist'], N, offset, tol, om) if e['nhist'] > N else set()
                gotn = pairs(got)
            ctx.expect(gotn == want, 'C11.detected_per_definition',
                       lambda: dict(cond=doc, hist=e['hist'], expected=sorted(want), got=sorted(gotn)))
            # never the same collapse twice
            ctx.expect(not (gotn & applied[k]), 'C11.reported_once',
                       lambda: dict(cond=doc, again=sorted(gotn & applied[k]), earlier=sorted(applied[k])))
            applied[k] |= gotn
            # the mask grows by exactly what was applied
            newmask = e['after'][after[k]]['mask'] if k in after else None
            newn = (ints(newmask or ()) if k == 'At' else pairs(newmask or ()))
            ctx.expect(k in after and newn == applied[k], 'C11.mask_grows',
                       lambda: dict(cond=doc, old=repr(oldmask), applied=sorted(gotn), new=repr(newmask)))
            # the relations this collapse imposes
            if k == 'At':
                for i in sorted(gotn):
                    c = e['best'][i] if target is None else (target[i] if isinstance(target, list) else target)
                    groups.fixed[i] = float(c); fixev[i] = evno
            elif offset:
                for i, j in sorted(gotn):
                    otie.append((i, j, abs(e['best'][j] - e['best'][i]))); oidx.update((i, j))
            else:
                for i, j in sorted(gotn):
                    groups.tie(i, j); tieev.append((i, j, evno))
        others_b = {d: v for d, v in e['before'].items() if not d.startswith('Collapse')}
        others_a = {d: v for d, v in e['after'].items() if not d.startswith('Collapse')}
        ctx.expect(others_b == others_a, 'C11.mask_grows', lambda: dict(why='other conditions changed', before=others_b, after=others_a))
        segments.append((e['mark'], dict(fixed=dict(groups.fixed), comps=[(c, sorted(set(groups.fixed[i] for i in c if i in groups.fixed)))
                                                                             for c in groups.comps()],
                                          otie=list(otie), oidx=set(oidx), fixev=dict(fixev), tieev=list(tieev))))

    def order_class(comp, rel):
        """a group that mixes 'fixed at c' and 'equal to partner': does its exactness depend on the order in which
        the two constraints were composed?  (a tie applied in a later Collapse() than the fix, or a tie whose source -
        the lower index - is free while its destination is fixed)"""
        for i, j, ev in rel['tieev']:
            if i in comp:
                for f in comp:
                    if f in rel['fixev'] and rel['fixev'][f] < ev:
                        return 'fix-then-tie'
                if j in rel['fixev'] and not (i in rel['fixev'] and rel['fixev'][i] <= ev):
                    return 'tie-into-fixed'
        if len(set(ev for i, j, ev in rel['tieev'] if i in comp)) > 1:
            return 'ties-from-separate-collapses'
        if len(comp) >= 3 and any(i in rel['fixev'] for i in comp) and not all(i in rel['fixev'] for i in comp):
            return 'tie-chain-with-fixed-member'      # tools.connected picks the root by set order, not the fixed member
        return ''

    def group_event(comp, rel):
        return max([rel['fixev'][i] for i in comp if i in rel['fixev']] + [ev for i, j, ev in rel['tieev'] if i in comp])

    marks = [e['mark'] for e in events]

    def final_class(comp, rel, x):
        """the reported solution is a point that was evaluated before the collapse it violates"""
        c = order_class(comp, rel)
        if c or where_final[0] is None:
            return c
        last = max([k for k in range(len(calls)) if calls[k] == x] or [-1])
        return 'stale-best' if last < marks[group_event(comp, rel)] else ''

    where_final = [None]
    offset_failed = [False]
    dead = set()
    noted = set()

    def check_point(x, rel, sub, where):
        for comp, vals in rel['comps']:
            if oidx & set(comp) or tuple(comp) in dead:
                continue
            if len(vals) > 1:           # contradictory relations: only 'one of them wins'
                ok = all(x[i] in vals for i in comp)
                if 'conflict' not in noted:
                    noted.add('conflict'); ctx.exclude('conflicting-collapses')
                if not ctx.expect(ok, sub, lambda: dict(where=where, x=list(x), group=comp, fixed_values=vals, cls=final_class(comp, rel, x),
                                                        why='conflicting group: member at none of the fixed values')):
                    dead.add(tuple(comp))           # a known finding: one report per group and case
            else:
                ref = vals[0] if vals else x[comp[0]]
                ok = all(x[i] == ref for i in comp)
                if not ctx.expect(ok, sub, lambda: dict(where=where, x=list(x), group=comp, must_equal=ref,
                                                        fixed={str(i): rel['fixed'][i] for i in comp if i in rel['fixed']},
                                                        cls=final_class(comp, rel, x),
                                                        collapses=[repr(e['result']) for e in events])):
                    dead.add(tuple(comp))
        if offset_failed[0]:            # one report per case is enough (every later point fails the same way)
            return
        for i, j, d in rel['otie']:
            ok = abs(abs(x[j] - x[i]) - d) <= tol + 1e-12
            if not ctx.expect(ok, 'C11.offset_relation', lambda: dict(where=where, x=list(x), pair=[i, j], distance_at_collapse=d,
                                                                     got=abs(x[j] - x[i]), tol=tol)):
                offset_failed[0] = True
        for i in sorted(rel['oidx']):
            if i in rel['fixed']:
                if not ctx.expect(x[i] == rel['fixed'][i], 'C11.offset_relation',
                                  lambda: dict(where=where, x=list(x), index=i, fixed_at=rel['fixed'][i],
                                               why='fixed parameter moved by the offset tie')):
                    offset_failed[0] = True

    for n_, (mark, rel) in enumerate(segments):
        end = segments[n_ + 1][0] if n_ + 1 < len(segments) else len(calls)
        for c in range(mark, end):
            check_point(calls[c], rel, 'C11.relation_calls', 'call %d (collapse %d at call %d)' % (c, n_ + 1, mark))
    if segments:
        where_final[0] = True
        check_point(lab.fvec(s.bestSolution), segments[-1][1], 'C11.final_solution', 'bestSolution')
        if any(len(v) > 1 for _, v in segments[-1][1]['comps']):
            ctx.label('conflicting-collapses')
        # final termination state: masks hold everything that was applied, nothing else
        fin = kinds_of(mt.state(s._termination))
        st_ = mt.state(s._termination)
        ctx.expect(all((ints(st_[fin[k]]['mask'] or ()) if k == 'At' else pairs(st_[fin[k]]['mask'] or ())) == applied[k] for k in fin),
                   'C11.mask_grows', lambda: dict(why='final masks', state=repr(st_), applied={k: sorted(v) for k, v in applied.items()}))
        followed = int(s.generations) > events[0]['gen'] and len(calls) > events[0]['mark']
        if followed:
            ctx.label('iterated-after-collapse')
        ctx.nontrivial(followed)
        for k in ('At', 'As'):
            if applied[k]:
                ctx.label('applied:' + k)


# libFuzzer executions per shard and @given test of the coverage-guided extra of the thorough tier (vp/fuzz.py)
FUZZ = 2000

# =========================================================================== a measure collapse, applied
@st.composite
def apply_cases(draw, tier):
    """what solver.Collapse() installs for weight / position collapses: constraints.impose_measure(npts, tracking, noweight).
    Every measure keeps one point ('keeper') with positive weight that no collapse touches as a loser."""
    nm = draw(st.integers(1, 3))
    npts = [draw(st.integers(2, 5)) for _ in range(nm)]
    x = []; tracking = {}; noweight = {}
    for k, n in enumerate(npts):
        keeper = draw(st.integers(0, n - 1))
        w = [draw(st.sampled_from([0.0, 0.25, 0.5, 0.125, 1.0])) for _ in range(n)]
        w[keeper] = draw(st.sampled_from([0.25, 0.5, 1.0]))
        pos = [draw(st.sampled_from([0.0, 1.0, 1.00390625, 2.5, -1.5, 3.0, 4.0, 0.5])) for _ in range(n)]
        x.append((w, pos))
        if draw(st.booleans()):
            pairs = set()
            for _ in range(draw(st.integers(1, 4))):        # (several pairs: chains, a pair that bridges two groups)
                i = draw(st.integers(0, n - 1)); j = draw(st.integers(0, n - 1))
                if i != j and j != keeper:
                    pairs.add((min(i, j), max(i, j)) if max(i, j) != keeper else (max(i, j), min(i, j)))
            pairs = set(p for p in pairs if p[1] != keeper)
            if pairs:
                tracking[k] = sorted(pairs)
        if draw(st.booleans()):
            idx = set(i for i in range(n) if i != keeper and draw(st.integers(0, 2)) == 0)
            if idx:
                noweight[k] = sorted(idx)
    flat = []
    for w, pos in x:
        flat += w + pos
    return dict(npts=npts, x=flat, tracking={str(k): [list(p) for p in v] for k, v in tracking.items()},
                noweight={str(k): v for k, v in noweight.items()})


def run_apply(case, ctx):
    from mystic.constraints import impose_measure
    npts = tuple(case['npts'])
    tracking = {int(k): set(tuple(p) for p in v) for k, v in case['tracking'].items()}
    noweight = {int(k): set(v) for k, v in case['noweight'].items()}
    x = FL(case['x'])
    fn = impose_measure(npts, tracking, noweight)(lambda v: v)
    y = [float(v) for v in fn(list(x))]
    ctx.expect(len(y) == len(x), 'C11.measure_applied', lambda: dict(case, result=y, note='length changed'))
    off = 0
    both = False
    for k, n in enumerate(npts):
        w0 = x[off:off + n]; w1 = y[off:off + n]; p1 = y[off + n:off + 2 * n]
        det = lambda: dict(measure=k, npts=list(npts), tracking=case['tracking'], noweight=case['noweight'], x=x, result=y)
        for i, j in tracking.get(k, ()):
            ctx.expect(p1[i] == p1[j], 'C11.measure_applied',
                       lambda: dict(det(), pair=[i, j], note='positions of a collapsed pair differ after the collapse was applied'))
        for i in noweight.get(k, ()):
            ctx.expect(w1[i] == 0.0, 'C11.measure_applied', lambda: dict(det(), index=i, note='a collapsed weight is not zero'))
        ctx.expect(abs(sum(w1) - sum(w0)) <= 1e-12 * max(1.0, sum(w0)), 'C11.measure_applied',
                   lambda: dict(det(), note='total weight of the measure changed', before=sum(w0), after=sum(w1)))
        if k in tracking and k in noweight:
            both = True
        off += 2 * n
    ctx.label('measures:%d' % len(npts))
    if both: ctx.label('weight-and-position-collapse-of-one-measure')
    ctx.nontrivial(bool(tracking) or bool(noweight))


TESTS = [
    Test('apply', run_apply, strategy=lambda tier: apply_cases(tier), examples={'quick': 3000, 'thorough': 60000}),
    Test('at', run_at, strategy=lambda tier: at_cases(tier), examples={'quick': 8000, 'thorough': 300000}),
    Test('as', run_as, strategy=lambda tier: as_cases(tier), examples={'quick': 8000, 'thorough': 300000}),
    Test('measure', run_measure, strategy=lambda tier: measure_cases(tier), examples={'quick': 4000, 'thorough': 150000}),
    Test('cost', run_cost, strategy=lambda tier: cost_cases(tier), examples={'quick': 3000, 'thorough': 100000}),
    Test('solver', run_solver, strategy=lambda tier: solver_cases(tier), examples={'quick': 4000, 'thorough': 80000},
         shrink={'quick': True, 'thorough': True}),
]


def _kf_cost_zero_width(case, sub, d):
    return sub == 'C11.cost_idempotent' and bool(d.get('again_is_result_without_zero_width'))


def _kf_cost_clip(case, sub, d):
    return sub == 'C11.cost_valid' and bool(d.get('clip')) and d.get('cls') in ('clip-dropped-upper-region', 'clip-dropped-lower-region')


def _kf_offset_true(case, sub, d):
    return sub == 'C11.offset_relation' and bool(case.get('offset'))


def _kf_fix_tie_order(case, sub, d):
    return sub in ('C11.relation_calls', 'C11.final_solution') and \
        d.get('cls') in ('fix-then-tie', 'tie-into-fixed', 'ties-from-separate-collapses', 'tie-chain-with-fixed-member')


def _kf_stale_best(case, sub, d):
    return sub == 'C11.final_solution' and d.get('cls') == 'stale-best' and case.get('solver') == 'DE'


KNOWN = {
    # Collapse() composes the new impose_at/impose_as *in front of* the constraints of earlier collapses and impose_as
    # always copies the lower index onto the higher one: a tie applied after a fix (or onto a fixed parameter from a
    # free one), two ties from separate collapses sharing an index, or a chain of ties whose root (picked by
    # tools.connected from set order) is not the fixed member, leave x[i] != x[j] or move the fixed parameter
    # (abstract_solver.py:846-853, constraints.py:1661-1666)
    'C11-at-and-as-collapses-not-merged': _kf_fix_tie_order,
    # DE: Collapse() does not re-constrain the stored population; if no constrained trial ever beats the pre-collapse
    # best, bestSolution is a point that does not satisfy the collapse the solver reported (e.g. x[i] within tolerance
    # of the target, not at it)
    'C11-de-best-solution-predates-collapse': _kf_stale_best,
    # collapse_cost(mask=own result): zero-width intervals (a,a) are lost by tools._interval_intersection (l < h), so the
    # 'results == mask' test fails and the same collapse is reported again (without those intervals)
    'C11-cost-zero-width-interval-reported-again': _kf_cost_zero_width,
    # collapse_cost(clip=True): if the extreme sample of a parameter is expensive, the whole region between the last
    # expensive stretch and that end is dropped, including cheap samples (collapse.py:310-311)
    'C11-cost-clip-drops-edge-region': _kf_cost_clip,
    # CollapseAs(offset=True): Collapse() passes the boolean on as the numeric offset, x[j] = x[i] + True (accumulating
    # along chains), whatever distance was detected; parameters fixed by CollapseAt in the same call are moved too
    'C11-collapse-as-offset-true-imposes-plus-one': _kf_offset_true,
}
