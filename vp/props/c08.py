"""C08 - the optimizers implement their published algorithms."""
import math
import numpy as np
from hypothesis import strategies as st
from vp.runner import Test
from vp import lab, refs
from vp.util import F, FL, finite_floats, close

PROP = 'C08'
RULE = ("(nm) unconstrained problems (quadratic incl. ill-conditioned, Rosenbrock-type, |x|, cosine bowl, and quantised bowls / floor plateaus on which exact ties between vertex energies occur; dim 1-5; start points "
        "incl. exact zeros; xtol/ftol; maxiter/maxfun): NelderMeadSimplexSolver step-wise and fmin vs a harness-owned "
        "transcription of scipy.optimize.fmin and vs the installed scipy.optimize.fmin; cases whose reference run has a decisive "
        "comparison with relative margin < 1e-7 are discarded and counted (near-tie guard).  (powell) PowellDirectionalSolver "
        "step-wise and fmin_powell vs a harness-owned transcription of Powell's direction-set method given mystic's own Brent "
        "line search (exact equality).  (brent) the vendored brent on generated 1-d functions.  (de) every trial vector of "
        "DE/DE2 runs (all ten strategies, CR incl. 0 and 1, F, NP 4-9, dim 1-5) is explained by an existential search over "
        "ordered donor tuples; selection is checked against the recorder with a plateau cost so ties occur; (de_stats) crossover "
        "run-length statistics with a 6-sigma band.  Non-trivial: NM/Powell >= 10 iterations incl. a shrink/contraction resp. a "
        "direction replacement; DE >= 1 accepted, >= 1 rejected trial; distinct by canonical JSON.")
ASSUME = ["the harness-owned reference transcriptions (vp/refs.py) are faithful to scipy.optimize.fmin / fmin_powell",
          "Powell's reference uses mystic's own Brent line search (the property says 'given the same Brent line search'); brent itself is checked separately",
          "the crossover distribution check is statistical (6 sigma); exact parts: donor formula, run structure, CR in {0,1}, selection"]


def smooth_cost(spec):
    def f(x):
        return lab.raw_cost(spec, x)
    return f


@st.composite
def local_cases(draw, tier, families):
    dim = draw(st.integers(1, 4 if tier == 'quick' else 5))
    spec = draw(lab.cost_specs(dim, families=families, rets=('float',)))
    x0 = draw(st.lists(st.one_of(st.sampled_from([0.0, 0.0, 1.0, -1.2, 2.5, 0.1]), finite_floats(-4, 4)), min_size=dim, max_size=dim))
    c = dict(dim=dim, cost=spec, x0=x0,
             xtol=draw(st.sampled_from([1e-4, 1e-4, 1e-2, 1e-6])), ftol=draw(st.sampled_from([1e-4, 1e-4, 1e-2, 1e-7])),
             maxiter=draw(st.sampled_from([None, None, 5, 30, 100])), maxfun=draw(st.sampled_from([None, None, 20, 80])))
    if draw(st.integers(0, 5)) == 0:
        # tolerances the run cannot meet within the default budget (200 x dimension): the run ends on the defaults
        c.update(xtol=1e-12, ftol=1e-12, maxiter=None, maxfun=None)     # (both: with only one given, today's scipy lifts the other)
        c['default_budget'] = True
    if draw(st.integers(0, 2)) == 0:
        c['adaptive'] = True             # Nelder-Mead only
    if dim >= 2 and draw(st.integers(0, 2)) == 0:
        # Powell only: a caller-supplied initial direction set, also integer-typed (as a user writes it)
        kind = draw(st.sampled_from(['int-eye', 'int-rot', 'int-rot', 'float-rot']))
        D = [[1 if i == j else 0 for j in range(dim)] for i in range(dim)]
        if kind != 'int-eye':
            for i in range(dim):
                for j in range(dim):
                    if i != j and draw(st.integers(0, 2)) == 0:
                        D[i][j] = draw(st.sampled_from([1, -1, 2]))      # unit lower/upper entries: stays non-singular often enough
            if abs(np.linalg.det(np.array(D, float))) < 0.5:
                D = [[1 if i == j else 0 for j in range(dim)] for i in range(dim)]; D[0][dim - 1] = 1
        if kind == 'float-rot':
            D = [[float(v) * 0.5 for v in row] for row in D]
        c['direc'] = D; c['direc_kind'] = kind
    return c


# --------------------------------------------------------------------------- Nelder-Mead
def run_nm(case, ctx):
    import mystic.solvers as ms
    from mystic.termination import CandidateRelativeTolerance as CRT
    f = smooth_cost(case['cost']); x0 = FL(case['x0'])
    haszero = any(v == 0 for v in x0)
    # mystic writes scipy's zdelt = 0.00025 as (0.05**2)*0.1, which is one ulp larger: with that value the
    # operation sequences are identical and the comparison is exact
    trace = []
    adaptive = bool(case.get('adaptive'))
    rx, rf, rit, rcalls, rwarn = refs.nelder_mead(f, x0, case['xtol'], case['ftol'], case['maxiter'], case['maxfun'], trace,
                                                  zdelt=(0.05 ** 2) * 0.1, adaptive=adaptive)
    if adaptive: ctx.label('adaptive')
    if case.get('default_budget') and rwarn: ctx.label('ended-on-the-default-budget')
    ctx.label('cost:' + case['cost']['fam'])
    if haszero: ctx.label('x0-has-zero')
    # --- class API, step by step
    lab.reset_registry(); lab.seed_rng(0)
    cost = lab.Cost('c0', case['cost'])
    s = ms.NelderMeadSimplexSolver(case['dim'])
    s.SetInitialPoints(x0)
    s.SetEvaluationLimits(case['maxiter'], case['maxfun'])
    s.SetTermination(CRT(case['xtol'], case['ftol']))
    s.SetObjective(cost)
    step = 0
    while True:
        msg = s.Step(adaptive=True) if (adaptive and step == 0) else s.Step()      # the setting is sticky
        step += 1
        if step >= 2:
            if step - 2 >= len(trace):
                ctx.expect(False, 'C08.nm_steps', lambda: dict(note='mystic performs more iterations than the reference', ref_iterations=rit, step=step))
                break
            sim, fsim = trace[step - 2][0], trace[step - 2][1]
            pop = np.array(s.population, float); en = np.array(s.popEnergy, float)
            # identical operation sequence unless x0 has exact zeros (mystic's zdelt = 0.05**2*0.1 is one ulp above 0.00025)
            ok = pop.shape == sim.shape and np.array_equal(pop, sim) and np.array_equal(en, fsim)
            ctx.expect(ok, 'C08.nm_steps', lambda: dict(iteration=step - 1, mystic=pop.tolist(), reference=sim.tolist(),
                                                        mystic_f=en.tolist(), reference_f=fsim.tolist()))
        if msg or step > rit + 5:
            break
    ctx.expect(int(s.generations) == rit and int(s.evaluations) == rcalls and cost.ncalls() == rcalls, 'C08.nm_counts',
               lambda: dict(api='class', generations=int(s.generations), ref_iterations=rit, evaluations=int(s.evaluations), ref_funcalls=rcalls))
    kinds = set(t[2] for t in trace[1:])
    if adaptive:
        # fmin has no such option: second opinion from the installed scipy's minimize
        ctx.expect(np.array_equal(np.asarray(s.bestSolution, float), rx) and float(s.bestEnergy) == float(rf), 'C08.nm_result',
                   lambda: dict(api='class', x=np.asarray(s.bestSolution).tolist(), ref_x=rx.tolist(), fval=float(s.bestEnergy), ref_fval=float(rf)))
        if rwarn != 1 and not haszero:
            import scipy.optimize as so
            r = so.minimize(f, x0, method='Nelder-Mead', options=dict(xatol=case['xtol'], fatol=case['ftol'], maxiter=case['maxiter'],
                                                                       maxfev=case['maxfun'], adaptive=True))
            ctx.expect(int(s.generations) == int(r.nit) and int(s.evaluations) == int(r.nfev), 'C08.nm_scipy',
                       lambda: dict(adaptive=True, iter=int(s.generations), funcalls=int(s.evaluations), scipy_iter=int(r.nit), scipy_funcalls=int(r.nfev)))
            ctx.expect(np.allclose(np.asarray(s.bestSolution, float), r.x, rtol=1e-12, atol=1e-300), 'C08.nm_scipy',
                       lambda: dict(adaptive=True, x=np.asarray(s.bestSolution).tolist(), scipy_x=np.asarray(r.x).tolist()))
            ctx.label('vs-installed-scipy')
        if 'shrink' in kinds: ctx.label('shrink'); ctx.label('adaptive-shrink-dim%d' % case['dim'])
        ctx.nontrivial(rit >= 10)
        return
    # --- fmin wrapper
    x, fv, it, fc, wf = ms.fmin(f, x0, xtol=case['xtol'], ftol=case['ftol'], maxiter=case['maxiter'], maxfun=case['maxfun'],
                                full_output=1, disp=0)
    ctx.expect(int(it) == rit and int(fc) == rcalls and int(wf) == rwarn, 'C08.nm_counts',
               lambda: dict(api='fmin', iter=int(it), funcalls=int(fc), warnflag=int(wf), ref=[rit, rcalls, rwarn]))
    ctx.expect(np.array_equal(np.asarray(x, float), rx) and float(fv) == float(rf), 'C08.nm_result',
               lambda: dict(x=np.asarray(x).tolist(), ref_x=rx.tolist(), fval=float(fv), ref_fval=float(rf)))
    # --- installed scipy (its maxfun handling differs: it aborts mid-iteration)
    if haszero:
        # against true scipy (zdelt = 0.00025) the runs differ by one ulp in the initial simplex: compare counts and
        # result to rounding, unless a decisive comparison is close enough to go the other way (near-tie guard)
        margins = []
        zx, zf, zit, zcalls, zwarn = refs.nelder_mead(f, x0, case['xtol'], case['ftol'], case['maxiter'], case['maxfun'], None, margins)
        if case['xtol'] < 1e-9 or case['ftol'] < 1e-9:
            # one ulp in the initial simplex against tolerances of 1e-12: the iteration at which the simplex has shrunk
            # enough is not determined to the iteration
            ctx.exclude('x0 with zeros vs scipy zdelt at tolerances below 1e-9')
        elif margins and min(margins) < 1e-4:
            ctx.exclude('near-tie (x0 with zeros vs scipy zdelt)')
        else:
            ctx.expect(int(it) == zit and int(fc) == zcalls, 'C08.nm_counts',
                       lambda: dict(api='fmin vs scipy zdelt', iter=int(it), funcalls=int(fc), ref=[zit, zcalls]))
            ctx.expect(np.allclose(x, zx, rtol=1e-6, atol=1e-6) and close(fv, zf, 1e-4, 1e-6), 'C08.nm_result',
                       lambda: dict(x=np.asarray(x).tolist(), ref_x=zx.tolist(), fval=float(fv), ref_fval=float(zf)))
    if rwarn != 1 and not haszero:
        import scipy.optimize as so
        sx, sf, sit, sfc, swf = so.fmin(f, x0, xtol=case['xtol'], ftol=case['ftol'], maxiter=case['maxiter'], maxfun=case['maxfun'],
                                        full_output=1, disp=0)
        ctx.expect(int(it) == int(sit) and int(fc) == int(sfc), 'C08.nm_scipy',
                   lambda: dict(iter=int(it), funcalls=int(fc), scipy_iter=int(sit), scipy_funcalls=int(sfc)))
        ctx.expect(np.allclose(x, sx, rtol=1e-12, atol=1e-300), 'C08.nm_scipy', lambda: dict(x=np.asarray(x).tolist(), scipy_x=np.asarray(sx).tolist()))
        ctx.label('vs-installed-scipy')
    kinds = set(t[2] for t in trace[1:])
    if 'shrink' in kinds: ctx.label('shrink')
    for k_ in sorted(kinds): ctx.label('move:%s' % k_)
    ctx.nontrivial(rit >= 10)


# --------------------------------------------------------------------------- Powell
def run_powell(case, ctx):
    import mystic.solvers as ms
    from mystic._scipy060optimize import brent, fmin_powell as ref060
    f = smooth_cost(case['cost']); x0 = FL(case['x0'])
    xtol = case['xtol']; ftol = case['ftol']
    ctx.label('cost:' + case['cost']['fam'])
    nsweeps = case.get('sweeps', 6)
    calls = [0]

    def fc(x):
        calls[0] += 1
        return f(x)
    events = []
    ref = []
    direc = case.get('direc')            # given to mystic as written (possibly integers), to the reference as floats
    rdirec = None if direc is None else np.array(direc, float)
    if direc is not None: ctx.label('direc:' + case.get('direc_kind', '?'))
    for rec in refs.powell(fc, x0, brent, xtol=xtol, maxsweeps=nsweeps, events=events, direc=rdirec):
        ref.append(rec + (calls[0],))
    # --- class API, step by step (exact: same operations, same Brent)
    lab.reset_registry(); lab.seed_rng(0)
    cost = lab.Cost('c0', case['cost'])
    s = ms.PowellDirectionalSolver(case['dim'])
    s.SetInitialPoints(x0)
    s.SetTermination(lab.never())
    s.SetEvaluationLimits(generations=nsweeps + 2)
    s.xtol = xtol
    s.SetObjective(cost)
    if direc is None:
        s.Step()
    else:
        s.Step(direc=[list(r) for r in direc])     # sticky
    for k in range(len(ref)):
        s.Step()
        rx, rf, rd, rfx, rc = ref[k]
        x = np.array(s.population[0], float); fv = float(s.popEnergy[0]); d = np.array(s._direc, float)
        ok = np.array_equal(x, rx) and (fv == rf) and np.array_equal(d, rd)
        ctx.expect(ok, 'C08.powell_steps',
                   lambda: dict(iteration=k + 1, x=x.tolist(), ref_x=rx.tolist(), fval=fv, ref_fval=rf, direc=d.tolist(), ref_direc=rd.tolist()))
        ctx.expect(int(s.generations) == k + 1, 'C08.powell_steps', lambda: dict(generations=int(s.generations), iteration=k + 1))
        # calls: the reference has not yet made the extrapolation call of this iteration; mystic neither
        ctx.expect(cost.ncalls() == rc, 'C08.powell_counts', lambda: dict(iteration=k + 1, real_calls=cost.ncalls(), reference_calls=rc))
    if events: ctx.label('direction-replaced')
    # --- fmin_powell wrapper vs the reference under the documented stop rule
    maxiter = case['maxiter']; maxfun = case['maxfun']
    N = case['dim']
    mi = maxiter if maxiter is not None else N * 1000
    mf = maxfun if maxfun is not None else N * 1000
    calls[0] = 0
    fired_at_1 = False
    last = None
    for k, (rx, rf, rd, rfx) in enumerate(refs.powell(fc, x0, brent, xtol=xtol, maxsweeps=10 ** 6, direc=rdirec), start=1):
        last = (rx, rf, k, calls[0])
        conv = 2.0 * (rfx - rf) <= ftol * (abs(rfx) + abs(rf)) + 1e-20
        if k == 1 and conv: fired_at_1 = True
        if k >= 2 and conv: break            # NormalizedChangeOverGeneration(ftol, 2) needs a history longer than 2
        if calls[0] >= mf or k >= mi: break
        if k > 400: break
    pkw = {} if direc is None else dict(direc=[list(r) for r in direc])
    x, fv, it, fcalls, wf, direc_out = ms.fmin_powell(f, x0, xtol=xtol, ftol=ftol, maxiter=maxiter, maxfun=maxfun, full_output=1, disp=0, **pkw)
    rx, rf, rk, rc = last
    ctx.expect(int(it) == rk and int(fcalls) == rc, 'C08.powell_counts',
               lambda: dict(api='fmin_powell', iter=int(it), funcalls=int(fcalls), ref_iter=rk, ref_funcalls=rc))
    ctx.expect(np.array_equal(np.atleast_1d(x), rx) and float(fv) == rf, 'C08.powell_result',
               lambda: dict(x=np.atleast_1d(x).tolist(), ref_x=rx.tolist(), fval=float(fv), ref_fval=rf))
    want_wf = 1 if rc >= mf else (2 if rk >= mi else 0)
    ctx.expect(int(wf) == want_wf, 'C08.powell_counts', lambda: dict(warnflag=int(wf), expected=want_wf, iter=rk, funcalls=rc, maxiter=mi, maxfun=mf))
    if not fired_at_1 and maxfun is None:
        # second opinion: the vendored scipy 0.6 fmin_powell (same stop rule from iteration 2 on)
        okw = {} if direc is None else dict(direc=np.array(direc, float))
        ox, ofv, od, oit, ofc, owf = ref060(f, x0, xtol=xtol, ftol=ftol, maxiter=maxiter, full_output=1, disp=0, **okw)
        ctx.expect(int(oit) == int(it) and np.allclose(np.atleast_1d(ox), np.atleast_1d(x), rtol=1e-12, atol=1e-12), 'C08.powell_scipy060',
                   lambda: dict(iter=int(it), scipy060_iter=int(oit), x=np.atleast_1d(x).tolist(), scipy060_x=np.atleast_1d(ox).tolist()))
        ctx.label('vs-scipy060')
    ctx.nontrivial(len(ref) >= 3 and bool(events))


# --------------------------------------------------------------------------- Brent
@st.composite
def brent_cases(draw, tier):
    kind = draw(st.sampled_from(['quad', 'quartic', 'abs', 'cosh', 'cosbowl']))
    return dict(kind=kind, a=draw(finite_floats(-5, 5)), w=draw(st.sampled_from([1.0, 0.1, 10.0, 1e3])),
                tol=draw(st.sampled_from([1.48e-8, 1e-2, 1e-4])))


def brent_fn(case):
    a = F(case['a']); w = F(case['w']); k = case['kind']
    if k == 'quad': return lambda t: w * (t - a) ** 2
    if k == 'quartic': return lambda t: w * (t - a) ** 4 + (t - a) ** 2
    if k == 'abs': return lambda t: w * abs(t - a)
    if k == 'cosh': return lambda t: w * math.cosh(min(50.0, max(-50.0, 0.3 * (t - a))))
    return lambda t: (t - a) ** 2 + 0.3 * math.cos(3 * t)


def run_brent(case, ctx):
    from mystic._scipy060optimize import brent
    import scipy.optimize as so
    f = brent_fn(case)
    seen = []

    def g(t):
        v = f(float(t)); seen.append((float(t), v)); return v
    xmin, fval, it, num = brent(g, full_output=1, tol=case['tol'], maxiter=500)
    ctx.expect(any(t == float(xmin) and v == fval for t, v in seen), 'C08.brent',
               lambda: dict(xmin=float(xmin), fval=float(fval), note='fval is not the value computed at xmin'))
    ctx.expect(fval <= f(0.0) and fval <= f(1.0), 'C08.brent', lambda: dict(fval=float(fval), f0=f(0.0), f1=f(1.0)))
    sx, sf, sit, sn = so.brent(f, full_output=1, tol=case['tol'], maxiter=500)
    ctx.expect(float(xmin) == float(sx) and float(fval) == float(sf) and int(it) == int(sit), 'C08.brent_scipy',
               lambda: dict(xmin=float(xmin), scipy_xmin=float(sx), fval=float(fval), scipy_fval=float(sf), iter=int(it), scipy_iter=int(sit)))
    ctx.label('brent:' + case['kind'])
    ctx.nontrivial(it >= 3)


# --------------------------------------------------------------------------- differential evolution
@st.composite
def de_cases(draw, tier):
    kind = draw(st.sampled_from(['DE', 'DE2']))
    strat = draw(st.sampled_from(lab.STRATEGIES))
    dim = draw(st.integers(1, 5))
    npop = draw(st.integers(max(dim, lab.min_npop(strat)), 9))
    c = dict(solver=kind, strategy=strat, dim=dim, npop=npop, seed=draw(st.integers(0, 2 ** 20)),
             CR=draw(st.sampled_from([0.0, 1.0, 0.9, 0.5, 0.2, 0.7])), F=draw(st.sampled_from([0.8, 0.5, 1.0, 0.3, 1.5])),
             cost=draw(lab.cost_specs(dim, families=('quad', 'plateau', 'plateau', 'cos', 'abs', 'nanhalf'), rets=('float',))),
             gens=draw(st.integers(2, 8 if tier == 'quick' else 20)))
    lo = draw(st.lists(finite_floats(-4, 0), min_size=dim, max_size=dim))
    c['init'] = dict(lo=lo, hi=[l + draw(st.sampled_from([1.0, 3.0, 6.0])) for l in lo])
    c['converged'] = draw(st.integers(0, 5)) == 0       # start from a partly collapsed population (coinciding values)
    return c


def run_de(case, ctx, stats=None):
    import mystic.strategy as mstrat
    lab.reset_registry(); lab.seed_rng(case['seed'])
    kind = case['solver']; name = case['strategy']; dim = case['dim']
    s = lab.make_solver(kind, dim, case['npop'])
    s.SetRandomInitialPoints(FL(case['init']['lo']), FL(case['init']['hi']))
    if case.get('converged'):
        for j in range(1, len(s.population), 2):
            s.population[j][:] = s.population[0][:]
    cost = lab.Cost('c0', case['cost'])
    s.SetObjective(cost)
    s.SetTermination(lab.never())
    s.SetEvaluationLimits(generations=case['gens'] + 2)
    s.probability = F(case['CR']); s.scale = F(case['F'])
    real = getattr(mstrat, name)
    log = []

    def wrapper(inst, candidate):
        pop = [[float(v) for v in m] for m in inst.population]
        best = [float(v) for v in inst.bestSolution]
        real(inst, candidate)
        trial = inst.trialSolution[candidate] if inst._map_solver else inst.trialSolution
        log.append(dict(candidate=candidate, pop=pop, best=best, F=float(inst.scale), CR=float(inst.probability),
                        trial=[float(v) for v in trial]))
    wrapper.__name__ = name
    s.Step(strategy=wrapper)                       # generation 0: the initial population is evaluated
    NP = s.nPop
    accepted = rejected = ties = 0
    CR = F(case['CR'])
    for g in range(case['gens']):
        old_pop = [[float(v) for v in m] for m in s.population]
        old_en = [float(e) for e in s.popEnergy]
        n0 = cost.ncalls(); l0 = len(log)
        s.Step(strategy=wrapper)
        recs = log[l0:]
        ctx.expect(len(recs) == NP and [r['candidate'] for r in recs] == list(range(NP)), 'C08.de_trial',
                   lambda: dict(note='strategy not called once per member', calls=[r['candidate'] for r in recs]))
        ctx.expect(cost.ncalls() - n0 == NP, 'C08.de_selection', lambda: dict(note='not one evaluation per trial', calls=cost.ncalls() - n0))
        for i, r in enumerate(recs):
            ex = refs.explain_trial(name, r['candidate'], r['pop'], r['best'], r['F'], r['trial'])
            ctx.expect(bool(ex), 'C08.de_trial',
                       lambda: dict(strategy=name, solver=kind, candidate=i, trial=r['trial'], parent=r['pop'][i], best=r['best'], F=r['F'],
                                    population=r['pop'], note='no choice of distinct donors explains the trial vector'))
            if not ex:
                continue
            # crossover structure
            if name.endswith('Exp'):
                ok = any(refs.circular_runs(dim, e['D'], e['M']) for e in ex)
                ctx.expect(ok, 'C08.de_crossover', lambda: dict(strategy=name, rule='exponential: mutated positions form one circular run',
                                                                trial=r['trial'], parent=r['pop'][i], explanations=ex[:3], n_explanations=len(ex)))
            nonempty = any(e['M'] for e in ex)
            full = any(len(e['M']) == dim for e in ex)
            dmin = min(len(e['D']) for e in ex)
            ctx.expect(nonempty, 'C08.de_crossover_nonempty',
                       lambda: dict(strategy=name, CR=CR, trial=r['trial'], parent=r['pop'][i], note='no component of the trial comes from the mutant'))
            if CR == 1.0:
                ctx.expect(full, 'C08.de_crossover', lambda: dict(strategy=name, CR=CR, rule='CR=1 mutates every component',
                                                                  trial=r['trial'], parent=r['pop'][i]))
            if CR == 0.0 and name.endswith('Bin'):
                ctx.expect(dmin <= 1 and nonempty, 'C08.de_crossover',
                           lambda: dict(strategy=name, CR=CR, rule='CR=0 (binomial) mutates exactly one component', changed=dmin))
            if stats is not None and not any(e['A'] for e in ex):
                # unambiguous trial: mutant differs from the parent everywhere, so the mutated set is exactly D
                stats.append(len(ex[0]['D']))
            # selection
            xt, et = cost.calls[n0 + i]
            ctx.expect(list(xt) == r['trial'], 'C08.de_selection', lambda: dict(note='evaluated point is not the trial', evaluated=list(xt), trial=r['trial']))
            new_m = [float(v) for v in s.population[i]]; new_e = float(s.popEnergy[i])
            if et < old_en[i]:
                accepted += 1
                ctx.expect(new_m == r['trial'] and new_e == et, 'C08.de_selection',
                           lambda: dict(strategy=name, solver=kind, member=i, note='strictly better trial not accepted', trial_energy=et, old_energy=old_en[i]))
            else:
                rejected += 1
                if et == old_en[i]: ties += 1
                if et != et or old_en[i] != old_en[i]: ctx.label('selection-with-nan-energy')
                ctx.expect(new_m == old_pop[i] and (new_e == old_en[i] or (new_e != new_e and old_en[i] != old_en[i])), 'C08.de_selection',
                           lambda: dict(strategy=name, solver=kind, member=i, note='member replaced by a trial that is not strictly better',
                                        trial_energy=et, old_energy=old_en[i], tie=(et == old_en[i])))
    ctx.label('solver:' + kind, 'strategy:' + name, 'CR:%s' % CR)
    if ties: ctx.label('tie-occurred')
    if case.get('converged'): ctx.label('coinciding-members')
    ctx.nontrivial(accepted >= 1 and rejected >= 1)


@st.composite
def stats_cases(draw, tier):
    strat = draw(st.sampled_from(['Best1Bin', 'Best1Exp', 'Rand1Exp', 'RandToBest1Exp']))
    dim = draw(st.integers(4, 7))
    return dict(solver=draw(st.sampled_from(['DE', 'DE2'])), strategy=strat, dim=dim, npop=8, seed=draw(st.integers(0, 2 ** 20)),
                CR=draw(st.sampled_from([0.3, 0.5, 0.7, 0.9])), F=0.8,
                cost=dict(fam='cos', a=[0.3] * dim, w=[1.0] * dim, ret='float'), gens=260,
                init=dict(lo=[-3.0] * dim, hi=[3.0] * dim), converged=False)


def run_stats(case, ctx):
    sizes = []
    run_de(case, ctx, stats=sizes)
    n = len(sizes); D = case['dim']; CR = F(case['CR']); name = case['strategy']
    ctx.label('stats:' + name)
    if n < 800:
        ctx.exclude('too-few-unambiguous-trials')
        return
    if name.endswith('Bin'):
        # binomial crossover: 1 + Binomial(D-1, CR) mutated components
        mean = 1 + (D - 1) * CR; var = (D - 1) * CR * (1 - CR)
        m = sum(sizes) / n
        z = (m - mean) / math.sqrt(var / n)
        ctx.expect(abs(z) < 6, 'C08.de_crossover_stats', lambda: dict(strategy=name, CR=CR, D=D, trials=n, mean=m, expected=mean, z=z))
    else:
        # exponential crossover, conditional on at least one mutated component: P(L >= k | L >= 1) = CR^(k-1), L <= D
        L = [v for v in sizes if v >= 1]
        nn = len(L)
        pk = [CR ** (k - 1) * ((1 - CR) if k < D else 1.0) for k in range(1, D + 1)]
        mean = sum(k * p for k, p in zip(range(1, D + 1), pk)); var = sum(k * k * p for k, p in zip(range(1, D + 1), pk)) - mean ** 2
        m = sum(L) / max(nn, 1)
        z = (m - mean) / math.sqrt(var / max(nn, 1))
        ctx.expect(nn > 100 and abs(z) < 6, 'C08.de_crossover_stats',
                   lambda: dict(strategy=name, CR=CR, D=D, trials=nn, mean=m, expected=mean, z=z))
    ctx.nontrivial(n >= 800)


def _kf_f9a(case, subcheck, detail):
    # Rand1Bin, RandToBest1Bin, Best2Bin, Rand2Bin implement the exponential (contiguous-run) crossover
    return case.get('strategy') in ('Rand1Bin', 'RandToBest1Bin', 'Best2Bin', 'Rand2Bin') and \
        subcheck in ('C08.de_crossover_nonempty', 'C08.de_crossover')


def _kf_f9b(case, subcheck, detail):
    # the *Exp strategies test `random() >= CR` before the first mutation: a trial can equal its parent
    return str(case.get('strategy', '')).endswith('Exp') and subcheck == 'C08.de_crossover_nonempty' and F(case.get('CR')) < 1.0


TESTS = [
    Test('nm', run_nm, strategy=lambda tier: local_cases(tier, ('quad', 'rosen', 'abs', 'cos', 'stair', 'stair', 'plateau')), examples={'quick': 960, 'thorough': 30000}),
    Test('powell', run_powell, strategy=lambda tier: local_cases(tier, ('quad', 'rosen', 'cos', 'abs', 'stair')), examples={'quick': 400, 'thorough': 10000}),
    Test('brent', run_brent, strategy=lambda tier: brent_cases(tier), examples={'quick': 800, 'thorough': 20000}),
    Test('de', run_de, strategy=lambda tier: de_cases(tier), examples={'quick': 640, 'thorough': 16000}),
    Test('de_stats', run_stats, strategy=lambda tier: stats_cases(tier), examples={'quick': 48, 'thorough': 480}, shrink={'quick': False, 'thorough': False}),
]

KNOWN = {'F9a-bin-strategies-use-exponential-crossover': _kf_f9a, 'F9b-exp-crossover-may-mutate-nothing': _kf_f9b}
