"""Configured single runs of a solver, observed at every iteration boundary.
Used by C01 (reported optimum is an evaluated point with its true energy), C03 (hard
constraints), and parts of C02/C06/C07.  A *config* is plain data (see configs())."""
import math
import numpy as np
from hypothesis import strategies as st
from vp import lab
from vp.util import F, FL, finite_floats


class Run(object):
    """builds the solver described by cfg; nothing is evaluated until step()"""
    def __init__(self, cfg, ctx, seed_now=True):
        self.cfg = cfg; self.ctx = ctx
        lab.reset_registry()
        if seed_now:
            lab.seed_rng(cfg['seed'])
        self.kind = cfg['solver']; self.dim = cfg['dim']
        s = self.solver = lab.make_solver(self.kind, self.dim, cfg.get('npop'))
        self.cost = lab.Cost('c0', cfg['cost'])
        self.extra = tuple(FL(cfg.get('extra') or []))
        init = cfg['init']
        self.x0_buf = lab.apply_init(s, init)
        self.nsteps = 0
        self.box = None
        b = cfg.get('bounds')
        if b:
            self.box = (FL(b['lo']), FL(b['hi']))
            if b.get('prev'):
                # the ranges are given twice: first a smaller box (same mode), then the one that counts
                s.SetStrictRanges(FL(b['prev'][0]), FL(b['prev'][1]), tight=b.get('tight'), clip=b.get('clip'))
            s.SetStrictRanges(list(self.box[0]), list(self.box[1]), tight=b.get('tight'), clip=b.get('clip'))
        # 'kw_first': penalty and constraints are handed to the first Step as keywords (documented inputs of Step/Solve,
        # kept by the solver from then on) instead of through SetPenalty / SetConstraints
        self.kw_first = bool(cfg.get('kw_first'))
        self.first_kw = {}
        self.con = lab.Constraint(cfg['constraint']) if cfg.get('constraint') else None
        if self.con is not None:
            if self.kw_first: self.first_kw['constraints'] = self.con
            else: s.SetConstraints(self.con)
        self.pen = lab.make_penalty(cfg.get('penalty'))
        if self.pen is not None:
            if self.kw_first: self.first_kw['penalty'] = self.pen
            else: s.SetPenalty(self.pen)
        self.red = cfg.get('reducer')
        if self.red:
            fn, arr = lab.reducer_fn(self.red)
            s.SetReducer(fn, arraylike=arr)
        t = lab.make_termination(cfg.get('term', 'never'))
        if t is not None:
            s.SetTermination(t)
        s.SetEvaluationLimits(cfg.get('maxiter'), cfg.get('maxfun'))
        if self.kind in ('DE', 'DE2'):
            if cfg.get('strategy'): s.strategy = cfg['strategy']
            if cfg.get('CR') is not None: s.probability = F(cfg['CR'])
            if cfg.get('F') is not None: s.scale = F(cfg['F'])
        s.SetObjective(self.cost, ExtraArgs=self.extra if self.extra else None)
        self.callbacks = []
        self.msg = None

    def cb(self, x):
        self.callbacks.append((lab.fvec(x), self.cost.ncalls()))

    def step(self):
        kw = self.first_kw; self.first_kw = {}
        self.msg = self.solver.Step(callback=self.cb, **kw)
        self.nsteps += 1
        if self.x0_buf is not None and self.nsteps == 1:
            self.x0_buf += 1000.0           # the caller reuses its array after the first iteration
        return self.msg

    # ---- the objective the solver minimises, computed by the harness ----------
    def penalty_at(self, x):
        if self.pen is None:
            return 0.0
        return self.pen(list(x))

    def objective(self, x):
        """F(x) = inf if c(x) leaves the box, else reducer(cost(c(x))) + penalty(c(x))"""
        y = self.con.apply(x) if self.con is not None else [float(v) for v in x]
        if self.box is not None and not lab.in_box(y, *self.box):
            return float('inf')
        v = self.cost.pure(y, *self.extra)
        v = lab.reduce_value(self.red, v) if isinstance(v, list) else v
        return v + self.penalty_at(y)

    def energy_from_record(self, x):
        """reducer(value recorded for x) + penalty(x), or None if x was never passed to the cost"""
        v = self.cost.lookup(x)
        if v is None:
            return None
        v = lab.reduce_value(self.red, v) if isinstance(v, list) else v
        return v + self.penalty_at(x)


def red_tol(run, x):
    """absolute rounding allowance when a reducer is active: the solver computes reducer(cost + penalty)
    component-wise, the harness reducer(cost) + penalty"""
    if not run.red:
        return 0.0
    v = run.cost.pure(x, *run.extra)
    if not isinstance(v, list):
        return 0.0
    p = abs(float(run.penalty_at(x)))
    return 16 * 2.220446049250313e-16 * (sum(abs(u) for u in v) + len(v) * p)


def feq(a, b, ulps=0, atol=0.0):
    a = float(a); b = float(b)
    if a == b or (a != a and b != b):
        return True
    if (ulps or atol) and math.isfinite(a) and math.isfinite(b):
        return abs(a - b) <= ulps * max(np.spacing(abs(a)), np.spacing(abs(b))) + atol
    return False


# --------------------------------------------------------------------------- generation
@st.composite
def configs(draw, tier='quick', solvers=lab.SOLVERS, need_constraint=False, allow_reducer=True,
            allow_bounds=True, clip_modes=((None, None), (True, None), (False, None), (True, True), (None, True)),
            max_dim=None, families=None, symbolic=True, degenerate=False):
    kind = draw(st.sampled_from(list(solvers)))
    dim = draw(st.integers(1, max_dim or (3 if tier == 'quick' else 4)))
    cfg = dict(solver=kind, dim=dim, seed=draw(st.integers(0, 2 ** 20)))
    # bounds first: constraint parameters are drawn relative to the box
    use_bounds = allow_bounds and draw(st.integers(0, 2)) > 0
    con_kinds_need_int = False
    box = None
    if use_bounds:
        same = draw(st.booleans())
        lo, hi = draw(lab.boxes(dim, integer=True, same_sides=same, degenerate=degenerate))
        box = (lo, hi)
        tc = draw(st.sampled_from(list(clip_modes)))
        cfg['bounds'] = dict(lo=lo, hi=hi, tight=tc[0], clip=tc[1])
        if draw(st.integers(0, 4)) == 0:
            f1 = draw(st.sampled_from([0.0, 0.25, 0.5])); f2 = draw(st.sampled_from([0.1, 0.25, 0.5]))
            cfg['bounds']['prev'] = [[F(l) + f1 * (F(h) - F(l)) for l, h in zip(lo, hi)],
                                     [F(l) + min(1.0, f1 + f2) * (F(h) - F(l)) for l, h in zip(lo, hi)]]
    use_con = need_constraint or draw(st.integers(0, 2)) == 0
    if use_con:
        for _ in range(8):
            spec = draw(lab.constraint_specs(dim, box=box, symbolic=symbolic))
            if box is None or lab.box_compatible(spec, *box):
                cfg['constraint'] = spec
                break
        else:
            cfg['constraint'] = dict(kind='pin', i=0, c=F(box[0][0]), inplace=False, ret='same')
    if draw(st.integers(0, 2)) == 0:
        cfg['penalty'] = draw(lab.penalty_specs(dim))
    if allow_reducer and draw(st.integers(0, 5)) == 0:
        cfg['cost'] = draw(lab.cost_specs(dim, families=('vec',)))
        cfg['reducer'] = dict(kind=draw(st.sampled_from(['sum', 'max', 'mean', 'add2', 'max2', 'sumsq', 'maxabs', 'min2', 'max2'])))
        if cfg['cost'].get('single') and cfg['reducer']['kind'] not in ('sumsq', 'maxabs'):
            # a single signed residual is unbounded below: only a reducer that bounds it gives a minimisation problem
            cfg['reducer'] = dict(kind=draw(st.sampled_from(['sumsq', 'maxabs'])))
    else:
        cfg['cost'] = draw(lab.cost_specs(dim, families=families or ('quad', 'rosen', 'abs', 'cos', 'plateau', 'infhalf', 'stair', 'rast', 'rast')))
    if draw(st.integers(0, 7)) == 0:
        cfg['extra'] = [draw(st.sampled_from([0.5, -1.0, 2.0]))]
    if kind in ('DE', 'DE2'):
        cfg['strategy'] = draw(st.sampled_from(lab.STRATEGIES))
        cfg['npop'] = draw(st.integers(max(dim, lab.min_npop(cfg['strategy'])), 8))
        cfg['CR'] = draw(st.sampled_from([0.9, 0.5, 0.0, 1.0, 0.2]))
        cfg['F'] = draw(st.sampled_from([0.8, 0.5, 1.0, 0.3]))
    if kind in ('DE', 'DE2') and box is None and draw(st.integers(0, 5)) == 0:
        lo_ = draw(st.integers(-5, 0))
        cfg['init'] = dict(kind='sampled', dist=draw(st.sampled_from(['randint', 'randint', 'uniform', 'normal'])), lo=lo_,
                           hi=lo_ + draw(st.integers(2, 8)))
    elif kind in ('DE', 'DE2') and draw(st.booleans()):
        if box is not None and draw(st.booleans()):
            cfg['init'] = dict(kind='random', lo=list(box[0]), hi=list(box[1]))
        else:
            lo = draw(st.lists(finite_floats(-4, 0), min_size=dim, max_size=dim))
            cfg['init'] = dict(kind='random', lo=lo, hi=[l + draw(st.sampled_from([1.0, 3.0, 6.0])) for l in lo])
    else:
        x0 = draw(st.lists(st.one_of(st.sampled_from([0.0, 1.0, -1.2, 2.5]), finite_floats(-4, 4)), min_size=dim, max_size=dim))
        if box is not None and draw(st.booleans()):
            # a start point inside the box
            fr = draw(st.lists(st.sampled_from([0.0, 0.25, 0.5, 0.75, 1.0]), min_size=dim, max_size=dim))
            x0 = [F(l) + f * (F(h) - F(l)) for l, h, f in zip(box[0], box[1], fr)]
        cfg['init'] = dict(kind='point', x0=x0)
        if draw(st.integers(0, 3)) == 0:
            cfg['init']['as_array'] = True
    cfg['maxiter'] = draw(st.integers(1, 12 if tier == 'quick' else 25))
    cfg['maxfun'] = draw(st.sampled_from([None, None, None, 5, 20, 60]))
    cfg['term'] = draw(st.sampled_from(['never', 'never', 'cog', 'default']))
    if (cfg.get('penalty') or cfg.get('constraint')) and draw(st.integers(0, 3)) == 0:
        cfg['kw_first'] = True
    return cfg
