import sys
from vp.runner import main
sys.exit(main())
