"""Expression trees in plain data for the symbolic checks C13 / C14.

Three independent pieces (DESIGN.md 3.2):

* a Hypothesis generator of expression *trees* (nested lists, JSON-serialisable),
* a renderer tree -> mystic constraint text under a naming scheme,
* an interpreter tree -> value at a point (the oracle; it never looks at any text).

Node forms::

    ['c', number]              literal (python int or float)
    ['v', k]                   variable number k
    ['L', name]                an entry of ``locals``
    ['neg', e]  ['abs', e]  ['sqrt', e]
    ['add', e1, e2, ...]       n-ary, evaluated left to right as python does for 'a + b + c'
    ['sub', a, b] ['mul', a, b] ['div', a, b] ['min', a, b] ['max', a, b]
    ['sin', e] ['cos', e] ['tanh', e] ['exp', e]    (only in trees generated with exact=False)

"exact" trees use only operators that IEEE-754 rounds exactly (+ - * / abs min max sqrt), so the
interpreter reproduces bit-for-bit what python computes from the rendered text; the renderer
parenthesises so that the text parses to exactly the tree (association included).
Trees with exact=False have one transcendental term added at the top; mystic evaluates it with
numpy, the interpreter with ``math`` - comparisons then use ``fuzz()``.
"""
import math
from fractions import Fraction
from hypothesis import strategies as st

# ------------------------------------------------------------------------------ pools
COEFS = [1.0, -1.0, 2.0, -2.5, 0.5, 0.25, 3.0, -7.0, 1.5, 0.1, -0.3, 1e3, 1e6, 1e-6, -1e-3, 0.0, 2, -3, 10]
CONSTS = [0.0, 1.0, -3.5, 2.25, 0.1, -1e-6, 100.0, 1e15, -1e12, 5, -2, 0.3, 1e-3, 4.0, -1.0, 2.0]
XPOOL = [0.0, 1.0, -1.0, 2.0, 0.5, -2.5, 3.0, 1e-3, 100.0, 4.0, -3.5, 2.25, 0.1]

# names that are not substrings of abs/min/max/sqrt/sin/cos/exp/tanh nor of numeric literals ('e')
NAME_POOL = ['alpha', 'beta', 'gam', 'd', 'f', 'g', 'k', 'u', 'v', 'w', 'y', 'z', 'yy', 'y2', 'y12',
             'spam', 'eggs', 'ham', 'foo', 'bar', 'baz', 'kk', 'w1', 'w10', 'zeta2']
BASE_POOL = ['x', 'x', 'x', 'y', 'z', 'w', 'v', 'u', 'q', 'th', 'var', 'p']
LOCAL_NAMES = ['KAPPA', 'B0', 'C_1', 'MU']
FUNCS = ('abs', 'min', 'max', 'sqrt', 'sin', 'cos', 'exp', 'tanh')

CMPS = ['=', '==', '<=', '<', '>=', '>', '!=']
STRICT = ('<', '>')


def short_decimals():
    """n / 10**k: the correctly rounded double of a decimal with <= 5 significant digits"""
    return st.builds(lambda n, k: n / 10 ** k, st.integers(-99999, 99999), st.integers(0, 4))


def dyadics():
    return st.builds(lambda n, k: n / 2 ** k, st.integers(-4096, 4096), st.integers(0, 6))


def consts():
    return st.one_of(st.sampled_from(CONSTS), short_decimals(), dyadics(), st.integers(-9, 9),
                     st.floats(-1e6, 1e6, allow_nan=False).map(lambda v: v if abs(v) >= 1e-6 else 0.0))


def coefs():
    return st.one_of(st.sampled_from(COEFS), st.sampled_from(COEFS), short_decimals(), dyadics(),
                     st.floats(-1e3, 1e3, allow_nan=False).map(lambda v: v if abs(v) >= 1e-6 else 1.0))


def _mag_floats(lo, hi):
    return st.builds(lambda m, s: s * m, st.floats(lo, hi, allow_nan=False), st.sampled_from([1.0, -1.0]))


def xvalues(kind):
    """coordinates: 0 or 1e-3 <= |v| <= 1e15 (no subnormal/underflow territory)"""
    small = st.one_of(st.sampled_from(XPOOL), st.integers(-6, 6).map(float),
                      st.floats(-5, 5, allow_nan=False).map(lambda v: v if abs(v) >= 1e-3 else 0.0),
                      short_decimals().map(lambda v: v if abs(v) >= 1e-3 else 0.0))
    ints = st.integers(-6, 6).map(float)
    huge = st.one_of(_mag_floats(1e6, 1e15), st.sampled_from([1e15, -1e15, 1e12, 123456789012345.0, 2.0 ** 50]))
    if kind == 'small':
        return small
    if kind == 'int':
        return ints
    if kind == 'huge':
        return huge
    return st.one_of(small, small, ints, huge)


@st.composite
def xvectors(draw, n):
    kind = draw(st.sampled_from(['small', 'small', 'int', 'huge', 'mixed']))
    return kind, draw(st.lists(xvalues(kind), min_size=n, max_size=n))


# ------------------------------------------------------------------------------ naming schemes
@st.composite
def schemes(draw, n):
    """how the n variables are spelled: base letter + index, or an explicit name list"""
    if draw(st.integers(0, 2)) < 2:
        return {'kind': 'base', 'base': draw(st.sampled_from(BASE_POOL))}
    names = draw(st.lists(st.sampled_from(NAME_POOL), min_size=n, max_size=n, unique=True))
    return {'kind': 'names', 'names': names}


def names_of(scheme, n):
    if scheme['kind'] == 'base':
        return [scheme['base'] + str(i) for i in range(n)]
    return list(scheme['names'])[:n]


def scheme_label(scheme, n):
    if scheme['kind'] == 'names':
        return 'names:list'
    return 'names:%s%s' % ('x' if scheme['base'] == 'x' else 'other-base', '-n>10' if n > 10 else '')


def parser_kwargs(scheme, n, pass_nvars, locs=None, tol=None, rel=None):
    """keyword arguments for generate_solvers / generate_conditions (fresh dicts: they are mutated)"""
    kw = {}
    if scheme['kind'] == 'base':
        if scheme['base'] != 'x' or pass_nvars:
            kw['variables'] = scheme['base']
    else:
        kw['variables'] = list(scheme['names'])[:n]
    if pass_nvars:
        kw['nvars'] = n
    loc = dict(locs or {})
    if tol is not None:
        loc['tol'] = tol
    if rel is not None:
        loc['rel'] = rel
    if loc or pass_nvars:
        kw['locals'] = loc
    return kw


def tolerances():
    """(tol, rel) for ``locals``; None = leave the default (1e-15)"""
    return st.sampled_from([(None, None)] * 9 + [(1e-15, 1e-15), (1e-9, None), (None, 1e-9), (1e-3, 1e-6),
                                                 (0.5, None), (0.0, 1e-12), (1e-6, 0.0), (0.0, 0.0), (1e-20, 0.0)])


def locals_dicts():
    return st.one_of(st.just({}), st.just({}),
                     st.dictionaries(st.sampled_from(LOCAL_NAMES), st.one_of(short_decimals(), st.integers(-5, 5)),
                                     min_size=1, max_size=2))


# ------------------------------------------------------------------------------ tree generator
def _var(draw, avars):
    return ['v', draw(st.sampled_from(avars))]


def _atom(draw, avars, locs):
    choices = ['c']
    if avars:
        choices += ['v', 'v', 'cv', 'cv', 'cv']
    if locs:
        choices += ['L']
    k = draw(st.sampled_from(choices))
    if k == 'c':
        return ['c', draw(consts())]
    if k == 'v':
        return _var(draw, avars)
    if k == 'L':
        return ['L', draw(st.sampled_from(sorted(locs)))]
    c = ['c', draw(coefs())]
    v = _var(draw, avars)
    return ['mul', c, v] if draw(st.booleans()) else ['mul', v, c]


def _lin(draw, avars, locs):
    terms = [_atom(draw, avars, locs) for _ in range(draw(st.integers(1, 3)))]
    if draw(st.booleans()):
        terms.append(['c', draw(consts())])
    return terms[0] if len(terms) == 1 else ['add'] + terms


def _pos_const(draw):
    return ['c', draw(st.sampled_from([1.0, 0.5, 2, 1e-3, 100.0, 0.1]))]


def _tree(draw, avars, locs, depth):
    if depth <= 0:
        return _lin(draw, avars, locs)
    k = draw(st.sampled_from(['lin', 'lin', 'add', 'sub', 'mul', 'div', 'neg', 'abs', 'min', 'max', 'sqrt']))
    sub = lambda: _tree(draw, avars, locs, depth - 1)
    if k == 'lin':
        return _lin(draw, avars, locs)
    if k == 'add':
        return ['add'] + [sub() for _ in range(draw(st.integers(2, 3)))]
    if k == 'sub':
        return ['sub', sub(), sub()]
    if k == 'mul':      # product by a single factor
        a, b = sub(), _atom(draw, avars, locs)
        return ['mul', a, b] if draw(st.booleans()) else ['mul', b, a]
    if k == 'div':
        dk = draw(st.sampled_from(['const', 'abs+c', 'var'] if avars else ['const', 'abs+c']))
        if dk == 'const':
            d = ['c', draw(consts().filter(lambda c: c != 0))]
        elif dk == 'abs+c':
            d = ['add', ['abs', sub()], _pos_const(draw)]
        else:
            d = _var(draw, avars)
        return ['div', sub(), d]
    if k == 'neg':
        return ['neg', sub()]
    if k == 'abs':
        return ['abs', sub()]
    if k in ('min', 'max'):
        return [k, sub(), sub()]
    if avars and draw(st.booleans()):
        v = _var(draw, avars)
        return ['sqrt', ['add', ['mul', v, v], _pos_const(draw)]]
    return ['sqrt', ['abs', sub()]]


def _transcendental(draw, avars, locs):
    arg = _lin(draw, avars, locs)
    k = draw(st.sampled_from(['sin', 'cos', 'tanh', 'exp']))
    t = ['exp', ['tanh', arg]] if k == 'exp' else [k, arg]
    return ['mul', ['c', draw(st.sampled_from([1.0, 2.0, -0.5, 3, 10.0]))], t] if draw(st.booleans()) else t


@st.composite
def trees(draw, avars, locs=(), depth=2, exact=True):
    """an expression over the variables ``avars`` (indices) and the local names ``locs``"""
    avars = list(avars)
    locs = list(locs)
    t = _tree(draw, avars, locs, draw(st.integers(0, depth)))
    if exact:
        return t
    tr = _transcendental(draw, avars, locs)
    k = draw(st.sampled_from(['add', 'add', 'sub', 'min', 'max']))
    t = [k, t, tr] if draw(st.booleans()) else [k, tr, t]
    w = draw(st.sampled_from(['', '', 'abs', 'neg']))
    return [w, t] if w else t


def tree_vars(t, out=None):
    out = set() if out is None else out
    if t[0] == 'v':
        out.add(t[1])
    elif t[0] not in ('c', 'L'):
        for s in t[1:]:
            tree_vars(s, out)
    return out


def tree_ops(t, out=None):
    out = set() if out is None else out
    if t[0] not in ('c', 'v', 'L'):
        out.add(t[0])
        for s in t[1:]:
            tree_ops(s, out)
    return out


def tree_locals(t, out=None):
    out = set() if out is None else out
    if t[0] == 'L':
        out.add(t[1])
    elif t[0] not in ('c', 'v'):
        for s in t[1:]:
            tree_locals(s, out)
    return out


# ------------------------------------------------------------------------------ renderer
_PREC = {'add': 1, 'sub': 1, 'mul': 2, 'div': 2, 'neg': 3}


def _prec(t):
    if t[0] == 'c':
        return 3 if (t[1] < 0 or (t[1] == 0 and math.copysign(1.0, t[1]) < 0)) else 4
    return _PREC.get(t[0], 4)


def render(t, names, tight=False):
    """python/mystic text that parses to exactly this tree"""
    sp = '' if tight else ' '
    k = t[0]
    if k == 'c':
        return repr(t[1])
    if k == 'v':
        return names[t[1]]
    if k == 'L':
        return t[1]
    r = lambda s: render(s, names, tight)
    par = lambda s: '(' + r(s) + ')'
    if k == 'add':
        out = r(t[1])
        for s in t[2:]:
            out += sp + '+' + sp + (par(s) if _prec(s) in (1, 3) else r(s))
        return out
    if k == 'sub':
        return r(t[1]) + sp + '-' + sp + (par(t[2]) if _prec(t[2]) in (1, 3) else r(t[2]))
    if k in ('mul', 'div'):
        op = '*' if k == 'mul' else '/'
        a, b = t[1], t[2]
        left = par(a) if (_prec(a) < 2 or a[0] == 'neg') else r(a)
        right = par(b) if _prec(b) <= 3 else r(b)
        return left + op + right
    if k == 'neg':
        return '-' + (par(t[1]) if _prec(t[1]) <= 3 else r(t[1]))
    if k in ('min', 'max'):
        return '%s(%s,%s%s)' % (k, r(t[1]), sp, r(t[2]))
    return '%s(%s)' % (k, r(t[1]))


def render_line(lhs, cmp, rhs, names, tight=False, pad=''):
    sp = '' if tight else ' '
    return pad + render(lhs, names, tight) + sp + cmp + sp + render(rhs, names, tight)


# ------------------------------------------------------------------------------ interpreter
def ev(t, x, locs=None):
    """value of the tree at the point x (python arithmetic, same operation order as the text)"""
    k = t[0]
    if k == 'c':
        return t[1]
    if k == 'v':
        return x[t[1]]
    if k == 'L':
        return locs[t[1]]
    if k == 'add':
        acc = ev(t[1], x, locs)
        for s in t[2:]:
            acc = acc + ev(s, x, locs)
        return acc
    a = ev(t[1], x, locs)
    if k == 'neg':
        return -a
    if k == 'abs':
        return abs(a)
    if k == 'sqrt':
        return math.sqrt(a)
    if k == 'sin':
        return math.sin(a)
    if k == 'cos':
        return math.cos(a)
    if k == 'tanh':
        return math.tanh(a)
    if k == 'exp':
        return math.exp(a)
    b = ev(t[2], x, locs)
    if k == 'sub':
        return a - b
    if k == 'mul':
        return a * b
    if k == 'div':
        if b == 0:                      # also for numpy scalars (which would give inf and a warning)
            raise ZeroDivisionError('division by zero')
        return a / b
    if k == 'min':
        return b if b < a else a
    if k == 'max':
        return b if b > a else a
    raise AssertionError(k)


def mag(t, x, locs=None):
    """sum-of-magnitudes bound of the evaluation (scale for the comparison of inexact trees)"""
    k = t[0]
    if k in ('c', 'v', 'L'):
        return abs(float(ev(t, x, locs)))
    if k in ('add', 'sub'):
        return sum(mag(s, x, locs) for s in t[1:])
    if k == 'mul':
        return mag(t[1], x, locs) * mag(t[2], x, locs)
    if k == 'div':
        return mag(t[1], x, locs) / abs(float(ev(t[2], x, locs)))
    if k in ('neg', 'abs'):
        return mag(t[1], x, locs)
    if k in ('min', 'max'):
        return max(mag(t[1], x, locs), mag(t[2], x, locs))
    if k == 'sqrt':
        return math.sqrt(mag(t[1], x, locs))
    if k == 'exp':
        return math.exp(float(ev(t[1], x, locs)))
    return 1.0


def fuzz(t, x, locs=None):
    """comparison slack for a tree evaluated with a different libm: 0 for exact trees"""
    if not (tree_ops(t) & {'sin', 'cos', 'tanh', 'exp'}):
        return 0.0
    return 1e-11 * (mag(t, x, locs) + 1e-300)


def safe_ev(t, x, locs=None):
    """(value, None) or (None, reason) when the tree is undefined / not finite at x"""
    try:
        v = ev(t, x, locs)
    except ZeroDivisionError:
        return None, 'division-by-zero'
    except (ValueError, OverflowError):
        return None, 'domain-or-overflow'
    if not math.isfinite(v):
        return None, 'not-finite'
    return v, None


def holds(cmp, a, b):
    if cmp in ('=', '=='):
        return a == b
    if cmp == '<=':
        return a <= b
    if cmp == '<':
        return a < b
    if cmp == '>=':
        return a >= b
    if cmp == '>':
        return a > b
    if cmp == '!=':
        return a != b
    raise AssertionError(cmp)


def tolerance(f, tol, rel):
    """the documented strictness tolerance tol + |f|*rel (defaults 1e-15), as an exact Fraction"""
    tol = 1e-15 if tol is None else tol
    rel = 1e-15 if rel is None else rel
    return Fraction(tol) + abs(Fraction(f)) * Fraction(rel)


def ulp(v):
    return math.ulp(abs(float(v)))


def band_guard(f, tol, rel):
    """upper bound (Fraction) of the computed offset fl(f +- fl(tol + |f|*rel)) from f"""
    t = tolerance(f, tol, rel)
    return t * (1 + Fraction(1, 10 ** 9)) + 2 * Fraction(ulp(abs(float(f)) + float(t)))


def resolvable(f, tol, rel):
    """the tolerance is large enough to survive rounding at the magnitude of f"""
    return tolerance(f, tol, rel) >= 4 * Fraction(ulp(f))


def to_container(x, kind):
    import numpy as np
    if kind == 'array':
        return np.array([float(v) for v in x], dtype=float)
    if kind == 'intlist':
        return [int(v) if (isinstance(v, float) and v == int(v) and abs(v) <= 1000) else v for v in x]
    return list(x)


# ------------------------------------------------------------------------------ isolated-form systems
@st.composite
def isolated_systems(draw, min_lines=2):
    """2-4 relations 'x_i <cmp> f' whose left-hand variables occur in no right-hand side; optionally one of
    the same-variable companions the parser supports: 'x_i != g' next to an inequality on x_i (g the same tree
    or another one), or the closed band f <= x_i <= f + c"""
    n = draw(st.one_of(st.integers(2, 6), st.sampled_from([11, 12])))
    m = draw(st.integers(min(min_lines, 2), min(4, n)))
    lhs = draw(st.lists(st.integers(0, n - 1), min_size=m, max_size=m, unique=True))
    if n > 10 and draw(st.booleans()):
        lhs = draw(st.permutations(([1, 10, 11, 0] if n > 11 else [1, 10, 0, 2])[:m]))
    free = [j for j in range(n) if j not in lhs]
    locs = draw(locals_dicts())
    exact = draw(st.integers(0, 4)) > 0
    rels = []
    for i in lhs:
        rels.append({'i': i, 'cmp': draw(st.sampled_from(CMPS)),
                     'rhs': draw(trees(free, sorted(locs), depth=1, exact=exact))})
    extra = draw(st.sampled_from(['', '', 'neq-same', 'neq-other', 'band', 'neq-two']))
    if extra:
        r0 = rels[0]
        if extra == 'neq-two':
            # several excluded values for one variable, the first of them sitting on its (non-strict) bound
            r0['cmp'] = draw(st.sampled_from(['<=', '>=', '<=', '>=', '<', '>']))
            comps = [{'i': r0['i'], 'cmp': '!=', 'rhs': r0['rhs']}]
            for _ in range(draw(st.integers(1, 2))):
                comps.append({'i': r0['i'], 'cmp': '!=', 'rhs': draw(trees(free, sorted(locs), depth=1, exact=exact))})
            if draw(st.integers(0, 3)) == 0:
                comps = list(draw(st.permutations(comps)))
            pos = draw(st.integers(0, len(rels)))
            rels[pos:pos] = comps
            comp = None
        elif extra == 'band':
            r0['cmp'] = '>='
            comp = {'i': r0['i'], 'cmp': '<=',
                    'rhs': ['add', r0['rhs'], ['c', draw(st.sampled_from([0.0, 0.5, 2.5, 100.0]))]]}
        else:
            r0['cmp'] = draw(st.sampled_from(['<=', '>=', '<', '>']))
            comp = {'i': r0['i'], 'cmp': '!=',
                    'rhs': r0['rhs'] if extra == 'neq-same' else draw(trees(free, sorted(locs), depth=1, exact=exact))}
        if comp is not None:
            rels.insert(draw(st.integers(0, len(rels))), comp)
    tol, rel = draw(tolerances())
    return {'seed': draw(st.integers(0, 2 ** 20)), 'n': n, 'scheme': draw(schemes(n)),
            'pass_nvars': draw(st.booleans()), 'rels': rels, 'extra': extra, 'locals': locs, 'tol': tol, 'rel': rel,
            'tight': draw(st.booleans()), 'blank': draw(st.booleans())}


def system_text(case):
    names = names_of(case['scheme'], case['n'])
    lines = [render_line(['v', r['i']], r['cmp'], r['rhs'], names, case['tight'], '  ' if case['blank'] else '')
             for r in case['rels']]
    text = ('\n\n' if case['blank'] else '\n').join(lines)
    return ('\n' + text + '\n') if case['blank'] else text


def neq_tie(rels, fs, fzs, tol, rel):
    """'xi != g' next to a strict 'xi > f': the clip target f +- tolerance(f) can coincide with g only when g
    lies inside the band of f without being f; such constructed ties are outside the claim"""
    for kn, q in enumerate(rels):
        for kc, r in enumerate(rels):
            if q['cmp'] == '!=' and r['i'] == q['i'] and r['cmp'] in STRICT and \
               0 < abs(Fraction(fs[kn]) - Fraction(fs[kc])) <= 2 * band_guard(fs[kc], tol, rel) + Fraction(fzs[kc]):
                return True
    return False


def selftest(n=2000, seed=0):
    """renderer and interpreter agree with python's own parse of the rendered text"""
    import random
    from hypothesis import given, settings, seed as hseed
    bad = []

    @hseed(seed)
    @settings(max_examples=n, database=None, deadline=None)
    @given(st.data())
    def t(data):
        nv = data.draw(st.integers(1, 13))
        exact = data.draw(st.booleans())
        tr = data.draw(trees(list(range(nv)), ['KAPPA'], depth=3, exact=exact))
        _, x = data.draw(xvectors(nv))
        names = ['x%d' % i for i in range(nv)]
        txt = render(tr, names, data.draw(st.booleans()))
        ns = {'KAPPA': 2.5, 'sqrt': math.sqrt, 'sin': math.sin, 'cos': math.cos, 'tanh': math.tanh, 'exp': math.exp}
        ns.update(zip(names, x))
        a, why = safe_ev(tr, x, {'KAPPA': 2.5})
        if why:
            return
        b = eval(txt, ns)
        if not (a == b):
            bad.append((txt, x, a, b))
    t()
    return bad
