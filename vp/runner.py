"""Shared runner for the mystic property checks (see DESIGN.md section 2).

A property module ``vp.props.cNN`` exposes

    PROP   = "CNN"
    RULE   = "<how cases are generated, what makes one non-trivial>"
    ASSUME = ["...", ...]                    # assumptions / trusted base
    TESTS  = [Test(...), ...]                # generated-input tests
    KNOWN  = {kf_id: predicate(case, subcheck, detail) -> bool}   (optional)

and every Test has a ``run(case, ctx)`` that is a pure function of the plain-data
case and of the code in /repo.  Replay files bypass Hypothesis entirely.

Exit codes: 0 property held on everything explored (possibly with KNOWN-FINDING
lines), 1 violation (``VIOLATION property=<id> replay=<path>``), 2 harness error.
"""
import os, sys, json, time, hashlib, importlib, traceback, io, contextlib, glob, copy

VERIF = os.path.dirname(os.path.dirname(os.path.abspath(__file__)))
REPO = os.environ.get('VERIF_REPO', '/repo')
for _p in (os.path.join(VERIF, '.deps'),):
    if os.path.isdir(_p) and _p not in sys.path:
        sys.path.insert(1, _p)
if REPO not in sys.path:
    sys.path.insert(0, REPO)
if VERIF not in sys.path:
    sys.path.insert(0, VERIF)

NSHARDS_DEFAULT = min(16, os.cpu_count() or 1)


class Violation(Exception):
    def __init__(self, subcheck, detail):
        Exception.__init__(self, '%s: %s' % (subcheck, detail))
        self.subcheck = subcheck
        self.detail = detail


class HarnessError(Exception):
    pass


class Budget(Exception):
    """raised inside a test body to skip a case once the wall budget is used up"""


def canon(obj):
    return json.dumps(sanitize(obj), sort_keys=True, allow_nan=False, separators=(',', ':'))


def _jsonable(o):
    try:
        import numpy as np
        if isinstance(o, np.generic):
            return o.item()
        if isinstance(o, np.ndarray):
            return o.tolist()
    except Exception:
        pass
    if isinstance(o, (set, frozenset)):
        return sorted(o, key=repr)
    if isinstance(o, tuple):
        return list(o)
    if isinstance(o, bytes):
        return o.hex()
    return repr(o)


def sanitize(o):
    """plain JSON data only: numpy -> python, tuples -> lists, non-finite floats -> strings"""
    import math
    if isinstance(o, float):
        if math.isfinite(o):
            return o
        return 'nan' if o != o else ('inf' if o > 0 else '-inf')
    if isinstance(o, (str, int, bool)) or o is None:
        return o
    if isinstance(o, dict):
        return {(k if isinstance(k, str) else repr(k)): sanitize(v) for k, v in o.items()}
    if isinstance(o, (list, tuple)):
        return [sanitize(v) for v in o]
    j = _jsonable(o)
    if j is o or isinstance(j, str):
        return j
    return sanitize(j)


def jdump(obj, fh=None, **kw):
    s = json.dumps(sanitize(obj), allow_nan=False, **kw)
    if fh is not None:
        fh.write(s)
    return s


def case_hash(case):
    return hashlib.sha1(canon(case).encode()).hexdigest()


class Test(object):
    """one generated-input test of a property module

    name      : short name (sub-family of the property)
    strategy  : callable(tier) -> hypothesis strategy producing a plain-data case
                (None for machine tests)
    run       : callable(case, ctx) -> None; uses ctx.expect / ctx.label / ctx.nontrivial
    examples  : {'quick': n, 'thorough': n} total over all shards
    machine   : callable(tier) -> RuleBasedStateMachine subclass built on TraceMachine
    steps     : {'quick': n, 'thorough': n} stateful_step_count
    shrink    : {'quick': bool, 'thorough': bool}
    """
    def __init__(self, name, run, strategy=None, machine=None, examples=None,
                 steps=None, shrink=None, shards=None, fuzz=None):
        self.name = name
        self.run = run
        self.strategy = strategy
        self.machine = machine
        self.examples = examples or {'quick': 200, 'thorough': 5000}
        self.steps = steps or {'quick': 20, 'thorough': 50}
        self.shrink = shrink or {'quick': True, 'thorough': True}
        self.shards = shards
        # libFuzzer executions per shard for the coverage-guided driver (vp/fuzz.py); None = module default
        self.fuzz = fuzz


class Ctx(object):
    """per-case context handed to run(case, ctx)"""
    def __init__(self, prop, known, open_ids, case=None):
        self.prop = prop
        self.known = known or {}
        self.open_ids = open_ids
        self.case = case
        self.labels = []
        self.is_nontrivial = False
        self.kf_hits = []
        self.excluded = []
        self.subchecks = {}
        self.tmpdirs = []

    # -- oracle verdicts --------------------------------------------------
    def expect(self, ok, subcheck, detail=None):
        """record the verdict of one sub-check; returns ok.
        A failure that matches an *open* known finding is counted and the case
        continues; any other failure raises Violation."""
        ok = bool(ok)
        c = self.subchecks.setdefault(subcheck, [0, 0])
        c[0] += 1
        if ok:
            return True
        c[1] += 1
        if callable(detail):
            detail = detail()
        for kid in self.open_ids:
            pred = self.known.get(kid)
            if pred is None:
                continue
            try:
                hit = pred(self.case, subcheck, detail)
            except Exception:
                hit = False
            if hit:
                self.kf_hits.append(kid)
                return False
        raise Violation(subcheck, detail)

    def label(self, *names):
        for n in names:
            if n not in self.labels:
                self.labels.append(n)

    def nontrivial(self, flag=True):
        if flag:
            self.is_nontrivial = True

    def exclude(self, reason):
        self.excluded.append(reason)

    def mkdtemp(self):
        import tempfile
        d = tempfile.mkdtemp(prefix='vp-%s-' % self.prop)
        self.tmpdirs.append(d)
        return d

    def cleanup(self):
        import shutil
        for d in self.tmpdirs:
            shutil.rmtree(d, ignore_errors=True)
        self.tmpdirs = []


class Collector(object):
    def __init__(self):
        self.cases = 0
        self.nontrivial = set()
        self.labels = {}
        self.samples = []
        self.kf_hits = {}
        self.excluded = {}
        self.subchecks = {}
        self.last_failure = None
        self.failures = 0
        self.budget_skipped = 0
        self.first_fail_at = None

    def add(self, case, ctx):
        self.cases += 1
        for l in ctx.labels:
            self.labels[l] = self.labels.get(l, 0) + 1
        for k in ctx.kf_hits:
            self.kf_hits[k] = self.kf_hits.get(k, 0) + 1
        for e in ctx.excluded:
            self.excluded[e] = self.excluded.get(e, 0) + 1
        for k, (n, f) in ctx.subchecks.items():
            c = self.subchecks.setdefault(k, [0, 0])
            c[0] += n; c[1] += f
        if ctx.is_nontrivial:
            h = case_hash(case)
            if h not in self.nontrivial:
                self.nontrivial.add(h)
                # sample a little way into the run: the first generated cases are the minimal ones
                if len(self.nontrivial) in (1, 12, 60):
                    self.samples.append(json.loads(jdump(case)))
                    self.samples = self.samples[-2:]

    def dump(self):
        return dict(cases=self.cases, nontrivial=sorted(self.nontrivial), labels=self.labels,
                    samples=self.samples, kf_hits=self.kf_hits, excluded=self.excluded,
                    subchecks=self.subchecks, failures=self.failures,
                    budget_skipped=self.budget_skipped, first_fail_at=self.first_fail_at)


def load_known(prop):
    path = os.path.join(VERIF, 'known_findings.json')
    if not os.path.exists(path):
        return []
    with open(path) as fh:
        data = json.load(fh)
    return [e for e in data.get('findings', []) if e.get('property') == prop]


def open_ids_for(prop):
    ignore = [x for x in os.environ.get('VP_IGNORE_KNOWN', '').split(',') if x]   # harvesting tool only
    return [e['id'] for e in load_known(prop) if e.get('status') == 'open' and e['id'] not in ignore]


def _in_repo_frames(tb):
    """innermost traceback frame that lies in the code under test (or None)"""
    hit = None
    root = os.path.join(os.path.realpath(REPO), 'mystic') + os.sep
    for fs in traceback.extract_tb(tb):
        fn = os.path.realpath(fs.filename)
        if fn.startswith(root) and (os.sep + 'tests' + os.sep) not in fn:
            hit = fs
    return hit


def guarded(ctx, fn, testname=''):
    """run fn() with stdout captured and numpy error state restored; exceptions
    escaping the code under test become the sub-check <prop>.no_crash."""
    out = io.StringIO()
    import numpy as np
    olderr = np.geterr()
    try:
        with contextlib.redirect_stdout(out):
            try:
                return fn()
            except (Violation, Budget):
                raise
            except (KeyboardInterrupt, SystemExit, MemoryError):
                raise
            except Exception as e:
                if type(e).__module__.startswith('hypothesis'):
                    raise
                fs = _in_repo_frames(e.__traceback__)
                if fs is None:
                    raise HarnessError('harness exception in %s/%s: %s\n%s' % (
                        ctx.prop, testname, repr(e), traceback.format_exc()))
                detail = {'exception': type(e).__name__, 'message': str(e)[:300],
                          'at': '%s:%s in %s' % (os.path.relpath(fs.filename, REPO), fs.lineno, fs.name)}
                # an exception escaping the code under test on an in-domain input
                ctx.expect(False, ctx.prop + '.no_crash', detail)
    finally:
        np.seterr(**olderr)


def run_case(test, case, prop, known, open_ids):
    """execute one case; returns ctx.  Raises Violation / HarnessError."""
    ctx = Ctx(prop, known, open_ids, case)
    try:
        guarded(ctx, lambda: test.run(case, ctx), test.name)
    finally:
        ctx.cleanup()
    return ctx


class Hooks(object):
    """what a state machine needs from the worker"""
    def __init__(self, col, prop, test, known, open_ids, t0, budget_s):
        self.col = col; self.prop = prop; self.test = test
        self.known = known; self.open_ids = open_ids
        self.t0 = t0; self.budget_s = budget_s

    def over_budget(self):
        return time.time() - self.t0 > self.budget_s and self.col.last_failure is None

    def new_ctx(self, case):
        return Ctx(self.prop, self.known, self.open_ids, case)

    def failed(self, case, v):
        col = self.col
        col.failures += 1
        if col.first_fail_at is None:
            col.first_fail_at = col.cases + 1
        col.last_failure = {'case': json.loads(jdump(case)), 'subcheck': v.subcheck,
                            'detail': json.loads(jdump(v.detail))}

    def done(self, case, ctx):
        self.col.add(case, ctx)


def trace_machine_base(hooks):
    """base class for RuleBasedStateMachine tests whose *case* is the trace of
    operations: subclasses define OPEN(case, ctx) -> state, APPLY(state, op, ctx)
    and CLOSE(state) as staticmethods, call self.start(header) from an
    @initialize rule and self.do(op) from every rule."""
    from hypothesis.stateful import RuleBasedStateMachine

    class TraceMachine(RuleBasedStateMachine):
        def __init__(self):
            RuleBasedStateMachine.__init__(self)
            self.case = None; self.ctx = None; self.state = None
            self.bad = False; self.skip = hooks.over_budget()
            if self.skip:
                hooks.col.budget_skipped += 1

        def start(self, header):
            if self.skip:
                return
            self.case = dict(header)
            self.case['ops'] = []
            self.ctx = hooks.new_ctx(self.case)
            self._g(lambda: setattr(self, 'state', self.OPEN(self.case, self.ctx)))

        def _g(self, fn):
            try:
                return guarded(self.ctx, fn, hooks.test.name)
            except Violation as v:
                self.bad = True
                hooks.failed(self.case, v)
                raise

        def do(self, op):
            if self.skip or self.case is None:
                return
            self.case['ops'].append(op)
            self._g(lambda: self.APPLY(self.state, op, self.ctx))

        def teardown(self):
            try:
                if self.state is not None:
                    try:
                        self.CLOSE(self.state)
                    except Exception:
                        pass
                if self.ctx is not None:
                    self.ctx.cleanup()
                    if not self.bad and self.case is not None:
                        hooks.done(self.case, self.ctx)
            finally:
                self.state = None

    return TraceMachine


def fold_run(OPEN, APPLY, CLOSE):
    """the replay-side twin of a TraceMachine: fold APPLY over the recorded ops"""
    def run(case, ctx):
        state = OPEN(case, ctx)
        try:
            for op in case.get('ops', []):
                APPLY(state, op, ctx)
        finally:
            try:
                CLOSE(state)
            except Exception:
                pass
    return run


# ---------------------------------------------------------------------------
# worker: runs one test of one property in one shard

def _worker(args):
    prop, tname, tier, seed, n_examples, budget_s, shard = args
    os.environ['VP_SHARD'] = str(shard)
    import warnings
    warnings.filterwarnings('ignore')
    t0 = time.time()
    res = {'test': tname, 'shard': shard, 'seed': seed, 'status': 'ok'}
    col = Collector()
    try:
        import hypothesis
        from hypothesis import given, settings, HealthCheck, Phase, seed as hseed
        mod = importlib.import_module('vp.props.%s' % prop.lower())
        test = [t for t in mod.TESTS if t.name == tname][0]
        known = getattr(mod, 'KNOWN', {})
        open_ids = open_ids_for(prop)
        phases = [Phase.explicit, Phase.generate, Phase.target]
        if test.shrink.get(tier, True):
            phases.append(Phase.shrink)
        st = settings(max_examples=max(1, n_examples), database=None, deadline=None,
                      derandomize=False, report_multiple_bugs=False, phases=phases,
                      suppress_health_check=[HealthCheck.too_slow, HealthCheck.data_too_large],
                      stateful_step_count=test.steps.get(tier, 20),
                      verbosity=hypothesis.Verbosity.quiet)

        hooks = Hooks(col, prop, test, known, open_ids, t0, budget_s)

        def body(case):
            if hooks.over_budget():
                col.budget_skipped += 1
                return
            try:
                ctx = run_case(test, case, prop, known, open_ids)
            except Violation as v:
                hooks.failed(case, v)
                raise
            col.add(case, ctx)

        try:
            if test.machine is not None:
                from hypothesis.stateful import run_state_machine_as_test
                cls = test.machine(tier, trace_machine_base(hooks))
                run_state_machine_as_test(hseed(seed)(cls), settings=st)
            else:
                strat = test.strategy(tier)

                @hseed(seed)
                @settings(st)
                @given(strat)
                def t(case):
                    body(case)
                t()
        except Violation:
            res['status'] = 'violation'
        except HarnessError as e:
            res['status'] = 'harness'
            res['error'] = str(e)
        except BaseException as e:
            name = type(e).__name__
            if col.last_failure is not None and name in ('Flaky', 'FlakyFailure', 'FlakyStrategyDefinition'):
                # the shrunk example did not fail again: keep the recorded failure, flag it
                res['status'] = 'violation'
                res['flaky'] = True
            elif col.last_failure is not None and isinstance(e, Exception) and _has_violation(e):
                res['status'] = 'violation'
            else:
                res['status'] = 'harness'
                res['error'] = '%s: %s\n%s' % (name, e, traceback.format_exc())
    except BaseException as e:
        res['status'] = 'harness'
        res['error'] = '%s: %s\n%s' % (type(e).__name__, e, traceback.format_exc())
    res['collector'] = col.dump()
    res['failure'] = col.last_failure
    res['wall_s'] = time.time() - t0
    return res


class _Terminate(BaseException):
    """raised in a worker by SIGTERM from the parent's wall guard"""


def _child(job, conn):
    import signal

    def term(*a):
        raise _Terminate()
    try:
        signal.signal(signal.SIGTERM, term)
        res = _worker(job)
    except BaseException as e:
        res = {'test': job[1], 'shard': job[6], 'seed': job[3], 'status': 'harness',
               'error': 'worker: %s: %s' % (type(e).__name__, e), 'collector': Collector().dump(),
               'failure': None, 'wall_s': 0.0}
    try:
        signal.signal(signal.SIGTERM, signal.SIG_DFL)
        conn.send(res)
        conn.close()
    finally:
        sys.stdout.flush()
        os._exit(0)


def run_jobs(jobs, nproc, hard_s):
    """run every job in its own forked process (at most nproc at a time), forked from this
    single-threaded parent.  A worker that exits without a result is a harness error for its
    shard; one that exceeds the outer wall guard is terminated and its shard is inconclusive
    (what it had collected is kept when it can still answer)."""
    import multiprocessing as mp
    from multiprocessing.connection import wait
    ctxmp = mp.get_context('fork')
    pending = list(enumerate(jobs))
    running = {}          # conn -> (index, job, process, t_start, t_termed)
    results = [None] * len(jobs)

    def lost(job, status, msg, wall):
        return {'test': job[1], 'shard': job[6], 'seed': job[3], 'status': status, 'error': msg,
                'collector': Collector().dump(), 'failure': None, 'wall_s': wall}

    while pending or running:
        while pending and len(running) < nproc:
            i, job = pending.pop(0)
            rd, wr = ctxmp.Pipe(duplex=False)
            sys.stdout.flush()
            p = ctxmp.Process(target=_child, args=(job, wr))
            p.daemon = True
            p.start()
            wr.close()
            running[rd] = [i, job, p, time.time(), None]
        ready = wait(list(running), timeout=0.5)
        now = time.time()
        for rd in ready:
            i, job, p, ts, tt = running.pop(rd)
            try:
                res = rd.recv()
                if tt is not None and res.get('status') != 'violation':
                    res['status'] = 'timeout'
                    res['error'] = 'terminated by the outer wall guard after %.0f s' % (now - ts)
            except (EOFError, OSError):
                p.join(5)
                if tt is not None:
                    res = lost(job, 'timeout', 'killed by the outer wall guard after %.0f s' % (now - ts), now - ts)
                else:
                    res = lost(job, 'harness', 'worker exited without a result (exit code %s)' % p.exitcode, now - ts)
            rd.close()
            p.join(5)
            if p.is_alive():
                p.kill(); p.join(5)
            results[i] = res
        for rd, rec in list(running.items()):
            i, job, p, ts, tt = rec
            if tt is None and now - ts > hard_s:
                rec[4] = now
                try: p.terminate()
                except Exception: pass
            elif tt is not None and now - tt > 10:
                try: p.kill()
                except Exception: pass
    return results


def _has_violation(e):
    seen = set()
    stack = [e]
    while stack:
        x = stack.pop()
        if id(x) in seen or x is None:
            continue
        seen.add(id(x))
        if isinstance(x, Violation):
            return True
        stack.extend([x.__cause__, x.__context__])
        stack.extend(getattr(x, 'exceptions', []) or [])
    return False


# ---------------------------------------------------------------------------
# replay

def replay_file(mod, path, quiet=False):
    """returns (status, info); status in 'pass', 'known', 'violation'"""
    with open(path) as fh:
        rec = json.load(fh)
    tname = rec.get('test')
    tests = [t for t in mod.TESTS if t.name == tname] or mod.TESTS[:1]
    test = tests[0]
    known = getattr(mod, 'KNOWN', {})
    open_ids = open_ids_for(mod.PROP)
    try:
        ctx = run_case(test, rec['case'], mod.PROP, known, open_ids)
    except Violation as v:
        return 'violation', {'subcheck': v.subcheck, 'detail': v.detail}
    if ctx.kf_hits:
        return 'known', {'hits': ctx.kf_hits}
    return 'pass', {'labels': ctx.labels, 'nontrivial': ctx.is_nontrivial}


def write_replay(prop, failure, test, seed, tag='viol'):
    d = os.path.join(VERIF, 'replays', prop)
    os.makedirs(d, exist_ok=True)
    rec = {'property': prop, 'test': test, 'subcheck': failure['subcheck'],
           'detail': failure['detail'], 'case': failure['case'], 'seed': seed}
    h = case_hash(failure['case'])[:10]
    path = os.path.join(d, '%s-%s-%s.json' % (tag, test, h))
    with open(path, 'w') as fh:
        jdump(rec, fh, indent=1, sort_keys=True)
    return os.path.relpath(path, VERIF)


# ---------------------------------------------------------------------------
# coverage-guided extra (thorough tier): the same tests driven by libFuzzer through atheris

def run_fuzz(prop, tests, runs_default, seed, nshards, wall_s):
    """one subprocess per (test, shard): python -m vp.fuzz ...; returns (summaries, violations, errors)"""
    import subprocess, tempfile
    try:
        sys.path.insert(1, os.path.join(VERIF, '.deps'))
        import atheris  # noqa
    except Exception as e:
        return {'skipped': 'atheris is not importable (%s): run setup.sh' % e}, [], []
    d = tempfile.mkdtemp(prefix='vp-fuzz-')
    jobs = []
    for ti, t in enumerate(tests):
        if t.machine is not None:
            continue
        runs = t.fuzz if t.fuzz is not None else runs_default
        if not runs:
            continue
        for sh in range(nshards):
            out = os.path.join(d, '%s-%d.json' % (t.name, sh))
            jobs.append((t.name, sh, out, [sys.executable, '-m', 'vp.fuzz', prop, t.name, '--runs', str(int(runs)),
                                           '--seed', str(seed * 1000 + ti * 100 + sh + 1), '--out', out]))
    env = dict(os.environ, PYTHONHASHSEED='0', PYTHONDONTWRITEBYTECODE='1',
               PYTHONPATH=VERIF + os.pathsep + os.environ.get('PYTHONPATH', ''))
    running = []; pending = list(jobs); t0 = time.time()
    summaries = {}; violations = []; errors = []
    def reap(name, sh, out, p, log):
        try:
            with open(out) as fh:
                sm = json.load(fh)
        except Exception:
            sm = {'cases': 0, 'nontrivial': 0, 'status': 'lost'}
        acc = summaries.setdefault(name, {'cases': 0, 'nontrivial': 0, 'shards': 0, 'wall_s': 0.0, 'status': {}})
        acc['cases'] += sm.get('cases', 0); acc['nontrivial'] += sm.get('nontrivial', 0); acc['shards'] += 1
        acc['wall_s'] = max(acc['wall_s'], sm.get('wall_s', 0.0))
        stt = sm.get('status', 'lost')
        if p.returncode == 0 and stt == 'running':
            stt = 'done'
        acc['status'][stt] = acc['status'].get(stt, 0) + 1
        if sm.get('violation'):
            violations.append((sm['violation']['replay'], {'subcheck': sm['violation']['subcheck'], 'engine': 'atheris', 'test': name}))
        elif p.returncode not in (0, None) and stt not in ('violation',):
            try:
                tail = open(log).read()[-600:]
            except Exception:
                tail = ''
            if stt == 'harness' or p.returncode == 2:
                errors.append('fuzz %s shard %d: %s' % (name, sh, tail))
    while pending or running:
        while pending and len(running) < nshards:
            name, sh, out, cmd = pending.pop(0)
            log = out + '.log'
            p = subprocess.Popen(cmd, cwd=VERIF, env=env, stdout=open(log, 'w'), stderr=subprocess.STDOUT)
            running.append((name, sh, out, p, log, time.time()))
        time.sleep(0.5)
        for r in list(running):
            if r[3].poll() is not None:
                running.remove(r); reap(*r[:5])
            elif time.time() - r[5] > wall_s:          # per process; what it had counted so far is kept
                r[3].kill(); r[3].wait(); running.remove(r); reap(*r[:5])
    import shutil
    shutil.rmtree(d, ignore_errors=True)
    return summaries, violations, errors


# ---------------------------------------------------------------------------
# main

def main(argv=None):
    argv = list(sys.argv[1:] if argv is None else argv)
    if os.environ.get('PYTHONHASHSEED') != '0':
        env = dict(os.environ, PYTHONHASHSEED='0', PYTHONDONTWRITEBYTECODE='1')
        os.execve(sys.executable, [sys.executable, '-m', 'vp'] + argv, env)
    import warnings
    warnings.filterwarnings('ignore')
    import argparse
    ap = argparse.ArgumentParser()
    ap.add_argument('prop')
    ap.add_argument('--tier', default=os.environ.get('VERIF_TIER', 'quick'))
    ap.add_argument('--replay', default=None)
    ap.add_argument('--seed', type=int, default=None)
    ap.add_argument('--shards', type=int, default=None)
    ap.add_argument('--only', default=None, help='run only the named test(s), comma separated')
    ap.add_argument('--scale', type=float, default=1.0, help='multiply example counts')
    ap.add_argument('--no-evidence', action='store_true')
    ap.add_argument('--fuzz', type=int, default=None,
                    help='libFuzzer executions per shard and @given test (default: the module FUZZ value in the thorough tier, 0 = off)')
    a = ap.parse_args(argv)
    prop = a.prop.upper()
    tier = a.tier if a.tier in ('quick', 'thorough') else 'quick'
    seed = a.seed if a.seed is not None else int(os.environ.get('VERIF_SEED', '1') or 1)
    t0 = time.time()
    try:
        import mystic
        here = os.path.realpath(os.path.dirname(mystic.__file__))
        if not here.startswith(os.path.realpath(REPO)):
            print('HARNESS-ERROR: mystic imported from %s, not %s' % (here, REPO))
            return 2
        mod = importlib.import_module('vp.props.%s' % prop.lower())
    except Exception:
        print('HARNESS-ERROR: cannot import\n' + traceback.format_exc())
        return 2

    if a.replay:
        path = a.replay if os.path.isabs(a.replay) else os.path.join(VERIF, a.replay)
        try:
            status, info = replay_file(mod, path)
        except HarnessError as e:
            print('HARNESS-ERROR: %s' % e)
            return 2
        print('replay %s: %s %s' % (a.replay, status, jdump(info)))
        if status == 'violation':
            print('VIOLATION property=%s replay=%s' % (prop, a.replay))
            return 1
        return 0

    known_entries = load_known(prop)
    open_entries = [e for e in known_entries if e.get('status') == 'open']
    violations = []
    harness_errors = []
    replayed = []

    # 1. replay tier: committed regression inputs
    for path in sorted(glob.glob(os.path.join(VERIF, 'replays', prop, '*.json'))):
        rel = os.path.relpath(path, VERIF)
        try:
            status, info = replay_file(mod, path)
        except HarnessError as e:
            harness_errors.append('replay %s: %s' % (rel, e))
            continue
        replayed.append({'file': rel, 'status': status})
        base = os.path.basename(path)
        if status == 'violation':
            violations.append((rel, info))
        elif base.startswith('kf-') and status == 'pass':
            print('note: recorded known-finding input %s no longer fails' % rel)

    # 2. generated tier
    tests = mod.TESTS
    if a.only:
        names = a.only.split(',')
        tests = [t for t in tests if t.name in names]
    jobs = []
    nsh_default = a.shards or NSHARDS_DEFAULT
    budget_s = float(os.environ.get('VERIF_BUDGET_S', 0) or (150 if tier == 'quick' else 3000))
    for ti, t in enumerate(tests):
        total = int(max(1, t.examples.get(tier, 100) * a.scale))
        nsh = min(t.shards or nsh_default, nsh_default, total)
        per = (total + nsh - 1) // nsh
        for s in range(nsh):
            jobs.append((prop, t.name, tier, seed * 100000 + ti * 1000 + s, per, budget_s, s))
    results = []
    if jobs:
        nproc = min(len(jobs), nsh_default)
        hard_s = float(os.environ.get('VERIF_HARD_S', 0) or (2 * budget_s + 120))
        results = run_jobs(jobs, nproc, hard_s)

    # 3. merge
    total_cases = 0
    nontriv = set()
    labels = {}
    kf_hits = {}
    excluded = {}
    subchecks = {}
    samples = []
    per_test = {}
    budget_skipped = 0
    inconclusive = []
    for r in results:
        c = r['collector']
        total_cases += c['cases']
        nontriv.update(c['nontrivial'])
        budget_skipped += c['budget_skipped']
        for k, v in c['labels'].items(): labels[k] = labels.get(k, 0) + v
        for k, v in c['kf_hits'].items(): kf_hits[k] = kf_hits.get(k, 0) + v
        for k, v in c['excluded'].items(): excluded[k] = excluded.get(k, 0) + v
        for k, (n, f) in c['subchecks'].items():
            sc = subchecks.setdefault(k, [0, 0]); sc[0] += n; sc[1] += f
        pt = per_test.setdefault(r['test'], {'cases': 0, 'nontrivial': 0, 'wall_s': 0.0})
        pt['cases'] += c['cases']; pt['nontrivial'] += len(c['nontrivial'])
        pt['wall_s'] = max(pt['wall_s'], round(r['wall_s'], 2))
        for s in c['samples']:
            if sum(1 for x in samples if x['test'] == r['test']) < 2 and len(samples) < 8:
                samples.append({'test': r['test'], 'case': s})
        if r['status'] == 'violation' and r['failure'] is not None:
            rel = write_replay(prop, r['failure'], r['test'], r['seed'])
            violations.append((rel, {'subcheck': r['failure']['subcheck'],
                                     'detail': r['failure']['detail'],
                                     'flaky': r.get('flaky', False),
                                     'after_cases': c.get('first_fail_at')}))
        elif r['status'] == 'harness':
            harness_errors.append('%s shard %s: %s' % (r['test'], r['shard'], r.get('error')))
        elif r['status'] == 'timeout':
            inconclusive.append('%s shard %s: %s' % (r['test'], r['shard'], r.get('error')))

    # 4. coverage-guided extra
    fuzz_runs = a.fuzz if a.fuzz is not None else (getattr(mod, 'FUZZ', 0) if tier == 'thorough' else 0)
    fuzz_summary = None
    if fuzz_runs and tests:
        fuzz_summary, fv, fe = run_fuzz(prop, tests, fuzz_runs, seed, nsh_default, budget_s)
        violations.extend(fv)
        harness_errors.extend(fe)
    wall = time.time() - t0
    if not samples and results:
        samples = [{'note': 'no non-trivial case in this run'}]
    ev = {
        'property_id': prop, 'tier': tier, 'seed': seed, 'level': 'exploration',
        'coverage': {
            'evaluations': total_cases,
            'distinct_nontrivial': len(nontriv),
            'rule': getattr(mod, 'RULE', ''),
            'samples': samples,
            'per_test': per_test,
            'subchecks': {k: {'evaluated': v[0], 'failed': v[1]} for k, v in sorted(subchecks.items())},
            'classes': dict(sorted(labels.items())),
            'excluded': excluded,
            'known_finding_hits': kf_hits,
            'replayed': replayed,
            'budget_skipped_cases': budget_skipped,
            'inconclusive_shards': inconclusive,
            'atheris': fuzz_summary,
            'shards': nsh_default,
            'exhaustive': False,
        },
        'assumptions': list(getattr(mod, 'ASSUME', [])),
        'wall_s': round(wall, 2),
        'violations': len(violations),
    }
    if not a.no_evidence and not a.only:
        os.makedirs(os.path.join(VERIF, 'evidence'), exist_ok=True)
        with open(os.path.join(VERIF, 'evidence', prop + '.json'), 'w') as fh:
            jdump(ev, fh, indent=1)

    print('%s tier=%s seed=%d cases=%d nontrivial=%d wall=%.1fs%s' % (
        prop, tier, seed, total_cases, len(nontriv), wall,
        (' budget_skipped=%d (inconclusive part)' % budget_skipped) if budget_skipped else ''))
    for k, v in sorted(per_test.items()):
        print('  test %-14s cases=%-7d nontrivial=%-7d wall=%.1fs' % (k, v['cases'], v['nontrivial'], v['wall_s']))
    for k, v in sorted((fuzz_summary or {}).items()):
        if not isinstance(v, dict):
            print('  fuzz: %s %s' % (k, v)); continue
        print('  fuzz %-14s cases=%-7d nontrivial=%-7d wall=%.1fs shards=%s' % (k, v['cases'], v['nontrivial'], v['wall_s'], v['status']))
    if os.environ.get('VP_VERBOSE'):
        print('  classes: ' + jdump(dict(sorted(labels.items()))))
        print('  subchecks: ' + jdump(ev['coverage']['subchecks']))
        print('  excluded: ' + jdump(excluded))
    for m in inconclusive:
        print('note: inconclusive (wall guard, not a violation): ' + m)
    for e in open_entries:
        print('KNOWN-FINDING: property=%s %s [%s; hits this run: %d]' % (
            prop, e.get('what', ''), e['id'], kf_hits.get(e['id'], 0)))
    if harness_errors:
        for h in harness_errors:
            print('HARNESS-ERROR: ' + str(h)[:4000])
        if not violations:
            return 2
    if violations:
        for rel, info in violations:
            print('  failing sub-check: %s' % jdump(info)[:1500])
            print('VIOLATION property=%s replay=%s' % (prop, rel))
        return 1
    return 0


if __name__ == '__main__':
    sys.exit(main())
