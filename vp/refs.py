"""Harness-owned reference implementations (immune to changes in /repo):
the classic scipy.optimize.fmin Nelder-Mead loop, Powell's direction-set method as in
scipy.optimize.fmin_powell (given a line search), and the DE mutation formulas."""
import itertools
import numpy as np


# --------------------------------------------------------------------------- Nelder-Mead (scipy.optimize.fmin)
def nelder_mead(f, x0, xtol=1e-4, ftol=1e-4, maxiter=None, maxfun=None, trace=None, margins=None, zdelt=0.00025, adaptive=False):
    """transcription of scipy.optimize.fmin (non-adaptive).  Returns (x, fval, iterations, fcalls, warnflag).
    trace: list receiving (sim, fsim) copies after the simplex is built and after every iteration.
    margins: list receiving the relative margin of every decisive comparison (near-tie guard)."""
    calls = [0]

    def func(x):
        calls[0] += 1
        return f(x)

    def note(a, b):
        if margins is not None:
            a = float(a); b = float(b)
            if np.isfinite(a) and np.isfinite(b):
                margins.append(abs(a - b) / max(abs(a), abs(b), 1e-300))

    x0 = np.asarray(x0, dtype=float).flatten()
    N = len(x0)
    if maxiter is None: maxiter = N * 200
    if maxfun is None: maxfun = N * 200
    if adaptive:     # Gao & Han's dimension-dependent coefficients, as in scipy's minimize(..., options={'adaptive': True})
        dim = float(N)
        rho = 1; chi = 1 + 2 / dim; psi = 0.75 - 1 / (2 * dim); sigma = 1 - 1 / dim
    else:
        rho = 1; chi = 2; psi = 0.5; sigma = 0.5
    one2np1 = list(range(1, N + 1))
    sim = np.zeros((N + 1, N), dtype=x0.dtype)
    fsim = np.zeros((N + 1,), float)
    sim[0] = x0
    fsim[0] = func(x0)
    nonzdelt = 0.05
    for k in range(0, N):
        y = np.array(x0, copy=True)
        if y[k] != 0:
            y[k] = (1 + nonzdelt) * y[k]
        else:
            y[k] = zdelt
        sim[k + 1] = y
        fsim[k + 1] = func(y)
    ind = np.argsort(fsim)
    _gaps(fsim, margins)
    fsim = np.take(fsim, ind, 0)
    sim = np.take(sim, ind, 0)
    iterations = 1
    if trace is not None: trace.append((sim.copy(), fsim.copy()))
    while calls[0] < maxfun and iterations < maxiter:
        dx = np.max(np.ravel(np.abs(sim[1:] - sim[0]))); df = np.max(np.abs(fsim[0] - fsim[1:]))
        note(dx, xtol); note(df, ftol)
        if dx <= xtol and df <= ftol:
            break
        xbar = np.add.reduce(sim[:-1], 0) / N
        xr = (1 + rho) * xbar - rho * sim[-1]
        fxr = func(xr)
        doshrink = 0
        note(fxr, fsim[0])
        if fxr < fsim[0]:
            xe = (1 + rho * chi) * xbar - rho * chi * sim[-1]
            fxe = func(xe)
            note(fxe, fxr)
            if fxe < fxr:
                sim[-1] = xe; fsim[-1] = fxe
            else:
                sim[-1] = xr; fsim[-1] = fxr
        else:
            note(fxr, fsim[-2])
            if fxr < fsim[-2]:
                sim[-1] = xr; fsim[-1] = fxr
            else:
                note(fxr, fsim[-1])
                if fxr < fsim[-1]:
                    xc = (1 + psi * rho) * xbar - psi * rho * sim[-1]
                    fxc = func(xc)
                    note(fxc, fxr)
                    if fxc <= fxr:
                        sim[-1] = xc; fsim[-1] = fxc
                    else:
                        doshrink = 1
                else:
                    xcc = (1 - psi) * xbar + psi * sim[-1]
                    fxcc = func(xcc)
                    note(fxcc, fsim[-1])
                    if fxcc < fsim[-1]:
                        sim[-1] = xcc; fsim[-1] = fxcc
                    else:
                        doshrink = 1
                if doshrink:
                    for j in one2np1:
                        sim[j] = sim[0] + sigma * (sim[j] - sim[0])
                        fsim[j] = func(sim[j])
        ind = np.argsort(fsim)
        _gaps(fsim, margins)
        sim = np.take(sim, ind, 0)
        fsim = np.take(fsim, ind, 0)
        iterations += 1
        if trace is not None: trace.append((sim.copy(), fsim.copy(), 'shrink' if doshrink else 'step'))
    x = sim[0]; fval = np.min(fsim)
    warnflag = 0
    if calls[0] >= maxfun: warnflag = 1
    elif iterations >= maxiter: warnflag = 2
    return x, fval, iterations, calls[0], warnflag


def _gaps(fsim, margins):
    if margins is None: return
    s = np.sort(np.asarray(fsim, float))
    for a, b in zip(s[:-1], s[1:]):
        if np.isfinite(a) and np.isfinite(b) and a != b:
            margins.append(abs(a - b) / max(abs(a), abs(b), 1e-300))
        elif a == b:
            margins.append(0.0)


# --------------------------------------------------------------------------- Powell (scipy.optimize.fmin_powell)
def powell(f, x0, brent, xtol=1e-4, maxsweeps=10, direc=None, imax=500, events=None):
    """Powell's direction-set method as in scipy's fmin_powell, with the given Brent line search
    brent(func, full_output=1, tol=, maxiter=) -> (alpha, fret, iter, num).  Generator: yields
    (x, fval, direc, fx) after every sweep of line searches (i.e. per iteration), before the
    extrapolation step that belongs to the same iteration; fx is the value the sweep started from."""
    def linesearch(p, xi):
        def myfunc(alpha):
            return f(p + alpha * xi)
        old = np.seterr(all='ignore')
        alpha_min, fret, it, num = brent(myfunc, full_output=1, tol=xtol * 100, maxiter=imax)
        np.seterr(**old)
        xi = alpha_min * xi
        return np.squeeze(fret), p + xi, xi

    x = np.asarray(x0, dtype=float).flatten()
    N = len(x)
    direc = np.eye(N, dtype=float) if direc is None else np.array(direc, dtype=float)     # (a copy: it is updated in place)
    fval = np.squeeze(f(x))
    x1 = x.copy()
    sweeps = 0
    while True:
        fx = fval; bigind = 0; delta = 0.0
        for i in range(N):
            direc1 = direc[i]
            fx2 = fval
            fval, x, direc1 = linesearch(x, direc1)
            isnan = np.isinf(fx2) & np.isinf(fval)       # mystic's guard for inf - inf
            if not isnan and (fx2 - fval) > delta:
                delta = fx2 - fval
                bigind = i
        sweeps += 1
        yield x.copy(), float(fval), direc.copy(), float(fx)
        if sweeps >= maxsweeps:
            return
        direc1 = x - x1
        x2 = 2 * x - x1
        x1 = x.copy()
        fx2 = np.squeeze(f(x2))
        if fx > fx2:
            old = np.seterr(all='ignore')
            t = 2.0 * (fx + fx2 - 2.0 * fval)
            temp = (fx - fval - delta)
            t *= temp * temp
            temp = fx - fx2
            t -= delta * temp * temp
            np.seterr(**old)
            if t < 0.0:
                fval, x, direc1 = linesearch(x, direc1)
                direc[bigind] = direc[-1]
                direc[-1] = direc1
                if events is not None: events.append(('replace', sweeps, bigind))


# --------------------------------------------------------------------------- differential evolution
NDONORS = {'Best1': 2, 'Rand1': 3, 'RandToBest1': 2, 'Best2': 4, 'Rand2': 5}


def de_mutant(base, parent, best, pop, donors, Fs, i):
    """component i of the mutant vector, with the same floating-point operation order as documented:
    Best1: best + F*(p1 - p2); Rand1: p1 + F*(p2 - p3); RandToBest1: x + (F*(best - x) + F*(p1 - p2));
    Best2: best + F*(p1 + p2 - p3 - p4); Rand2: p1 + F*(p2 + p3 - p4 - p5)"""
    p = [pop[d][i] for d in donors]
    if base == 'Best1':
        return best[i] + Fs * (p[0] - p[1])
    if base == 'Rand1':
        return p[0] + Fs * (p[1] - p[2])
    if base == 'RandToBest1':
        return parent[i] + (Fs * (best[i] - parent[i]) + Fs * (p[0] - p[1]))
    if base == 'Best2':
        return best[i] + Fs * (p[0] + p[1] - p[2] - p[3])
    if base == 'Rand2':
        return p[0] + Fs * (p[1] + p[2] - p[3] - p[4])
    raise ValueError(base)


def explain_trial(strategy, candidate, pop, best, Fs, trial):
    """existential search: all (donors, M) such that for every component the trial equals the parent's
    value or the mutant's; returns a list of dicts {donors, M (positions where trial == mutant),
    D (positions where trial != parent)}; empty list = the trial cannot be explained."""
    base = strategy[:-3]
    n = NDONORS[base]
    parent = pop[candidate]
    dim = len(parent)
    others = [j for j in range(len(pop)) if j != candidate]
    D = [i for i in range(dim) if trial[i] != parent[i]]
    out = []
    for donors in itertools.permutations(others, n):
        ok = True; M = []; A = []
        for i in range(dim):
            v = de_mutant(base, parent, best, pop, donors, Fs, i)
            if v == parent[i]:
                A.append(i)                 # ambiguous: mutant and parent coincide here
            if trial[i] == v:
                M.append(i)
            elif trial[i] != parent[i]:
                ok = False; break
        if ok:
            out.append(dict(donors=donors, M=M, D=D, A=A))
    return out


def circular_runs(dim, D, M):
    """all circular runs R (start, length) with D subset R subset M (length 0 allowed iff D empty)"""
    runs = []
    Ms = set(M); Ds = set(D)
    if not Ds:
        runs.append((0, 0))
    for start in range(dim):
        for length in range(1, dim + 1):
            R = set((start + k) % dim for k in range(length))
            if not R <= Ms:
                break
            if Ds <= R:
                runs.append((start, length))
    return runs
