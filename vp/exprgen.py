"""Expression trees for the symbolic properties (C12-C14): generator, renderer, interpreter.

Everything here is harness code and independent of mystic: the *input* side of a
check is a tree in plain data (JSON-serialisable lists), rendered to mystic's
text syntax by ``render`` and evaluated by ``evaluate``; the *output* side
(text produced by mystic: simplify, solve, linear_symbolic, symbolic_bounds, ...)
is evaluated by ``holds`` / ``holds_all`` (split every line at its comparator,
``eval`` both sides in a namespace holding only the point and math functions).
The oracle never parses the text it handed to mystic.

Trees (``t``)
    ['const', c]                      number
    ['var', i]                        variable number i (a position in the point / name list)
    ['lin', [[i, c], ...], c0]        c*x_i + ... + c0 (terms in the given order; zero
                                      coefficients and repeated variables are allowed)
    ['neg', t] ['add', a, b] ['sub', a, b] ['mul', a, b] ['div', a, b] ['pow', t, n]
    ['abs', t] ['sqrt', t] ['sin', t] ['cos', t] ['exp', t] ['tanh', t]
    ['min', a, b] ['max', a, b]
Relation   ['rel', lhs, cmp, rhs]     cmp in CMPS
System     [relation, ...]            one line each; all lines must hold

Points are lists of python floats indexed by variable number; ``point_dict``
turns one into the {name: value} namespace for output text.
"""
import math
from functools import lru_cache
from hypothesis import strategies as st

CMPS = ['<', '<=', '>', '>=', '=']             # comparators of generated relations
ALL_CMPS = ['<=', '>=', '!=', '==', '<', '>', '=']   # recognised in output text (search order)
STRICT = ('<', '>', '!=')

# functions whose result is correctly rounded / exact (safe for exact assertions)
EXACT_FUNCS = ('abs', 'min', 'max', 'sqrt')
SMOOTH_FUNCS = ('sin', 'cos', 'exp', 'tanh')


class Undefined(Exception):
    """the expression has no (finite real) value at the point"""


# --------------------------------------------------------------------------- comparators
def comparator(line):
    """the comparator of one line of text ('' if none); two-character ones first"""
    for i, ch in enumerate(line):
        if ch in '<>!=':
            two = line[i:i + 2]
            if two in ('<=', '>=', '!=', '=='):
                return two
            if ch == '!':
                continue
            return ch
    return ''


def split_line(line):
    """(lhs, cmp, rhs) of one line of text"""
    cmp = comparator(line)
    if not cmp:
        raise ValueError('no comparator in %r' % (line,))
    lhs, rhs = line.split(cmp, 1)
    return lhs.strip(), cmp, rhs.strip()


def flip_cmp(cmp):
    """comparator after multiplying both sides by a negative number / swapping sides"""
    return {'<': '>', '<=': '>=', '>': '<', '>=': '<=', '=': '=', '==': '==', '!=': '!='}[cmp]


def negate_cmp(cmp):
    """comparator of the logical negation"""
    return {'<': '>=', '<=': '>', '>': '<=', '>=': '<', '=': '!=', '==': '!=', '!=': '='}[cmp]


def compare(lv, cmp, rv, rel=0.0, abs_=0.0):
    """lv <cmp> rv on floats; equalities (and !=) within ``abs_ + rel*(|lv|+|rv|)``"""
    if cmp == '<': return lv < rv
    if cmp == '<=': return lv <= rv
    if cmp == '>': return lv > rv
    if cmp == '>=': return lv >= rv
    tol = abs_ + rel * (abs(lv) + abs(rv))
    eq = (lv == rv) or abs(lv - rv) <= tol
    if cmp in ('=', '=='): return eq
    if cmp == '!=': return not eq
    raise ValueError(cmp)


# --------------------------------------------------------------------------- tree interpreter
def _fin(v):
    if v != v or v in (math.inf, -math.inf):
        raise Undefined('non-finite')
    return v


def evaluate(tree, point):
    """value of the tree at the point (python floats, the operation order of the
    rendered text: left to right); raises Undefined for x/0, sqrt(<0), overflow"""
    k = tree[0]
    try:
        if k == 'const':
            return float(tree[1])
        if k == 'var':
            return float(point[tree[1]])
        if k == 'lin':
            acc = None
            for i, c in tree[1]:
                term = float(c) * float(point[i])
                acc = term if acc is None else acc + term
            if acc is None:
                return float(tree[2])
            return _fin(acc + float(tree[2])) if tree[2] is not None else _fin(acc)
        if k == 'neg':
            return -evaluate(tree[1], point)
        if k in ('add', 'sub', 'mul', 'div', 'min', 'max'):
            a = evaluate(tree[1], point); b = evaluate(tree[2], point)
            if k == 'add': return _fin(a + b)
            if k == 'sub': return _fin(a - b)
            if k == 'mul': return _fin(a * b)
            if k == 'min': return min(a, b)
            if k == 'max': return max(a, b)
            if b == 0:
                raise Undefined('division by zero')
            return _fin(a / b)
        if k == 'pow':
            a = evaluate(tree[1], point)
            return _fin(a ** tree[2])
        a = evaluate(tree[1], point)
        if k == 'abs': return abs(a)
        if k == 'sqrt':
            if a < 0:
                raise Undefined('sqrt of a negative number')
            return math.sqrt(a)
        if k == 'sin': return math.sin(a)
        if k == 'cos': return math.cos(a)
        if k == 'exp': return _fin(math.exp(a))
        if k == 'tanh': return math.tanh(a)
    except (OverflowError, ZeroDivisionError) as e:
        raise Undefined(str(e))
    raise ValueError('unknown node %r' % (k,))


def magnitude(tree, point):
    """sum of the absolute values of all terms of the expanded expression (denominators
    at their actual value): the scale against which rounding errors of any
    rearrangement of the expression are relative.  >= |evaluate(tree, point)|."""
    k = tree[0]
    try:
        if k == 'const':
            return abs(float(tree[1]))
        if k == 'var':
            return abs(float(point[tree[1]]))
        if k == 'lin':
            return _fin(math.fsum([abs(float(c) * float(point[i])) for i, c in tree[1]]) + abs(float(tree[2] or 0.0)))
        if k in ('neg', 'abs', 'sin', 'cos', 'tanh'):
            return magnitude(tree[1], point)
        if k in ('add', 'sub'):
            return _fin(magnitude(tree[1], point) + magnitude(tree[2], point))
        if k == 'mul':
            return _fin(magnitude(tree[1], point) * magnitude(tree[2], point))
        if k == 'div':
            d = evaluate(tree[2], point)
            if d == 0:
                raise Undefined('division by zero')
            return _fin(magnitude(tree[1], point) / abs(d))
        if k in ('min', 'max'):
            return max(magnitude(tree[1], point), magnitude(tree[2], point))
        if k == 'pow':
            return _fin(magnitude(tree[1], point) ** tree[2])
        if k == 'sqrt':
            return math.sqrt(magnitude(tree[1], point))
        if k == 'exp':
            return _fin(math.exp(magnitude(tree[1], point)))
    except (OverflowError, ZeroDivisionError) as e:
        raise Undefined(str(e))
    raise ValueError('unknown node %r' % (k,))


def variables_in(tree):
    """sorted variable numbers occurring in a tree / relation / system (zero-coefficient
    terms count: they are in the text)"""
    out = set()

    def walk(t):
        if not isinstance(t, list) or not t:
            return
        k = t[0]
        if k == 'var':
            out.add(t[1])
        elif k == 'lin':
            out.update(i for i, _ in t[1])
        elif k == 'rel':
            walk(t[1]); walk(t[3])
        elif isinstance(k, list):
            for r in t:
                walk(r)
        elif k != 'const':
            for s in t[1:]:
                walk(s)
    walk(tree)
    return sorted(out)


def subtrees(tree, kind):
    """all nodes of the given kind in a tree / relation"""
    out = []

    def walk(t):
        if not isinstance(t, list) or not t or not isinstance(t[0], str):
            return
        if t[0] == kind:
            out.append(t)
        if t[0] == 'rel':
            walk(t[1]); walk(t[3])
        elif t[0] not in ('const', 'var', 'lin'):
            for s in t[1:]:
                walk(s)
    walk(tree)
    return out


def denominators(tree):
    """the denominator sub-trees (the input is undefined where one of them is 0)"""
    return [t[2] for t in subtrees(tree, 'div')]


def sign_factors(tree):
    """sub-trees whose *sign* decides the direction of the relation once a variable is
    isolated: every denominator that contains a variable, and both factors of a
    product of two variable-bearing factors"""
    out = [d for d in denominators(tree) if variables_in(d)]
    for m in subtrees(tree, 'mul'):
        if variables_in(m[1]) and variables_in(m[2]):
            out.extend([m[1], m[2]])
    return out


# --------------------------------------------------------------------------- relations
def rel_sides(rel, point):
    """(lhs value, rhs value) of a relation; raises Undefined"""
    return evaluate(rel[1], point), evaluate(rel[3], point)


def rel_holds(rel, point, eqrel=0.0):
    """True / False, or None where the relation is undefined"""
    try:
        lv, rv = rel_sides(rel, point)
    except Undefined:
        return None
    return compare(lv, rel[2], rv, rel=eqrel)


def rel_margin(rel, point):
    """relative distance of the point from the relation's boundary lhs == rhs:
    |lhs - rhs| / (magnitude(lhs) + magnitude(rhs)); 0.0 exactly on it, None if undefined"""
    try:
        lv, rv = rel_sides(rel, point)
        m = magnitude(rel[1], point) + magnitude(rel[3], point)
    except Undefined:
        return None
    if lv == rv:
        return 0.0
    return abs(lv - rv) / m if m > 0 else math.inf


def factor_margin(tree, point):
    """relative distance of a factor from 0: |value| / magnitude; None if undefined"""
    try:
        v = evaluate(tree, point); m = magnitude(tree, point)
    except Undefined:
        return None
    if v == 0:
        return 0.0
    return abs(v) / m if m > 0 else math.inf


def system_holds(system, point, eqrel=0.0):
    """all lines hold (None if any line is undefined)"""
    vals = [rel_holds(r, point, eqrel) for r in system]
    if any(v is None for v in vals):
        return None
    return all(vals)


def on_boundary(rel, point, var):
    """a copy of the point moved along variable ``var`` onto lhs == rhs, or None.
    Works where lhs - rhs is affine in x_var or in 1/x_var (linear forms, products and
    quotients by a single variable factor)."""
    def d(v):
        p = list(point); p[var] = v
        lv, rv = rel_sides(rel, p)
        return lv - rv
    for (a, b, back) in ((0.0, 1.0, lambda u: u), (1.0, 2.0, lambda u: u),
                         (1.0, 0.5, lambda u: u)):
        try:
            da, db = d(a), d(b)
        except Undefined:
            continue
        if da == db:
            continue
        v = a - da * (b - a) / (db - da)
        cands = [v]
        # affine in 1/x: d(x) = alpha/x + beta
        if a != 0 and b != 0:
            ua, ub = 1.0 / a, 1.0 / b
            u = ua - da * (ub - ua) / (db - da)
            if u != 0:
                cands.append(1.0 / u)
        for v in cands:
            if not math.isfinite(v):
                continue
            p = list(point); p[var] = v
            m = rel_margin(rel, p)
            if m is not None and m <= 1e-12:
                return p
    return None


# --------------------------------------------------------------------------- rendering
def fmt_num(c):
    """python literal of a number (repr: round-trips exactly)"""
    if isinstance(c, bool):
        raise ValueError(c)
    if isinstance(c, int):
        return repr(c)
    return repr(float(c))


_PREC = {'add': 1, 'sub': 1, 'lin': 1, 'neg': 2, 'mul': 3, 'div': 3, 'pow': 4}


def _wrap(tree, names, minprec, style):
    s = render(tree, names, style)
    k = tree[0]
    prec = _PREC.get(k, 9)
    if k == 'const' and float(tree[1]) < 0:
        prec = 2
    if k == 'lin':
        nterms = len(tree[1]) + (1 if tree[2] not in (None,) and (tree[2] != 0 or not tree[1]) else 0)
        if nterms == 1 and tree[1]:
            prec = 3 if float(tree[1][0][1]) >= 0 else 2
        elif nterms == 1:
            prec = 9 if float(tree[2]) >= 0 else 2
    return '(%s)' % s if prec < minprec else s


def _num(style, c):
    nm = style.get('named') if style else None
    if nm and not isinstance(c, bool) and float(c) == float(nm[1]):
        return nm[0]
    return fmt_num(c)


def render(tree, names, style=None):
    """mystic text of a tree / relation / system under the variable names ``names``
    (names[i] is variable i).  style: None or a dict with
      'minus': True  -> write '- 2.0*x1' instead of '+ -2.0*x1'
      'unit':  True  -> write 'x1' instead of '1.0*x1' (and '-x1' for -1.0)
      'opspace': True -> blanks around the * / ** of products, quotients and powers
      'named': [name, value] -> every literal equal to value is written as the name (a constant handed over in locals=)
    Linear forms print all their terms, including zero coefficients; a zero constant
    is omitted unless it is the only term."""
    style = style or {}
    k = tree[0]
    if isinstance(k, list):
        return '\n'.join(render(r, names, style) for r in tree)
    if k == 'rel':
        return '%s %s %s' % (render(tree[1], names, style), tree[2], render(tree[3], names, style))
    if k == 'const':
        return _num(style, tree[1])
    if k == 'var':
        return names[tree[1]]
    if k == 'lin':
        parts = []
        for i, c in tree[1]:
            cf = float(c)
            if style.get('unit') and cf in (1.0, -1.0) and (cf == 1.0 or not parts or style.get('minus')):
                body, neg = names[i], cf < 0
            elif style.get('minus') and cf < 0 and parts:
                body, neg = '%s*%s' % (_num(style, -c), names[i]), True
            else:
                body, neg = '%s*%s' % (_num(style, c), names[i]), False
            if not parts:
                parts.append(('-' + body) if neg else body)
            else:
                parts.append((' - ' if neg else ' + ') + body)
        c0 = tree[2]
        if c0 is not None and (float(c0) != 0 or not parts):
            if not parts:
                parts.append(_num(style, c0))
            elif style.get('minus') and float(c0) < 0:
                parts.append(' - ' + _num(style, -c0))
            else:
                parts.append(' + ' + _num(style, c0))
        return ''.join(parts)
    if k == 'neg':
        return '-' + _wrap(tree[1], names, 3, style)
    if k == 'add':
        # (a right-hand linear form keeps its parentheses: the text then has exactly the
        # operation order of evaluate())
        return '%s + %s' % (_wrap(tree[1], names, 1, style), _wrap(tree[2], names, 2, style))
    if k == 'sub':
        return '%s - %s' % (_wrap(tree[1], names, 1, style), _wrap(tree[2], names, 3, style))
    if k in ('mul', 'div'):
        # a leading negative literal needs no parentheses: -2.0/x1 == (-2.0)/x1 exactly
        left = _num(style, tree[1][1]) if tree[1][0] == 'const' else _wrap(tree[1], names, 3, style)
        sp = ' ' if style.get('opspace') else ''      # 'x0 / x1' and 'x0/x1' are the same text to the parser
        return '%s%s%s%s%s' % (left, sp, '*' if k == 'mul' else '/', sp, _wrap(tree[2], names, 4, style))
    if k == 'pow':
        return ('%s ** %s' if style.get('opspace') else '%s**%s') % (_wrap(tree[1], names, 5, style), _num(style, tree[2]))
    if k in ('abs', 'sqrt', 'sin', 'cos', 'exp', 'tanh'):
        return '%s(%s)' % (k, render(tree[1], names, style))
    if k in ('min', 'max'):
        return '%s(%s, %s)' % (k, render(tree[1], names, style), render(tree[2], names, style))
    raise ValueError('unknown node %r' % (k,))


# --------------------------------------------------------------------------- naming schemes
# Names are chosen so that none is a substring of a function name that can occur in the
# same text (abs, min, max, sqrt, sin, cos, exp, tanh, ...: 'x' in 'max', 'a' in 'abs',
# 's' in 'sin' would be hit by replace_variables' plain str.replace -- documented FIXME
# there) nor of a float literal ('e' in '1e-06').
BASES = ['x', 'y', 'z', 'w', 'v', 'u', 'xx', 'var', 'k_']
NAME_POOL = ['y', 'z', 'w', 'v', 'u', 'r', 'k', 'd', 'g', 'A', 'B', 'C', 'X', 'Y', 'alpha', 'beta', 'gamma', 'delta',
             'spam', 'eggs', 'width', 'rho', 'mu', 'y1', 'z0', 'w12', 'r_', 'kk', 'px', 'uv',
             'y_1', 'y_2', 'z_3', 'A_1', 'B_2', 'q_10', 'k_0']
_FUNCS_IN_TEXT = ('abs', 'min', 'max', 'sqrt', 'sin', 'cos', 'exp', 'tanh', 'sum', 'mean', 'inf', 'nan', 'pi', 'e')
# function-safe subsets (for texts that contain function calls: C13/C14)
SAFE_BASES = [b for b in BASES if not any(b in f for f in _FUNCS_IN_TEXT)]
SAFE_NAMES = [n for n in NAME_POOL if not any(n in f for f in _FUNCS_IN_TEXT)]


def names_of(scheme, nvars=None):
    """(names, variables_argument) for a naming scheme:
       {'kind': 'base', 'base': 'x', 'index': [0, 1, 12]}  -> (['x0','x1','x12'], 'x')
       {'kind': 'list', 'names': ['alpha', 'B', ...], 'use': [2, 0]} -> names[use[i]] is
            variable i; the variables argument is the whole list (unused names allowed)"""
    if scheme['kind'] == 'base':
        names = ['%s%d' % (scheme['base'], i) for i in scheme['index']]
        return (names if nvars is None else names[:nvars]), scheme['base']
    use = scheme.get('use') or list(range(len(scheme['names'])))
    names = [scheme['names'][j] for j in use]
    return (names if nvars is None else names[:nvars]), list(scheme['names'])


@st.composite
def naming_schemes(draw, nvars, function_safe=False, max_index=14, extra_names=3):
    """a naming scheme for ``nvars`` variables: x0..x(n-1); another base letter; sparse
    indices incl. >= 10; an explicit name list (possibly with unused extra names, in a
    drawn order)"""
    bases = SAFE_BASES if function_safe else BASES
    pool = SAFE_NAMES if function_safe else NAME_POOL
    kind = draw(st.sampled_from(['x', 'x', 'base', 'sparse', 'list', 'list']))
    if kind == 'x':
        return {'kind': 'base', 'base': 'x', 'index': list(range(nvars))}
    if kind == 'base':
        return {'kind': 'base', 'base': draw(st.sampled_from(bases)), 'index': list(range(nvars))}
    if kind == 'sparse':
        idx = draw(st.lists(st.integers(0, max_index), min_size=nvars, max_size=nvars, unique=True))
        if draw(st.booleans()):
            idx = sorted(idx)
        return {'kind': 'base', 'base': draw(st.sampled_from(bases[:3])), 'index': idx}
    n = nvars + draw(st.integers(0, extra_names))
    names = draw(st.lists(st.sampled_from(pool), min_size=n, max_size=n, unique=True))
    use = draw(st.permutations(list(range(n))))[:nvars]
    return {'kind': 'list', 'names': names, 'use': list(use)}


def scheme_label(scheme):
    if scheme['kind'] == 'list':
        return 'names:list+extra' if len(scheme['names']) > len(scheme.get('use') or scheme['names']) else 'names:list'
    if scheme['index'] != list(range(len(scheme['index']))):
        return 'names:sparse>=10' if max(scheme['index']) >= 10 else 'names:sparse'
    return 'names:' + ('x0..' if scheme['base'] == 'x' else 'base')


def point_dict(point, names):
    return {n: float(v) for n, v in zip(names, point)}


# --------------------------------------------------------------------------- output-text interpreter
def _namespace():
    ns = {'__builtins__': {}}
    for k in dir(math):
        if not k.startswith('_'):
            ns[k] = getattr(math, k)
    ns.update(abs=abs, min=min, max=max, sum=sum, pow=pow, round=round, float=float, int=int)
    try:
        import numpy as np
        ns.update(mean=np.mean, std=np.std, var=np.var, ptp=np.ptp, sign=np.sign)
    except Exception:
        pass
    return ns


_NS = _namespace()


@lru_cache(maxsize=4096)
def compile_line(line):
    """(lhs code, comparator, rhs code) of one line of output text"""
    lhs, cmp, rhs = split_line(line)
    return compile(lhs, '<lhs>', 'eval'), cmp, compile(rhs, '<rhs>', 'eval')


def line_sides(line, pdict):
    """(lhs value, comparator, rhs value) of one output line at the point; raises Undefined.
    A NameError (a variable that is not in the point) propagates: that is a harness or
    a naming failure, never 'false'."""
    lc, cmp, rc = compile_line(line.strip())
    ns = dict(_NS); ns.update(pdict)
    try:
        lv = float(eval(lc, ns)); rv = float(eval(rc, ns))
    except (ZeroDivisionError, OverflowError, ValueError) as e:
        raise Undefined(str(e))
    except TypeError as e:       # complex results of fractional powers
        raise Undefined(str(e))
    if not (math.isfinite(lv) and math.isfinite(rv)):
        raise Undefined('non-finite')
    return lv, cmp, rv


def holds(line, pdict, eqrel=0.0, eqabs=0.0):
    """does one line of mystic *output* text hold at the point {name: value}?
    True / False, or None where a side is undefined (division by zero, ...).
    Equalities ('=', '==') and '!=' are compared within eqabs + eqrel*(|lhs|+|rhs|)."""
    try:
        lv, cmp, rv = line_sides(line, pdict)
    except Undefined:
        return None
    return compare(lv, cmp, rv, rel=eqrel, abs_=eqabs)


def text_lines(text):
    return [l.strip() for l in (text or '').split('\n') if l.strip()]


def holds_all(text, pdict, eqrel=0.0, eqabs=0.0):
    """all lines of a multi-line output text hold: True; some line false: False;
    otherwise (some line undefined, none false): None.  Empty text holds."""
    res = True
    for l in text_lines(text):
        h = holds(l, pdict, eqrel, eqabs)
        if h is False:
            return False
        if h is None:
            res = None
    return res


class Mag(object):
    """a float that carries the magnitude (sum of |terms|) of the expression that produced
    it: the output-text twin of ``magnitude``.  Only what eval() of output text needs."""
    __slots__ = ('v', 'm')

    def __init__(self, v, m=None):
        self.v = float(v); self.m = abs(self.v) if m is None else float(m)

    @staticmethod
    def of(x):
        return x if isinstance(x, Mag) else Mag(x)

    def __float__(self): return self.v
    def __neg__(self): return Mag(-self.v, self.m)
    def __pos__(self): return self
    def __abs__(self): return Mag(abs(self.v), self.m)
    def __add__(self, o): o = Mag.of(o); return Mag(self.v + o.v, self.m + o.m)
    __radd__ = __add__
    def __sub__(self, o): o = Mag.of(o); return Mag(self.v - o.v, self.m + o.m)
    def __rsub__(self, o): o = Mag.of(o); return Mag(o.v - self.v, self.m + o.m)
    def __mul__(self, o): o = Mag.of(o); return Mag(self.v * o.v, self.m * o.m)
    __rmul__ = __mul__
    def __truediv__(self, o): o = Mag.of(o); return Mag(self.v / o.v, self.m / abs(o.v))
    def __rtruediv__(self, o): o = Mag.of(o); return Mag(o.v / self.v, o.m / abs(self.v))

    def __pow__(self, n):
        n = float(n)
        v = self.v ** n
        if isinstance(v, complex):
            raise ValueError('complex power')
        return Mag(v, self.m ** n if n >= 0 else abs(v))

    def __rpow__(self, b):
        return Mag(float(b) ** self.v)


def _mag_namespace():
    ns = {}
    for k, f in _NS.items():
        if callable(f) and k not in ('float', 'int'):
            def wrapped(*a, _f=f):
                r = _f(*[x.v if isinstance(x, Mag) else x for x in a])
                return Mag(r)
            ns[k] = wrapped
        else:
            ns[k] = f
    ns['abs'] = lambda x: abs(Mag.of(x))
    ns['min'] = lambda *a: Mag(min(Mag.of(x).v for x in a), max(Mag.of(x).m for x in a))
    ns['max'] = lambda *a: Mag(max(Mag.of(x).v for x in a), max(Mag.of(x).m for x in a))

    def _sqrt(x):
        x = Mag.of(x)
        return Mag(math.sqrt(x.v), math.sqrt(x.m))
    ns['sqrt'] = _sqrt
    return ns


_MNS = _mag_namespace()


def line_sides_mag(line, pdict):
    """(lhs value, lhs magnitude, comparator, rhs value, rhs magnitude) of an output line:
    the magnitudes are the sums of the absolute values of the terms as written in the text
    (cf. ``magnitude`` for trees); raises Undefined"""
    lc, cmp, rc = compile_line(line.strip())
    ns = dict(_MNS); ns.update((k, Mag(v)) for k, v in pdict.items())
    try:
        l = Mag.of(eval(lc, ns)); r = Mag.of(eval(rc, ns))
    except (ZeroDivisionError, OverflowError, ValueError, TypeError) as e:
        raise Undefined(str(e))
    if not all(math.isfinite(x) for x in (l.v, l.m, r.v, r.m)):
        raise Undefined('non-finite')
    return l.v, l.m, cmp, r.v, r.m


def line_margin(line, pdict):
    """relative distance of the point from the boundary of an output line,
    |lhs - rhs| / (magnitude(lhs) + magnitude(rhs)): the same measure as rel_margin.
    0.0 exactly on the boundary, None where undefined."""
    try:
        lv, lm, cmp, rv, rm = line_sides_mag(line, pdict)
    except Undefined:
        return None
    if lv == rv:
        return 0.0
    return abs(lv - rv) / (lm + rm) if (lm + rm) > 0 else math.inf


# --------------------------------------------------------------------------- three-zone truth
# A relation evaluated in floating point is only decided away from its boundary.  With the
# relative margin m of rel_margin / line_margin (|lhs - rhs| / sum of |terms|):
#   inequalities   m >= hi: decided by the sign;  m < hi: NEAR (not decided)
#   = / ==         m >= hi: fails;  m <= lo: holds *if the caller vouches for the point*
#                  (eq_positive: a point constructed on the boundary, well conditioned);
#                  otherwise NEAR.   != is the reverse.
# Float arithmetic cannot establish that an equality holds (-4*x + 0.75 = 0.75 "holds" at
# x = 4e-99 by absorption), hence eq_positive.  In *exact* mode (all numbers short dyadics,
# see is_short_dyadic) and where every term on both sides is exactly 0 (scale == 0, e.g.
# x1 > 0 at x1 = 0.0) the plain float comparison is exact and is used instead.
NEAR = 'near'
UNDEF = 'undef'
BAND = (1e-11, 1e-9)


def zone_truth(lv, cmp, rv, margin, exact=False, band=BAND, scale=None, eq_positive=False):
    if exact or scale == 0:
        return compare(lv, cmp, rv)
    lo, hi = band
    if cmp in ('=', '==', '!='):
        if margin >= hi:
            return cmp == '!='
        if margin <= lo and eq_positive:
            return cmp != '!='
        return NEAR
    if margin < hi:
        return NEAR
    return compare(lv, cmp, rv)


def rel_truth(rel, point, exact=False, band=BAND, eq_positive=False):
    """True / False / NEAR / UNDEF for a relation tree at a point"""
    m = rel_margin(rel, point)
    if m is None:
        return UNDEF
    lv, rv = rel_sides(rel, point)
    return zone_truth(lv, rel[2], rv, m, exact, band, magnitude(rel[1], point) + magnitude(rel[3], point), eq_positive)


def line_truth(line, pdict, exact=False, band=BAND, eq_positive=False):
    """True / False / NEAR / UNDEF for one line of output text at a point"""
    try:
        lv, lm, cmp, rv, rm = line_sides_mag(line, pdict)
    except Undefined:
        return UNDEF
    m = 0.0 if lv == rv else (abs(lv - rv) / (lm + rm) if lm + rm > 0 else math.inf)
    return zone_truth(lv, cmp, rv, m, exact, band, lm + rm, eq_positive)


def all_truth(values):
    """conjunction: a False line decides; otherwise NEAR, then UNDEF, dominate"""
    values = list(values)
    if any(v is False for v in values): return False
    if NEAR in values: return NEAR
    if UNDEF in values: return UNDEF
    return True


def any_truth(values):
    """disjunction of cases (an UNDEF case does not hold)"""
    values = list(values)
    if any(v is True for v in values): return True
    if NEAR in values: return NEAR
    return False


def text_truth(text, pdict, exact=False, band=BAND, eq_positive=False):
    return all_truth(line_truth(l, pdict, exact, band, eq_positive) for l in text_lines(text))


def system_truth(system, point, exact=False, band=BAND, eq_positive=False):
    """UNDEF if any line is undefined (the point is outside the domain of the input)"""
    vals = [rel_truth(r, point, exact, band, eq_positive) for r in system]
    if UNDEF in vals:
        return UNDEF
    return all_truth(vals)


# --------------------------------------------------------------------------- number pools
DYADIC_COEFFS = [1.0, -1.0, 2.0, -2.0, 0.5, -0.5, 4.0, -4.0, 0.25, -0.25]       # +- powers of two
DYADIC_CONSTS = [0.0, 1.0, -1.0, 2.0, -2.0, 0.5, -0.5, 3.0, -3.0, 1.5, -1.5, 4.0, -4.0, 2.5, 6.0, -0.25, 0.75, 8.0]
SHORT_COEFFS = [1.0, -1.0, 2.0, -2.0, 3.0, -3.0, 0.5, -1.5, 7.0, 0.1, -0.1, 0.3, 2.5, 10.0, -0.7, 1, -1, 2, 3,
                0.05, -0.05, 0.025, -0.075, 0.002, 0.0625]      # incl. literals written with a leading '0.0'
SCALE_COEFFS = [1e-6, -1e-6, 1e6, -1e6, 1e-3, 1e3, -2.5e5, 3.3e-5, 123456.789, -0.000123]


def is_short_dyadic(x, denom=64, bound=4096.0):
    """x is k/denom with |x| <= bound: sums and products of a few such numbers are exact
    in double precision and print exactly through 15 significant digits"""
    x = float(x)
    return abs(x) <= bound and (x * denom) == math.floor(x * denom)


def is_pow2(x):
    x = abs(float(x))
    return x > 0 and math.frexp(x)[0] == 0.5


def _not_tiny(v):
    """exactly 0 or at least 1e-6 in size: products of a few generated numbers neither underflow nor
    get absorbed to nothing (an underflowed 0.5*x0*x2 would make a false line 'hold' exactly)"""
    return v == 0 or abs(v) >= 1e-6


def coefficients(kind='mixed', allow_zero=True):
    """strategy for one coefficient.  kind: 'dyadic' (+- powers of two, exact arithmetic),
    'short' (short decimals and small integers), 'scale' (1e-6..1e6), 'float'
    (arbitrary in +-[1e-6, 1e6]), 'mixed' (any of them)"""
    zero = [st.sampled_from([0.0, 0])] if allow_zero else []
    if kind == 'dyadic':
        return st.one_of(st.sampled_from(DYADIC_COEFFS), *zero)
    anyf = st.one_of(st.floats(1e-6, 1e6), st.floats(-1e6, -1e-6), st.floats(0.01, 100.0), st.floats(-100.0, -0.01))
    if kind == 'short':
        return st.one_of(st.sampled_from(SHORT_COEFFS), st.sampled_from(DYADIC_COEFFS), *zero)
    if kind == 'scale':
        return st.one_of(st.sampled_from(SCALE_COEFFS), st.sampled_from(SHORT_COEFFS), *zero)
    if kind == 'float':
        return st.one_of(anyf, *zero)
    return st.one_of(st.sampled_from(SHORT_COEFFS), st.sampled_from(DYADIC_COEFFS), st.sampled_from(SCALE_COEFFS),
                     anyf, *zero)


def constants(kind='mixed'):
    if kind == 'dyadic':
        return st.sampled_from(DYADIC_CONSTS)
    if kind == 'short':
        return st.one_of(st.sampled_from(DYADIC_CONSTS), st.sampled_from([0.1, -0.3, 0.05, 10.0, 100, 0, 1, -2, 4, 0.025, 0.002, -0.075, 0.0625]))
    return st.one_of(st.sampled_from(DYADIC_CONSTS), st.sampled_from([0.1, -0.3, 0.05, 1e-5, 1e6, -1e6, 1e-6, 100, 0, 4]),
                     st.floats(-1e6, 1e6).filter(_not_tiny), st.floats(-10.0, 10.0).filter(_not_tiny))


# --------------------------------------------------------------------------- tree strategies
@st.composite
def linear_forms(draw, nvars, kind='mixed', min_terms=1, max_terms=None, constant=True, repeats=False):
    """['lin', [[i, c], ...], c0] over variables 0..nvars-1 with at least one non-zero
    coefficient; zero-coefficient terms occur; with repeats=True a variable may occur twice"""
    max_terms = max_terms or nvars
    n = draw(st.integers(min_terms, max(min_terms, max_terms)))
    if repeats:
        idx = draw(st.lists(st.integers(0, nvars - 1), min_size=n, max_size=n))
    else:
        idx = draw(st.lists(st.integers(0, nvars - 1), min_size=min(n, nvars), max_size=min(n, nvars), unique=True))
    terms = [[i, draw(coefficients(kind))] for i in idx]
    if not any(float(c) != 0 for _, c in terms):
        terms[draw(st.integers(0, len(terms) - 1))][1] = draw(coefficients(kind, allow_zero=False))
    c0 = draw(constants(kind)) if (constant and draw(st.booleans())) else 0.0
    return ['lin', terms, c0]


def net_coefficients(lin_lhs, lin_rhs=None):
    """{variable: net coefficient of lhs - rhs} for linear forms (python float sums)"""
    out = {}
    for i, c in lin_lhs[1]:
        out[i] = out.get(i, 0.0) + float(c)
    if lin_rhs is not None and lin_rhs[0] == 'lin':
        for i, c in lin_rhs[1]:
            out[i] = out.get(i, 0.0) - float(c)
    return out


@st.composite
def linear_relations(draw, nvars, kind='mixed', cmps=CMPS, both_sides=True):
    """linear form <cmp> constant, or (both_sides) linear form <cmp> linear form with a
    non-zero net coefficient on at least one variable"""
    cmp = draw(st.sampled_from(list(cmps)))
    lhs = draw(linear_forms(nvars, kind))
    if both_sides and nvars >= 2 and draw(st.integers(0, 3)) == 0:
        rhs = draw(linear_forms(nvars, kind, max_terms=2))
        net = net_coefficients(lhs, rhs)
        if not any(abs(v) > 1e-9 * (1 + max(abs(float(c)) for _, c in lhs[1] + rhs[1])) for v in net.values()):
            rhs = ['lin', [], draw(constants(kind))]
    else:
        rhs = ['lin', [], draw(constants(kind))]
    return ['rel', lhs, cmp, rhs]


RATIONAL_KINDS = ['a/x', 'x/(x+c)', 'x*x', 'a/x+lin', 'x/(x+c)+lin', 'c*x*x+lin']


@st.composite
def rational_relations(draw, nvars, kind='mixed', cmps=CMPS, shapes=RATIONAL_KINDS):
    """relations whose direction (once a variable is isolated) depends on the sign of ONE
    variable factor:  a/x_k <cmp> b;  x_j/(x_k + c) <cmp> b;  x_j*x_k <cmp> b (j != k);
    and the same plus a linear form in *other* variables / a coefficient in front.
    Returns (relation, shape, k) with k the variable of the sign factor."""
    shapes = [s for s in shapes if nvars >= 2 or s in ('a/x', 'a/x+lin')]
    if nvars < 2:
        shapes = ['a/x']
    shape = draw(st.sampled_from(shapes))
    cmp = draw(st.sampled_from(list(cmps)))
    k = draw(st.integers(0, nvars - 1))
    others = [i for i in range(nvars) if i != k]
    nz = coefficients(kind, allow_zero=False)
    b = draw(constants(kind))
    core_shape = shape.split('+lin')[0] if shape.endswith('+lin') else shape
    if core_shape == 'a/x':
        core = ['div', ['const', draw(nz)], ['var', k]]
        used = [k]
    elif core_shape == 'x/(x+c)':
        j = draw(st.sampled_from(others))
        c = draw(constants(kind))
        if kind != 'dyadic' and draw(st.integers(0, 2)) == 0:
            # a pole so far from the origin that a small perturbation of a test point is absorbed
            c = draw(st.sampled_from([1e16, -1e16, 3e15, -3e15, 1e17]))
        den = ['var', k] if float(c) == 0 and draw(st.booleans()) else ['lin', [[k, 1.0]], c]
        core = ['div', ['var', j], den]
        used = [j, k]
    else:
        j = draw(st.sampled_from(others))
        core = ['mul', ['var', j], ['var', k]]
        if core_shape == 'c*x*x':
            core = ['mul', ['mul', ['const', draw(nz)], ['var', j]], ['var', k]]
        used = [j, k]
    lhs = core
    if shape.endswith('+lin'):
        rest = [i for i in range(nvars) if i not in used]
        if rest:
            m = draw(st.integers(1, min(2, len(rest))))
            idx = draw(st.lists(st.sampled_from(rest), min_size=m, max_size=m, unique=True))
            lin = ['lin', [[i, draw(nz)] for i in idx], 0.0]
            lhs = ['add', core, lin]
        else:
            shape = core_shape
    return ['rel', lhs, cmp, ['const', b]], shape, k


def point_values(kind='mixed'):
    """one coordinate: small integers and halves (exact boundary hits and zeros occur),
    short dyadics, or arbitrary floats"""
    small = st.sampled_from([0.0, 1.0, -1.0, 2.0, -2.0, 3.0, -3.0, 0.5, -0.5, 4.0, 1.5, -1.5, 0.25, 8.0, -4.0, 6.0, 5.0])
    if kind == 'dyadic':
        return st.one_of(small, st.integers(-64, 64).map(lambda i: i / 8.0))
    return st.one_of(small, st.integers(-10, 10).map(float), st.floats(-10.0, 10.0).filter(_not_tiny),
                     st.floats(-1e3, 1e3).filter(_not_tiny), st.floats(-1e6, 1e6).filter(_not_tiny))


def points(nvars, kind='mixed'):
    return st.lists(point_values(kind), min_size=nvars, max_size=nvars)
