"""Stateful model of a single mystic solver driven through its public API.
Shared by C04 (faithful counters/monitors/callbacks) and C05 (stopping discipline):
the same histories, different active sub-checks.  The *case* is the header plus the
list of operations; OPEN/APPLY/CLOSE are used both by the Hypothesis state machine
and by replay (see vp.runner.trace_machine_base / fold_run)."""
import os, math, builtins
import numpy as np
from hypothesis import strategies as st
from hypothesis.stateful import rule, initialize, precondition
from vp import lab
from vp.util import F, FL, finite_floats

DEFAULT_SCALE = {'DE': (10, 1000), 'DE2': (10, 1000), 'NM': (200, 200), 'PW': (1000, 1000)}


# further termination conditions (all of them only read the solver state, except 'gnt': GradientNormTolerance
# differentiates the user's raw cost)
TERMS_MORE = ['spread', 'solimp', 'vtrcog', 'or', 'and', 'when', 'gnt', 'collapse', 'collapse2']


def uses_gnt(case):
    return case.get('term') == 'gnt' or any(op[0] == 'term' and op[1] == 'gnt' for op in case.get('ops', []))


def kf_gnt(case, subcheck, detail):
    """GradientNormTolerance differentiates the user's *raw* cost (termination.py: approx_fprime(bestSolution,
    inst._cost[1], eps)) every time the termination is looked at: those calls are not counted, not monitored, not
    bounded by the strict ranges, and happen even when a Step refuses to start"""
    return uses_gnt(case) and subcheck in ('C04.evals', 'C04.evalmon', 'C05.message', 'C05.no_start', 'C05.bounds',
                                           'C05.start', 'C02.calls')

class SolverState(object):
    def __init__(self, case, ctx, active):
        self.case = case; self.ctx = ctx; self.active = active
        h = case
        lab.reset_registry()
        lab.seed_rng(h['seed'])
        self.kind = h['solver']; self.dim = h['dim']
        self.solver = lab.make_solver(self.kind, self.dim, h.get('npop'))
        self.npop = self.solver.nPop
        self.cost = lab.Cost('c0', h['cost'])
        init = h['init']
        if init['kind'] == 'point':
            self.solver.SetInitialPoints(FL(init['x0']))
        else:
            self.solver.SetRandomInitialPoints(FL(init['lo']), FL(init['hi']))
        self.evalmon = None
        self.evalmon_from_start = False
        if h.get('evalmon'):
            self.evalmon = lab.make_monitor(h['evalmon'], ctx)
            self.solver.SetEvaluationMonitor(self.evalmon)
            self.evalmon_from_start = True
        self.stepmon_clean = True
        if h.get('stepmon'):
            self.solver.SetGenerationMonitor(lab.make_monitor(h['stepmon'], ctx))
        self.termname = h.get('term', 'never')
        t = lab.make_termination(self.termname)
        if t is not None:
            self.solver.SetTermination(t)
        if self.kind in ('DE', 'DE2') and h.get('strategy'):
            self.solver.strategy = h['strategy']       # sticky attribute read by _process_inputs
        self.solver.SetObjective(self.cost)
        # ---- model
        self.callbacks = []        # (arg copy, bestSolution copy, ncalls)
        self.maxiter = None        # absolute limits as documented; None = solver default
        self.maxfun = None
        self.maxiter_new = False; self.maxfun_new = False
        self.exit_requested = False
        self.stopped_msg = None
        self.seg_from = 0          # energy-history index where the current objective segment starts
        self.redecorated = 0; self.continued = 0; self.limits_special = 0; self.solves = 0
        self.objective_changes = 0
        self.has_inf_cost = False
        self.ranges_on = False
        self.last_op_stop = False
        self.moved_by_ranges = False
        self.pair_clean = True     # no constraints / penalty / reducer ever installed
        self.collapsed = False
        self.cur_con = None; self.cur_box = None; self.cur_mode = None
        self.box_log = []          # (first call index, (lo, hi)) boxes in force, for C02
        self.box_since_start = None; self.box_changed = False
        self.checked_calls = 0
        if h.get('limits'):
            g, e = h['limits']
            self.solver.SetEvaluationLimits(g, e)
            self._model_limits(g, e, False)
        self.dump_path = None; self.dump_bytes = None; self.dump_fresh = False; self.restarts = 0
        if h.get('savefreq'):
            self.dump_path = os.path.join(ctx.mkdtemp(), 'restart.pkl')
            self.solver.SetSaveFrequency(h['savefreq'], self.dump_path)

    # -- helpers -------------------------------------------------------------
    def on(self, name):
        return name.split('.')[0] == self.active

    def expect(self, ok, name, detail=None):
        if self.on(name):
            return self.ctx.expect(ok, name, detail)
        return True

    def iters(self):
        return len(self.callbacks)

    def cb(self, x):
        self.callbacks.append((lab.fvec(x), lab.fvec(self.solver.bestSolution), self.cost.ncalls()))

    def _model_limits(self, g, e, new):
        gens_now = max(0, self.iters() - 1)
        if new:
            self.maxiter = (g + gens_now) if g is not None else ('default+', None)
            self.maxfun = (e + self.cost.ncalls()) if e is not None else ('default+', None)
        else:
            self.maxiter = g; self.maxfun = e
        if g in (0, 1) or e in (0, 1) or new:
            self.limits_special += 1

    def resolve_pending(self):
        """'new' default limits are counted from the existing iterations/evaluations at the moment the
        solver next looks at its limits (the first termination test after SetEvaluationLimits)"""
        if isinstance(self.maxiter, tuple) and self.maxiter[1] is None:
            self.maxiter = ('default+', max(0, self.iters() - 1))
        if isinstance(self.maxfun, tuple) and self.maxfun[1] is None:
            self.maxfun = ('default+', self.cost.ncalls())

    def limits(self):
        """(maxiter, maxfun) absolute, defaults resolved as documented: nDim*nPop*scale (+count if new)"""
        isc, esc = DEFAULT_SCALE[self.kind]
        n = self.dim * self.npop
        def res(v, sc):
            if v is None: return n * sc
            if isinstance(v, tuple): return n * sc + (v[1] if v[1] is not None else 0)
            return v
        return res(self.maxiter, isc), res(self.maxfun, esc)

    def should_stop(self, term=None):
        """model's decision, from its own counts, taken right before a Step"""
        if self.iters() < 1:
            return None
        mi, mf = self.limits()
        gens = self.iters() - 1
        reasons = []
        if self.cost.ncalls() >= mf: reasons.append('maxfun')
        if gens >= mi: reasons.append('maxiter')
        if self.exit_requested: reasons.append('exit')
        try:
            if self.term_now(term=term): reasons.append('termination')
        except Exception:
            pass
        return reasons or None

    def term_now(self, info=False, term=None):
        """the harness's own look at the termination condition; a condition that evaluates the user's cost
        (GradientNormTolerance differentiates the raw cost) must not show up in the record of the solver's calls"""
        self.cost.enabled = False
        try:
            t = term if term is not None else self.solver._termination
            return t(self.solver, info) if info else t(self.solver)
        finally:
            self.cost.enabled = True

    # -- invariants after every operation ------------------------------------
    def invariants(self, where):
        s = self.solver
        calls = self.cost.ncalls()
        if self.active == 'C02':
            self.check_c02(where)
        self.expect(int(s.evaluations) == calls, 'C04.evals',
                    lambda: dict(where=where, evaluations=int(s.evaluations), real_calls=calls, solver=self.kind))
        gens_model = max(0, self.iters() - 1)
        self.expect(int(s.generations) == gens_model, 'C04.gens',
                    lambda: dict(where=where, generations=int(s.generations), completed_iterations=gens_model, solver=self.kind))
        if self.evalmon is not None and self.evalmon_from_start and (self.kind != 'DE2'):
            self._check_evalmon(where)
        elif self.evalmon is not None and self.evalmon_from_start:
            self._check_evalmon(where)
        if self.pair_clean and not self.collapsed and not self.moved_by_ranges and self.iters() >= 1 and self.on('C04.best_pair'):
            # '(best x, best energy)': with no constraints, penalty or reducer ever installed, the reported pair is
            # one of the evaluations the solver made - the reported point was evaluated and the energy is its value
            be = float(s.bestEnergy)
            if math.isfinite(be):
                bs = lab.fvec(s.bestSolution)
                v = self.cost.lookup(bs)
                if not isinstance(v, list):
                    self.expect(v is not None and float(v) == be, 'C04.best_pair',
                                lambda: dict(where=where, bestSolution=bs, bestEnergy=be, recorded_value_at_bestSolution=v,
                                             solver=self.kind, ranges=self.ranges_on, redecorated=self.redecorated))
                    if self.redecorated and self.ranges_on:
                        self.ctx.label('best-pair-checked-after-redecoration-with-ranges')
        eh = list(s.energy_history)
        if eh:
            seg = [float(v) for v in eh[self.seg_from:]] if self.seg_from < len(eh) else []
            ok = all(not (seg[i + 1] > seg[i]) for i in range(len(seg) - 1))
            self.expect(ok, 'C04.monotone', lambda: dict(where=where, history=seg, solver=self.kind))
            last = float(eh[-1]); be = float(s.bestEnergy)
            self.expect(last == be or (last != last and be != be) or abs(last - be) <= 4e-323, 'C04.monotone',
                        lambda: dict(where=where, last=last, bestEnergy=be, solver=self.kind, note='last entry != bestEnergy'))

    def check_c02(self, where):
        calls = self.cost.calls
        if self.box_log:
            for j in range(self.checked_calls, len(calls)):
                box = None
                for start, b in self.box_log:
                    if start <= j: box = b
                if box is not None:
                    x = calls[j][0]
                    self.expect(lab.in_box(x, box[0], box[1]), 'C02.calls',
                                lambda: dict(where=where, call=j, x=x, box=box, solver=self.kind, mode=self.cur_mode,
                                             constraint=self.cur_con))
        self.checked_calls = len(calls)
        s = self.solver
        if self.box_since_start is not None and not self.box_changed and self.iters() >= 1:
            be = float(s.bestEnergy)
            if math.isfinite(be):
                bs = lab.fvec(s.bestSolution); box = self.box_since_start
                self.expect(lab.in_box(bs, box[0], box[1]), 'C02.best',
                            lambda: dict(where=where, bestSolution=bs, bestEnergy=be, box=box, solver=self.kind,
                                         mode=self.cur_mode, constraint=self.cur_con))

    def _check_evalmon(self, where):
        em = self.evalmon
        xs = [lab.fvec(v) for v in em._x]
        want = [c for c, _ in self.cost.calls]
        ok = xs == want
        if ok:
            ys = list(em.y)
            for (c, v), y in zip(self.cost.calls, ys):
                yv = np.asarray(y, float).ravel().tolist()
                vv = v if isinstance(v, list) else [v]
                # (a monitor with a multiplier k stores k*y and gives back (k*y)/k: exact for the powers of two used here,
                #  except where k*y is subnormal - hence the few-denormals tolerance)
                slack = 4e-323 if getattr(em, 'k', None) not in (None, 1) else 0.0
                if len(yv) != len(vv) or any(not (a == b or (a != a and b != b) or abs(a - b) <= slack) for a, b in zip(yv, vv)):
                    ok = False; break
        self.expect(ok, 'C04.evalmon', lambda: dict(where=where, monitor_len=len(xs), real_calls=len(want), solver=self.kind))

    def check_stopped(self, where, msg):
        """the solver reported a stop: step monitor holds one record per generation ending in the result"""
        s = self.solver
        if self.stepmon_clean:
            sm = s._stepmon
            n = len(sm)
            self.expect(n == int(s.generations) + 1, 'C04.stepmon',
                        lambda: dict(where=where, records=n, generations=int(s.generations), solver=self.kind))
            if n:
                ys = [float(np.ravel(v)[0]) for v in sm.y]
                seg = ys[min(self.seg_from, len(ys)):] if self.objective_changes else ys
                self.expect(all(not (seg[i + 1] > seg[i]) for i in range(len(seg) - 1)), 'C04.stepmon',
                            lambda: dict(where=where, y=seg, note='step monitor energies increase', solver=self.kind))
                # one (best x, best energy) record per generation: record g is the best the callback saw at generation g
                # (not for Powell: it finalises a generation's record after the extrapolation step of the next
                # iteration, so the logged best of generation g is legitimately better than what the callback saw)
                if self.kind != 'PW' and n == len(self.callbacks) and not self.objective_changes and not self.moved_by_ranges:
                    bad = [g for g in range(n) if lab.fvec(sm.x[g]) != self.callbacks[g][1]]
                    self.expect(not bad, 'C04.stepmon',
                                lambda: dict(where=where, generation=bad[0], record=lab.fvec(sm.x[bad[0]]),
                                             best_then=self.callbacks[bad[0]][1], solver=self.kind,
                                             note='step monitor record is not the best solution of its generation'))
                lastx = lab.fvec(sm.x[-1]); lasty = ys[-1]
                if self.moved_by_ranges or not math.isfinite(float(s.bestEnergy)):
                    self.ctx.exclude('stepmon-last-after-ranges-moved-members-or-no-finite-energy')
                else:
                  self.expect(lastx == lab.fvec(s.bestSolution) and (lasty == float(s.bestEnergy) or abs(lasty - float(s.bestEnergy)) <= 4e-323), 'C04.stepmon',
                            lambda: dict(where=where, last=[lastx, lasty], best=[lab.fvec(s.bestSolution), float(s.bestEnergy)],
                                         solver=self.kind, note='last record is not the reported result'))
        # C05.message: the message names a condition that is true of the final state
        mi, mf = self.limits()
        calls = self.cost.ncalls(); gens = max(0, self.iters() - 1)
        if msg.startswith('EvaluationLimits'):
            self.expect(calls >= mf or gens >= mi, 'C05.message',
                        lambda: dict(where=where, msg=msg, calls=calls, gens=gens, maxiter=mi, maxfun=mf))
            lim = eval(msg.split(' with ', 1)[1])
            self.expect(calls >= lim['evaluations'] or gens >= lim['generations'], 'C05.message',
                        lambda: dict(where=where, msg=msg, calls=calls, gens=gens, note='limits named in the message are not reached'))
            want = "EvaluationLimits with %s" % {'evaluations': mf, 'generations': mi}
            self.expect(msg == want, 'C05.message', lambda: dict(where=where, msg=msg, model=want, note='limits in message'))
        elif msg.startswith('SolverInterrupt'):
            self.expect(self.exit_requested, 'C05.message', lambda: dict(where=where, msg=msg, note='no exit was requested'))
        else:
            info = self.term_now(info=True)
            self.expect(bool(info) and msg == info, 'C05.message',
                        lambda: dict(where=where, msg=msg, termination_info=info))

    # -- operations ------------------------------------------------------------
    def do_step(self, where='step', kw=None, term=None):
        s = self.solver
        if self.iters() >= 1:
            self.resolve_pending()
        pre = self.should_stop(term)
        calls0 = self.cost.ncalls(); it0 = self.iters()
        mi, mf = self.limits()
        if pre is None and it0 >= 1:
            # an iteration is about to start: limits must not have been reached
            self.expect(it0 - 1 < mi and calls0 < mf, 'C05.bounds',
                        lambda: dict(where=where, gens=it0 - 1, calls=calls0, maxiter=mi, maxfun=mf))
        msg = s.Step(callback=self.cb, **(kw or {}))
        self.resolve_pending()
        self._look_at_dump()
        d_it = self.iters() - it0; d_calls = self.cost.ncalls() - calls0
        if pre:
            self.expect(d_it == 0 and d_calls == 0 and bool(msg), 'C05.no_start',
                        lambda: dict(where=where, reasons=pre, iterations_started=d_it, cost_calls=d_calls, msg=msg,
                                     solver=self.kind, gens=it0 - 1, calls=calls0, maxiter=mi, maxfun=mf))
        else:
            self.expect(d_it == 1, 'C05.start',
                        lambda: dict(where=where, iterations_started=d_it, msg=msg, solver=self.kind,
                                     gens=it0 - 1, calls=calls0, maxiter=mi, maxfun=mf))
        self.expect(d_it <= 1, 'C04.callback', lambda: dict(where=where, callbacks_in_one_step=d_it, solver=self.kind))
        if d_it == 1 and it0 >= 1:
            # generations never exceed the limit in force when the iteration started
            self.expect(self.iters() - 1 <= mi, 'C05.bounds',
                        lambda: dict(where=where, gens_after=self.iters() - 1, maxiter=mi))
        if d_it == 1:
            self.moved_by_ranges = False
            arg, best, _ = self.callbacks[-1]
            self.expect(arg == best, 'C04.callback', lambda: dict(where=where, arg=arg, best=best, solver=self.kind))
            if d_calls == 0 and self.ranges_on:
                self.ctx.label('all-trials-rejected')
            elif self.ranges_on and self.kind in ('DE', 'DE2') and d_calls < self.npop:
                self.ctx.label('some-trial-rejected')
        if msg:
            self.stopped_msg = msg
            self.check_stopped(where, msg)
        else:
            self.stopped_msg = None
        return msg

    def do_solve(self, where='solve'):
        s = self.solver
        if self.iters() >= 1:
            self.resolve_pending()
        mi, mf = self.limits()
        it0 = self.iters()
        budget = [max(mi + 3, 3)]

        class Runaway(Exception):
            pass

        def guard(x):
            self.cb(x)
            if self.iters() - 1 > budget[0]:
                raise Runaway()
        first = [True]
        def guard2(x):
            guard(x)
            if first[0]:
                first[0] = False
                if it0 < 1: self.resolve_pending()
        spins = [0, self.iters()]
        real_collapse = s.Collapse

        def counted_collapse(*a, **k):
            # Solve applies collapses between iterations: the same collapse over and over without a new iteration never ends
            if self.iters() == spins[1]:
                spins[0] += 1
                if spins[0] > 25:
                    raise Runaway()
            else:
                spins[0] = 0; spins[1] = self.iters()
            return real_collapse(*a, **k)
        s.Collapse = counted_collapse
        try:
            try:
                s.Solve(callback=guard2)
            finally:
                del s.Collapse
        except Runaway:
            self.expect(False, 'C05.solve_returns',
                        lambda: dict(where=where, iterations=self.iters() - 1, maxiter=mi, solver=self.kind))
            return
        self.solves += 1
        self._look_at_dump()
        if self.termname in ('collapse', 'collapse2'):
            # Solve applies collapses on its way (Collapse() installs constraints that fix parameters): the objective
            # changed somewhere inside this call, so monotonicity is judged from here on only
            self.redecorate()
            self.ctx.label('solve-with-collapse-termination')
            self.collapsed = True       # the solver may now carry constraints the harness did not install
        # Solve() clears the exit flag at its start
        self.exit_requested = bool(s._EARLYEXIT)
        self.cost.enabled = False
        try:
            msg = s.Terminated(info=True)
        finally:
            self.cost.enabled = True
        self.expect(bool(msg), 'C05.solve_returns', lambda: dict(where=where, note='Solve returned but solver is not terminated'))
        mi, mf = self.limits()
        self.expect(self.iters() - 1 <= mi or self.iters() == it0, 'C05.bounds',
                    lambda: dict(where=where, gens=self.iters() - 1, maxiter=mi))
        if msg:
            self.stopped_msg = msg
            self.check_stopped(where, msg)

    def _installed_constraints_fit(self, lo, hi):
        """do the constraints the solver carries map the box into itself?  (probed at corners, centre and the clipped best)"""
        import itertools
        lo = FL(lo); hi = FL(hi)
        c = getattr(self.solver, '_constraints', None)
        if c is None:
            return True
        fin = lambda v, d: v if math.isfinite(v) else d
        L = [fin(l, -50.0) for l in lo]; H = [fin(h, 50.0) for h in hi]
        pts = [list(p) for p in itertools.islice(itertools.product(*zip(L, H)), 16)]
        pts.append([0.5 * (a + b) for a, b in zip(L, H)])
        try:
            pts.append([min(max(float(v), a), b) for v, a, b in zip(self.solver.bestSolution, L, H)])
        except Exception:
            pass
        self.cost.enabled = False
        try:
            for p in pts:
                q = [float(v) for v in c(list(p))]
                if not lab.in_box(q, lo, hi):
                    return False
        except Exception:
            return False
        finally:
            self.cost.enabled = True
        return True

    def _look_at_dump(self):
        """did the operation just performed write the periodic restart file?"""
        self.dump_fresh = False
        if self.dump_path and os.path.exists(self.dump_path):
            b = open(self.dump_path, 'rb').read()
            if b != self.dump_bytes:
                self.dump_bytes = b; self.dump_fresh = True

    def redecorate(self):
        self.redecorated += 1
        self.objective_changes += 1
        self.seg_from = len(self.solver.energy_history)

    def apply(self, op):
        s = self.solver; k = op[0]
        if k not in ('step', 'restart'):
            self.dump_fresh = False
        if k == 'step_kw':
            # the documented per-Step keywords: the monitor is installed and the iteration runs in one call
            kw = {}; spec = op[1]; m = None
            if spec.get('evalmon'):
                m = lab.make_monitor(spec['evalmon'], self.ctx); kw['EvaluationMonitor'] = m
            if spec.get('stepmon'):
                kw['StepMonitor'] = lab.make_monitor(spec['stepmon'], self.ctx)
            self.do_step('step_kw', kw)
            if m is not None and s._evalmon is m:      # (a Step that refuses to start does not look at its keywords)
                if self.evalmon_from_start:
                    self.evalmon = m                    # old contents are carried over: still the full record
                else:
                    self.evalmon = None
            self.ctx.label('step-with-monitor-keywords')
            self.invariants('step_kw')
        elif k == 'step_term':
            # a termination condition handed to Step itself: it is the one this very Step has to honour
            t = lab.make_termination(op[1])
            if t is None:
                return
            self.termname = op[1]
            self.do_step('step_term', {'termination': t}, term=t)
            self.ctx.label('termination-handed-to-Step')
            self.invariants('step_term')
        elif k == 'restart':
            # the solver is abandoned and a restored one takes its place: counters, monitors and callbacks go on
            how = op[1]; s2 = None
            if how == 'save':
                from mystic.solvers import LoadSolver
                path = os.path.join(self.ctx.mkdtemp(), 'saved.pkl')
                s.SaveSolver(path); s2 = LoadSolver(path)
            elif how == 'dill':
                import dill
                s2 = dill.loads(dill.dumps(s))
            elif how == 'periodic' and self.dump_fresh and self.kind != 'PW':
                # (not Powell: it logs - and dumps - a generation late, see C06; its restart file holds an earlier,
                # consistent state, which this model of 'the solver is replaced as it is now' cannot follow)
                from mystic.solvers import LoadSolver
                path = os.path.join(self.ctx.mkdtemp(), 'dump.pkl')
                with open(path, 'wb') as fh: fh.write(self.dump_bytes)
                s2 = LoadSolver(path)
            if s2 is None:
                self.ctx.label('restart-skipped (no fresh periodic dump)')
                return
            self.solver = s = s2
            if self.evalmon is not None:
                self.evalmon = s._evalmon
            self.restarts += 1
            self.ctx.label('restart:' + how)
            self.invariants('restart')
        elif k == 'step':
            n = op[1] if len(op) > 1 else 1
            for i in range(n):
                was_stopped = self.stopped_msg is not None
                self.do_step('step')
                self.invariants('step')
                if was_stopped and self.stopped_msg is None:
                    self.continued += 1
        elif k == 'solve':
            if op[1] is not None:
                s.SetEvaluationLimits(generations=op[1], new=True)
                self._model_limits(op[1], None, True)
            mi, mf = self.limits()
            if mi - max(0, self.iters() - 1) > 80:
                self.ctx.label('solve-skipped-unbounded')
            else:
                if self.stopped_msg is not None: self.continued += 1
                self.do_solve()
            self.invariants('solve')
        elif k == 'limits':
            g, e, new = op[1], op[2], op[3]
            s.SetEvaluationLimits(generations=g, evaluations=e, new=new)
            self._model_limits(g, e, new)
            self.invariants('limits')
        elif k == 'constraints':
            if self.active != 'C02' and op[1] and self.cur_box and not lab.box_compatible(op[1], *self.cur_box):
                # precondition of the property (constraints map the strict ranges into themselves)
                self.ctx.exclude('constraint-incompatible-with-ranges (op skipped)')
                return
            c = lab.Constraint(op[1]) if op[1] else None
            self.cur_con = op[1]
            s.SetConstraints(c)
            self.pair_clean = False
            self.redecorate(); self.invariants('constraints')
        elif k == 'penalty':
            s.SetPenalty(lab.make_penalty(op[1]))
            self.pair_clean = False
            self.redecorate(); self.invariants('penalty')
        elif k == 'ranges':
            if self.active == 'C02':
                return self.apply_ranges_c02(op)
            if op[1] is not None and self.cur_con and not lab.box_compatible(self.cur_con, op[1], op[2]):
                self.ctx.exclude('ranges-incompatible-with-constraint (op skipped)')
                return
            if op[1] is not None and self.collapsed and not self._installed_constraints_fit(op[1], op[2]):
                # same precondition, for the constraints a Collapse() inside Solve installed (parameters fixed at values
                # that need not lie in the new box)
                self.ctx.exclude('ranges-incompatible-with-collapse-constraints (op skipped)')
                return
            if op[1] is None:
                s.SetStrictRanges(False, False)
                self.ranges_on = False; self.cur_box = None
            else:
                self.cur_box = (op[1], op[2])
                s.SetStrictRanges(FL(op[1]), FL(op[2]), tight=op[3], clip=op[4])
                self.ranges_on = True
                self.moved_by_ranges = True
            self.redecorate(); self.invariants('ranges')
        elif k == 'reducer':
            self.pair_clean = False
            if op[1] is None:
                s.SetReducer(None)
            else:
                fn, arr = lab.reducer_fn(op[1])
                s.SetReducer(fn, arraylike=arr)
            self.redecorate(); self.invariants('reducer')
        elif k == 'term':
            self.termname = op[1]
            t = lab.make_termination(op[1])
            s.SetTermination(t)
            self.invariants('term')
        elif k == 'evalmon':
            m = lab.make_monitor(op[1], self.ctx)
            s.SetEvaluationMonitor(m, new=op[2])
            if not op[2] and self.evalmon_from_start:
                self.evalmon = m           # old contents are prepended: still the full record
            else:
                self.evalmon = None        # contents no longer the whole life: relation not asserted
                self.evalmon_from_start = False
            self.invariants('evalmon')
        elif k == 'stepmon':
            m = lab.make_monitor(op[1], self.ctx)
            s.SetGenerationMonitor(m)      # new=False: history is carried over
            self.invariants('stepmon')
        elif k == 'finalize':
            s.Finalize()
            self.invariants('finalize')
        elif k == 'exit':
            import mystic._signal as sig
            h = sig.Handler(s)
            old = builtins.input
            builtins.input = lambda *a, **kw: 'exit'
            try:
                import inspect
                h(2, inspect.currentframe())
            finally:
                builtins.input = old
            self.exit_requested = True
            self.limits_special += 1
            self.invariants('exit')
        else:
            raise ValueError(op)
        self.mark_nontrivial()

    def apply_ranges_c02(self, op):
        s = self.solver
        if op[1] is None:
            s.SetStrictRanges(False, False)
            self.ranges_on = False; self.cur_box = None; self.cur_mode = None
            self.box_log.append((self.cost.ncalls(), None))
            if self.box_since_start is not None: self.box_changed = True
            self.redecorate(); self.invariants('ranges-off')
            return
        lo = [None if v is None else F(v) for v in op[1]]; hi = [None if v is None else F(v) for v in op[2]]
        tight, clip = op[3], op[4]
        if tight is False and clip is not None:
            try:
                s.SetStrictRanges(list(lo), list(hi), tight=tight, clip=clip)
                ok = False
            except ValueError:
                ok = True
            self.expect(ok, 'C02.reject', lambda: dict(tight=tight, clip=clip, note='documented ValueError not raised'))
            self.ctx.label('rejected-mode')
            return
        if any((-1e3 if a is None else a) > (1e3 if b is None else b) for a, b in zip(lo, hi)):
            # an empty box (a side left at its default can make it so): rejected with the documented ValueError
            try:
                s.SetStrictRanges(list(lo), list(hi), tight=tight, clip=clip)
                ok = False
            except ValueError:
                ok = True
            self.expect(ok, 'C02.reject', lambda: dict(lo=lo, hi=hi, note='min > max not rejected'))
            self.ctx.label('rejected-empty-box')
            return
        intside = op[5] if len(op) > 5 else None
        asint = lambda seq: [int(v) if (v is not None and math.isfinite(v) and float(v).is_integer() and abs(v) < 2.0 ** 53) else v for v in seq]
        if intside and all(v is not None and math.isfinite(v) and float(v).is_integer() for v in (hi if intside == 'hi' else lo)):
            # bounds as a user types them: whole numbers as python ints on one side, fractions on the other
            s.SetStrictRanges(asint(lo) if intside == 'lo' else list(lo), asint(hi) if intside == 'hi' else list(hi), tight=tight, clip=clip)
            self.ctx.label('integer-typed-bounds:' + intside)
        else:
            s.SetStrictRanges(list(lo), list(hi), tight=tight, clip=clip)
        elo = [-1e3 if v is None else v for v in lo]; ehi = [1e3 if v is None else v for v in hi]
        self.cur_box = (elo, ehi); self.cur_mode = [tight, clip]; self.ranges_on = True
        self.box_log.append((self.cost.ncalls(), (elo, ehi)))
        if self.iters() == 0 and self.box_since_start is None and not self.box_changed:
            self.box_since_start = (elo, ehi)
        else:
            self.box_changed = True
            self.ctx.label('ranges-installed-midrun')
        self.moved_by_ranges = True
        self.redecorate(); self.invariants('ranges')

    def mark_nontrivial(self):
        ctx = self.ctx
        ctx.label('solver:' + self.kind)
        if self.redecorated: ctx.label('redecorated')
        if self.restarts: ctx.label('restarted')
        if self.continued: ctx.label('continued-after-stop')
        if self.solves: ctx.label('solve')
        if self.active == 'C02':
            pusher = bool(self.cur_con) and self.cur_con.get('kind') == 'push'
            if pusher: ctx.label('pusher-active')
            ctx.nontrivial(self.ranges_on and self.iters() >= 2 and
                           (pusher or 'ranges-installed-midrun' in ctx.labels or 'all-trials-rejected' in ctx.labels
                            or 'some-trial-rejected' in ctx.labels))
        elif self.active == 'C04':
            ctx.nontrivial((self.redecorated or self.continued) and self.iters() - 1 >= 3)
        else:
            ctx.nontrivial((self.limits_special or self.solves >= 2) and self.iters() >= 2)

    def close(self):
        pass


# --------------------------------------------------------------------------- generation
@st.composite
def headers(draw, tier, for_prop):
    kind = draw(st.sampled_from(lab.SOLVERS))
    dim = draw(st.integers(1, 3 if tier == 'quick' else 4))
    h = dict(solver=kind, dim=dim, seed=draw(st.integers(0, 2 ** 20)))
    if kind in ('DE', 'DE2'):
        h['strategy'] = draw(st.sampled_from(lab.STRATEGIES))
        h['npop'] = draw(st.integers(max(dim, lab.min_npop(h['strategy'])), 8))
    fams = ('quad', 'rosen', 'abs', 'cos', 'plateau') + (('infhalf',) if draw(st.integers(0, 4)) == 0 else ())
    h['cost'] = draw(lab.cost_specs(dim, families=fams))
    if kind in ('DE', 'DE2') and draw(st.booleans()):
        lo = draw(st.lists(finite_floats(-4, 0), min_size=dim, max_size=dim))
        h['init'] = dict(kind='random', lo=lo, hi=[l + draw(st.sampled_from([1.0, 3.0, 6.0])) for l in lo])
    else:
        h['init'] = dict(kind='point', x0=draw(st.lists(st.one_of(st.sampled_from([0.0, 1.0, -1.2, 2.5]), finite_floats(-4, 4)),
                                                         min_size=dim, max_size=dim)))
    h['evalmon'] = draw(st.sampled_from([None, 'plain', 'plain', 'verbose', 'logging', 'plain:64', 'plain:0.25']))
    h['stepmon'] = draw(st.sampled_from([None, None, 'plain', 'verbose', 'logging', 'vlogging']))
    h['term'] = draw(st.sampled_from(['never', 'never', 'cog', 'vtr', 'default', 'ncog'] + TERMS_MORE))
    if draw(st.booleans()):
        h['limits'] = [draw(st.sampled_from([None, 0, 1, 2, 3, 5, 8])), draw(st.sampled_from([None, None, 0, 1, 5, 20, 60]))]
    else:
        h['limits'] = None
    if for_prop in ('C04', 'C05') and draw(st.integers(0, 2)) == 0:
        h['savefreq'] = draw(st.sampled_from([1, 1, 2, 3]))
    return h


def machine_factory(for_prop):
    def factory(tier, Base):
        class SolverMachine(Base):
            OPEN = staticmethod(lambda case, ctx: SolverState(case, ctx, for_prop))
            APPLY = staticmethod(lambda state, op, ctx: state.apply(op))
            CLOSE = staticmethod(lambda state: state.close())

            @initialize(h=headers(tier, for_prop))
            def init(self, h):
                self.start(h)

            @rule(n=st.integers(1, 4))
            def step(self, n):
                self.do(['step', n])

            @rule(g=st.sampled_from([None, 0, 1, 2, 3, 6]))
            def solve(self, g):
                self.do(['solve', g])

            @rule(g=st.sampled_from([None, 0, 1, 2, 3, 5, 9]), e=st.sampled_from([None, None, 0, 1, 7, 30, 90]), new=st.booleans())
            def limits(self, g, e, new):
                self.do(['limits', g, e, new])

            @rule(data=st.data())
            def constraints(self, data):
                dim = self.case['dim'] if self.case else 1
                spec = data.draw(st.one_of(st.none(), lab.constraint_specs(dim, symbolic=False)))
                self.do(['constraints', spec])

            @rule(data=st.data())
            def penalty(self, data):
                dim = self.case['dim'] if self.case else 1
                self.do(['penalty', data.draw(st.one_of(st.none(), lab.penalty_specs(dim)))])

            @rule(data=st.data(), tc=st.sampled_from([(None, None), (True, None), (False, None), (True, True), (None, True)]))
            def ranges(self, data, tc):
                dim = self.case['dim'] if self.case else 1
                if data.draw(st.integers(0, 5)) == 0:
                    self.do(['ranges', None])
                else:
                    lo, hi = data.draw(lab.boxes(dim))
                    self.do(['ranges', lo, hi, tc[0], tc[1]])

            @rule(r=st.sampled_from([None, dict(kind='sum'), dict(kind='max'), dict(kind='add2')]))
            def reducer(self, r):
                self.do(['reducer', r])

            @rule(t=st.sampled_from(['never', 'cog', 'vtr', 'default', 'ncog'] + TERMS_MORE))
            def term(self, t):
                self.do(['term', t])

            @rule(kind=st.sampled_from(['plain', 'verbose', 'logging', 'plain:64', 'plain:0.25', 'verbose:-1']), new=st.booleans())
            def evalmon(self, kind, new):
                self.do(['evalmon', kind, new])

            @rule(kind=st.sampled_from(['plain', 'verbose', 'logging', 'vlogging', 'plain:64', 'plain:0.25', 'verbose:-1']))
            def stepmon(self, kind):
                self.do(['stepmon', kind])

            @rule()
            def finalize(self):
                self.do(['finalize'])

            @rule(e=st.sampled_from([None, 'plain', 'verbose']), g=st.sampled_from([None, None, 'plain', 'logging']))
            def step_kw(self, e, g):
                if e or g:
                    self.do(['step_kw', dict(evalmon=e, stepmon=g)])

            @rule(t=st.sampled_from(['cog', 'vtr', 'ncog', 'or', 'vtrcog', 'spread', 'never']))
            def step_term(self, t):
                self.do(['step_term', t])

            @rule(how=st.sampled_from(['save', 'dill', 'periodic', 'periodic']))
            def restart(self, how):
                if how == 'periodic':
                    if not (self.case and self.case.get('savefreq')):
                        how = 'save'
                    else:
                        self.do(['step', 1])       # the restart file is as old as the last iteration that wrote it
                self.do(['restart', how])

            if for_prop == 'C05':
                @rule()
                def request_exit(self):
                    self.do(['exit'])

        return SolverMachine
    return factory


def c02_machine_factory(tier, Base):
    modes = [(None, None), (True, None), (False, None), (True, True), (None, True), (True, False), (None, False),
             (False, True), (False, False)]

    class RangesMachine(Base):
        OPEN = staticmethod(lambda case, ctx: SolverState(case, ctx, 'C02'))
        APPLY = staticmethod(lambda state, op, ctx: state.apply(op))
        CLOSE = staticmethod(lambda state: state.close())

        @initialize(h=headers(tier, 'C02'))
        def init(self, h):
            h = dict(h); h['term'] = 'never'; h['limits'] = None
            self.start(h)

        @rule(n=st.integers(1, 3))
        def step(self, n):
            self.do(['step', n])

        @rule(data=st.data(), tc=st.sampled_from(modes))
        def ranges(self, data, tc):
            dim = self.case['dim'] if self.case else 1
            if data.draw(st.integers(0, 9)) == 0:
                self.do(['ranges', None])
                return
            lo, hi = data.draw(lab.boxes(dim, integer=data.draw(st.booleans()), allow_inf=True))
            if self.state is not None and data.draw(st.integers(0, 3)) == 0:
                # a box that hugs the current best point (a bound within a few percent of it, the other side far or
                # open): the simplex / trial offsets computed from the point then cross the bound
                try:
                    best = [float(v) for v in self.state.solver.bestSolution]
                except Exception:
                    best = []
                if len(best) == dim and all(math.isfinite(v) and abs(v) < 100.0 for v in best):
                    for i, x in enumerate(best):
                        d = data.draw(st.sampled_from([0.0, 0.01, 0.03, 0.04, 0.1])); far = data.draw(st.sampled_from(['inf', 'inf', 5.0, 0.5]))
                        eps = abs(x) * d + (1e-4 if d else 0.0)
                        if data.draw(st.booleans()):
                            lo[i] = x - eps; hi[i] = 'inf' if far == 'inf' else x + far
                        else:
                            hi[i] = x + eps; lo[i] = '-inf' if far == 'inf' else x - far
            lo = [None if data.draw(st.integers(0, 11)) == 0 else v for v in lo]
            hi = [None if data.draw(st.integers(0, 11)) == 0 else v for v in hi]
            intside = data.draw(st.sampled_from([None, None, None, 'hi', 'lo']))
            if intside:
                # the other side gets fractional values (the box stays non-empty)
                for i in range(dim):
                    if intside == 'hi' and isinstance(hi[i], float) and isinstance(lo[i], float) and math.isfinite(hi[i]) and math.isfinite(lo[i]):
                        hi[i] = float(math.ceil(hi[i])); lo[i] = min(lo[i], hi[i]) - data.draw(st.sampled_from([0.25, 0.5, 0.75]))
                    if intside == 'lo' and isinstance(hi[i], float) and isinstance(lo[i], float) and math.isfinite(hi[i]) and math.isfinite(lo[i]):
                        lo[i] = float(math.floor(lo[i])); hi[i] = max(lo[i], hi[i]) + data.draw(st.sampled_from([0.25, 0.5, 0.75]))
            self.do(['ranges', lo, hi, tc[0], tc[1], intside])

        @rule(data=st.data())
        def constraints(self, data):
            dim = self.case['dim'] if self.case else 1
            push = st.builds(lambda i, d, ip, r: dict(kind='push', i=i, d=d, inplace=ip, ret=r),
                             st.integers(0, dim - 1), st.sampled_from([0.5, -0.5, 3.0, -10.0, 1e-9]),
                             st.booleans(), st.sampled_from(['same', 'list', 'array']))
            spec = data.draw(st.one_of(st.none(), push, push, lab.constraint_specs(dim, symbolic=False)))
            self.do(['constraints', spec])

        @rule(data=st.data())
        def penalty(self, data):
            dim = self.case['dim'] if self.case else 1
            self.do(['penalty', data.draw(st.one_of(st.none(), lab.penalty_specs(dim)))])

    return RangesMachine
