"""Coverage-guided driver for the same generated-input tests (thorough tier extra).

    python -m vp.fuzz PROP TEST --runs N --seed S --out summary.json

libFuzzer (through atheris) owns the byte string; Hypothesis' ``fuzz_one_input`` turns it into
the choice sequence of the test's strategy, so the case, the oracle, the known-finding routing and
the replay format are exactly those of the ordinary run - only the search is guided by coverage
of the instrumented ``mystic`` modules instead of being random.  A Violation is written as a
replay file at once (libFuzzer aborts the process on an exception and atexit handlers do not run)
and the process exits with status 1; counters are flushed to --out every 25 cases.
Exit status: 0 campaign finished, 1 violation (replay path is in the summary), 2 harness error.
"""
import os, sys, json, time, importlib, traceback

VERIF = os.path.dirname(os.path.dirname(os.path.abspath(__file__)))
REPO = os.environ.get('VERIF_REPO', '/repo')
for _p in (os.path.join(VERIF, '.deps'),):
    if os.path.isdir(_p) and _p not in sys.path:
        sys.path.insert(1, _p)
for _p in (REPO, VERIF):
    if _p not in sys.path:
        sys.path.insert(0, _p)

MODS = ['mystic', 'mystic.symbolic', 'mystic._symbolic', 'mystic.constraints', 'mystic.penalty', 'mystic.coupler',
        'mystic.termination', 'mystic.monitors', 'mystic.munge', 'mystic.tools', 'mystic.collapse', 'mystic.mask',
        'mystic.math.measures', 'mystic.math.discrete', 'mystic.math.approx', 'mystic.math.grid', 'mystic.math.samples',
        'mystic.abstract_solver', 'mystic.differential_evolution', 'mystic.scipy_optimize', 'mystic.strategy',
        'mystic.abstract_ensemble_solver', 'mystic.ensemble']


def main(argv=None):
    import argparse
    ap = argparse.ArgumentParser()
    ap.add_argument('prop'); ap.add_argument('test')
    ap.add_argument('--runs', type=int, default=2000)
    ap.add_argument('--seed', type=int, default=1)
    ap.add_argument('--out', default=None)
    ap.add_argument('--tier', default='thorough')
    a = ap.parse_args(argv)
    import warnings
    warnings.filterwarnings('ignore')
    try:
        import atheris
    except Exception as e:
        print('HARNESS-ERROR: atheris is not importable (%s)' % e)
        return 2
    with atheris.instrument_imports(include=['mystic'], enable_loader_override=False):
        for m in MODS:
            try:
                importlib.import_module(m)
            except Exception:
                pass
    from vp import runner
    from hypothesis import given, settings, HealthCheck, Phase
    import hypothesis
    prop = a.prop.upper()
    mod = importlib.import_module('vp.props.%s' % prop.lower())
    test = [t for t in mod.TESTS if t.name == a.test][0]
    if test.machine is not None:
        print('HARNESS-ERROR: state-machine tests are not driven by the fuzzer')
        return 2
    known = getattr(mod, 'KNOWN', {})
    open_ids = runner.open_ids_for(prop)
    col = runner.Collector()
    t0 = time.time()
    state = {'violation': None}

    def flush(status='running'):
        if a.out:
            d = col.dump()
            d.update(status=status, wall_s=round(time.time() - t0, 2), test=a.test, seed=a.seed, violation=state['violation'],
                     nontrivial=len(d['nontrivial']))
            d.pop('samples', None)
            with open(a.out + '.tmp', 'w') as fh:
                runner.jdump(d, fh)
            os.replace(a.out + '.tmp', a.out)

    st = settings(database=None, deadline=None, derandomize=False, report_multiple_bugs=False,
                  suppress_health_check=list(HealthCheck), verbosity=hypothesis.Verbosity.quiet,
                  phases=[Phase.generate])

    @settings(st)
    @given(test.strategy(a.tier))
    def t(case):
        try:
            ctx = runner.run_case(test, case, prop, known, open_ids)
        except runner.Violation as v:
            failure = {'case': json.loads(runner.jdump(case)), 'subcheck': v.subcheck, 'detail': json.loads(runner.jdump(v.detail))}
            rel = runner.write_replay(prop, failure, a.test, a.seed, tag='viol-fuzz')
            state['violation'] = {'replay': rel, 'subcheck': v.subcheck}
            print('  failing sub-check: %s' % runner.jdump({'subcheck': v.subcheck, 'detail': v.detail})[:1500])
            print('VIOLATION property=%s replay=%s' % (prop, rel))
            sys.stdout.flush()
            flush('violation')
            os._exit(1)
        except runner.HarnessError as e:
            print('HARNESS-ERROR: %s' % e)
            sys.stdout.flush()
            flush('harness')
            os._exit(2)
        col.add(case, ctx)
        if col.cases % 25 == 0:
            flush()

    fuzz_one = t.hypothesis.fuzz_one_input

    def one(data):
        try:
            fuzz_one(data)
        except (SystemExit, KeyboardInterrupt):
            raise
        except BaseException:
            # anything else escaping here is a harness problem, not a property violation
            print('HARNESS-ERROR: %s' % traceback.format_exc()[-1500:])
            sys.stdout.flush()
            flush('harness')
            os._exit(2)

    args = [sys.argv[0], '-runs=%d' % a.runs, '-seed=%d' % (a.seed or 1), '-max_len=8192', '-len_control=0', '-print_final_stats=0', '-verbosity=0']
    atheris.Setup(args, one)
    flush()
    try:
        atheris.Fuzz()
    finally:
        flush('done')
    return 0


if __name__ == '__main__':
    sys.exit(main())
