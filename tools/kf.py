#!/venv/bin/python
"""maintain known_findings.json (never called by a check):
   tools/kf.py open  ID PROP "what" --replay replays/PROP/kf-x.json --subchecks a,b
   tools/kf.py fixed ID PROP COMMIT "what" --replay replays/PROP/reg-x.json
   tools/kf.py mkreplay PROP TEST OUT.json '<case json>' [--subcheck s]   (writes a replay file from a literal case)
"""
import sys, os, json, argparse
VERIF = os.path.dirname(os.path.dirname(os.path.abspath(__file__)))
P = os.path.join(VERIF, 'known_findings.json')


def load():
    return json.load(open(P))


def save(d):
    for e in d['findings']:
        if e.get('status') == 'fixed':
            e['line'] = 'fixed: property=%s %s %s' % (e['property'], e.get('commit', ''), e['what'])
    json.dump(d, open(P, 'w'), indent=1)
    print('known_findings.json: %d entries' % len(d['findings']))


def main():
    ap = argparse.ArgumentParser()
    sub = ap.add_subparsers(dest='cmd')
    o = sub.add_parser('open'); o.add_argument('id'); o.add_argument('prop'); o.add_argument('what')
    o.add_argument('--replay', default=None); o.add_argument('--subchecks', default='')
    f = sub.add_parser('fixed'); f.add_argument('id'); f.add_argument('prop'); f.add_argument('commit'); f.add_argument('what')
    f.add_argument('--replay', default=None)
    m = sub.add_parser('mkreplay'); m.add_argument('prop'); m.add_argument('test'); m.add_argument('out'); m.add_argument('case')
    m.add_argument('--subcheck', default=''); m.add_argument('--note', default='')
    a = ap.parse_args()
    if a.cmd == 'mkreplay':
        case = json.loads(a.case) if not os.path.exists(a.case) else json.load(open(a.case))
        if 'case' in case and 'property' in case:
            case = case['case']
        rec = {'property': a.prop, 'test': a.test, 'subcheck': a.subcheck, 'detail': {'note': a.note}, 'case': case, 'seed': 0}
        out = os.path.join(VERIF, 'replays', a.prop, a.out)
        os.makedirs(os.path.dirname(out), exist_ok=True)
        json.dump(rec, open(out, 'w'), indent=1, sort_keys=True)
        print('wrote', out)
        return
    d = load()
    if a.cmd == 'open':
        d['findings'] = [e for e in d['findings'] if not (e.get('id') == a.id and e.get('property') == a.prop)]
        d['findings'].append({'id': a.id, 'status': 'open', 'property': a.prop, 'what': a.what,
                              'subchecks': [s for s in a.subchecks.split(',') if s], 'replay': a.replay})
    elif a.cmd == 'fixed':
        d['findings'] = [e for e in d['findings'] if not (e.get('id') == a.id and e.get('property') == a.prop)]
        d['findings'].append({'id': a.id, 'status': 'fixed', 'property': a.prop, 'commit': a.commit, 'what': a.what,
                              'replay': a.replay})
    save(d)


if __name__ == '__main__':
    main()
