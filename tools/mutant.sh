#!/bin/sh
# usage: tools/mutant.sh PROP file 's/old/new/' [extra check args]   -- runs the check against a mutated scratch copy of /repo
PROP=$1; FILE=$2; SED=$3; shift 3
D=$(mktemp -d /tmp/mut-XXXXXX)
mkdir -p $D/repo && cp -r /repo/mystic $D/repo/mystic
before=$(md5sum $D/repo/mystic/$FILE | cut -d' ' -f1)
sed -i "$SED" $D/repo/mystic/$FILE
after=$(md5sum $D/repo/mystic/$FILE | cut -d' ' -f1)
if [ "$before" = "$after" ]; then echo "MUTANT DID NOT APPLY: $SED"; rm -rf $D; exit 3; fi
cd /verif && VERIF_REPO=$D/repo ./check $PROP --no-evidence "$@" > $D/out.txt 2>&1; rc=$?
grep -m1 "failing sub-check" $D/out.txt | cut -c1-220
echo "exit=$rc  mutant: $FILE $SED"
rm -rf $D
rm -f /verif/replays/$PROP/viol-*
exit 0
