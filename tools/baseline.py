#!/venv/bin/python
"""run the pinned test suite (guard off) and compare with /root/.vp/BASELINE.json stable_pass"""
import json, subprocess, sys, tempfile, os, xml.etree.ElementTree as ET
repo = sys.argv[1] if len(sys.argv) > 1 else '/repo'
base = json.load(open('/root/.vp/BASELINE.json'))
fd, out = tempfile.mkstemp(suffix='.xml'); os.close(fd)
env = dict(os.environ); env.pop('MYSTIC_VERIF', None)
subprocess.run(['/venv/bin/python', '-m', 'pytest', '-ra', '-q', '-p', 'no:cacheprovider', '--timeout=900',
                '--continue-on-collection-errors', '--junitxml=' + out], cwd=repo, env=env,
               stdout=subprocess.DEVNULL, stderr=subprocess.DEVNULL)
passed = set(); other = {}
for tc in ET.parse(out).getroot().iter('testcase'):
    name = '%s::%s' % (tc.get('classname'), tc.get('name'))
    bad = [c.tag for c in tc if c.tag in ('failure', 'error', 'skipped')]
    if bad: other[name] = bad[0]
    else: passed.add(name)
os.unlink(out)
want = set(base['stable_pass'])
missing = sorted(want - passed)
print('baseline: %d stable_pass, %d passed now, %d missing, %d newly passing' % (len(want), len(passed), len(missing), len(passed - want)))
for m in missing: print('  MISSING', m, other.get(m))
for m in sorted(passed - want): print('  NEW', m)
sys.exit(1 if missing else 0)
