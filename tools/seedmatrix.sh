#!/bin/sh
# usage: tools/seedmatrix.sh [dir-name ...]   (default: every directory under seeded/)
#   runs the quick tier of the property's own check against every seeded change (scratch copy, never /repo) and
#   writes seeded/<name>/detect.json {check, exit, subcheck}; prints one markdown table row per change.
cd /verif
S=${VERIF_SEED:-1}; OUT=detect.json; [ "$S" != "1" ] && OUT=detect-s$S.json
L="$@"; [ -z "$L" ] && L=$(ls seeded | grep -v -e PROMPT -e RESULTS)
for d in $L; do
  [ -f seeded/$d/patch.diff ] || continue
  P=$(python3 -c "import json;print(json.load(open('seeded/$d/meta.json'))['property'][:3])" 2>/dev/null); [ -z "$P" ] && P=$(echo $d | cut -c1-3)
  D=$(mktemp -d /tmp/seedrun-XXXXXX); mkdir -p $D/repo && cp -r /repo/mystic $D/repo/mystic
  if ! ( cd $D/repo && patch -p1 -s < /verif/seeded/$d/patch.diff ); then echo "| $d | $P | PATCH DOES NOT APPLY | |"; rm -rf $D; continue; fi
  VERIF_REPO=$D/repo ./check $P --no-evidence > $D/out 2>&1; rc=$?
  sub=$(grep -m1 -o '"subcheck": "[^"]*"' $D/out | cut -d'"' -f4)
  after=$(grep -m1 -o '"after_cases": [0-9]*' $D/out | grep -o '[0-9]*')
  printf '{"check": "%s", "seed": "%s", "exit": %s, "subcheck": "%s", "after_cases": "%s"}\n' "$P" "$S" "$rc" "$sub" "$after" > seeded/$d/$OUT
  what=$(python3 -c "import json;print(json.load(open('seeded/$d/meta.json')).get('summary','')[:150].replace('|','/'))" 2>/dev/null)
  echo "| $d | $P | $( [ $rc -eq 1 ] && echo "caught: $sub (shard's case #$after)" || echo "MISSED (exit $rc)" ) | $what |"
  rm -f replays/$P/viol-*; rm -rf $D
done
