#!/bin/sh
# usage: tools/seedrun.sh <seed dir with patch.diff> PROP [PROP...]
#   applies the patch to a scratch copy of /repo's working tree (never to /repo itself), runs the demo
#   (if any) and the quick tier of the named checks against the copy, prints one line per check, deletes the copy.
#   extra env: SEEDRUN_ARGS="--scale 2" is passed to ./check
DIR=$(cd "$1" && pwd); shift
[ -f "$DIR/patch.diff" ] || { echo "no patch.diff in $DIR"; exit 3; }
D=$(mktemp -d /tmp/seedrun-XXXXXX)
mkdir -p $D/repo && cp -r /repo/mystic $D/repo/mystic
( cd $D/repo && git init -q . 2>/dev/null; patch -p1 -s < "$DIR/patch.diff" ) || { echo "PATCH DID NOT APPLY: $DIR"; rm -rf $D; exit 3; }
if [ -f "$DIR/demo.py" ]; then
  ( cd $D/repo && PYTHONPATH=$D/repo /venv/bin/python "$DIR/demo.py" >$D/demo.out 2>&1 ); echo "demo exit=$? (expected 1 with the patch)  $(tail -1 $D/demo.out | cut -c1-160)"
fi
cd /verif
for P in "$@"; do
  VERIF_REPO=$D/repo ./check $P --no-evidence $SEEDRUN_ARGS > $D/out.$P 2>&1; rc=$?
  echo "check $P exit=$rc  $(grep -m1 'failing sub-check' $D/out.$P | cut -c1-260)"
  [ $rc -eq 2 ] && grep -m3 HARNESS $D/out.$P | cut -c1-400
  rm -f /verif/replays/$P/viol-*
done
rm -rf $D
