#!/bin/sh
# usage: tools/seedverify.sh <dir containing patch.diff demo.py> [--no-baseline]
#   independent confirmation of a seeded change in a scratch git worktree of /repo (never in /repo's working tree):
#   demo passes on the clean tree, fails with the patch, pinned suite has 0 missing with the patch.
#   Writes <dir>/verify.json and removes the worktree.
DIR=$(cd "$1" && pwd); NB=$2
N=$(echo "$DIR" | tr '/' '_')
W=/tmp/wtv/$N
mkdir -p /tmp/wtv; git -C /repo worktree remove --force $W 2>/dev/null
git -C /repo worktree add --detach $W HEAD -q || exit 3
cd $W
PYTHONPATH=$W /venv/bin/python $DIR/demo.py > $W/.clean.out 2>&1; clean=$?
if ! git apply $DIR/patch.diff 2>/dev/null; then
  echo "{\"applies\": false}" > $DIR/verify.json; cd /; git -C /repo worktree remove --force $W; echo "$DIR: PATCH DOES NOT APPLY"; exit 3
fi
PYTHONPATH=$W /venv/bin/python $DIR/demo.py > $W/.patched.out 2>&1; patched=$?
missing=-1
if [ "$NB" != "--no-baseline" ]; then
  /venv/bin/python /verif/tools/baseline.py $W > $W/.base.out 2>&1
  missing=$(grep -o '[0-9]* missing' $W/.base.out | head -1 | cut -d' ' -f1)
  [ -z "$missing" ] && missing=-2
fi
head=$(git -C /repo log --format=%h -1)
printf '{"applies": true, "repo_head": "%s", "demo_exit_clean": %s, "demo_exit_patched": %s, "baseline_missing": %s, "patched_says": %s}\n' \
  "$head" "$clean" "$patched" "$missing" "$(tail -1 $W/.patched.out | cut -c1-200 | /venv/bin/python -c 'import json,sys; print(json.dumps(sys.stdin.read().strip()))')" > $DIR/verify.json
cd /; git -C /repo worktree remove --force $W
echo "$DIR: $(cat $DIR/verify.json)"
