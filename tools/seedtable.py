#!/usr/bin/env python3
"""replace the generated table of seeded changes in DESIGN.md (section 11.3) by the current output of tools/seedmeta.py"""
import subprocess, os, sys
V = os.path.dirname(os.path.dirname(os.path.abspath(__file__)))
t = subprocess.run([sys.executable, os.path.join(V, 'tools', 'seedmeta.py')], capture_output=True, text=True).stdout.rstrip('\n').split('\n')
L = open(os.path.join(V, 'DESIGN.md')).read().split('\n')
i = next(k for k, l in enumerate(L) if l.startswith('| seeded change | property |'))
j = i
while j < len(L) and L[j].startswith('|'):
    j += 1
L[i:j] = t
open(os.path.join(V, 'DESIGN.md'), 'w').write('\n'.join(L))
print('table: %d rows' % (len(t) - 2))
