#!/bin/sh
# usage: tools/seedtake.sh CNN [PROP...]  - take the deliverables of a seeding agent from /tmp/seed/CNN/{A,B} into seeded/CNN-{A,B},
# drop its worktree, and run the named checks (default: CNN) against each patched copy
id=$1; shift; P="$@"; [ -z "$P" ] && P=$id
cd /verif
git -C /repo worktree remove --force /tmp/wt/$id 2>/dev/null
for v in A B; do
  mkdir -p seeded/$id-$v
  cp /tmp/seed/$id/$v/patch.diff /tmp/seed/$id/$v/demo.py /tmp/seed/$id/$v/meta.json seeded/$id-$v/ 2>/dev/null
  echo "== $id-$v: $(python3 -c "import json;print(json.load(open('seeded/$id-$v/meta.json')).get('summary','')[:200])" 2>/dev/null)"
  tools/seedrun.sh seeded/$id-$v $P
done
