#!/venv/bin/python
"""regenerate MANIFEST.json from the table below (keeps the file valid and consistent)"""
import json, os
VERIF = os.path.dirname(os.path.dirname(os.path.abspath(__file__)))
ALL = ['C%02d' % i for i in range(1, 21)]

CHECKS = {
 'C01': dict(
   technique="property-based testing (Hypothesis @given): generated solver configurations driven step-wise; oracle = the harness's own record of every cost call plus an unrecorded twin of the cost, penalty and constraint",
   text="Generated-configuration search over DE, DE2, Nelder-Mead, Powell (class API, observed after every Step) and the seven one-call wrappers: whenever bestEnergy is finite, bestSolution must be bit-equal to a vector the recording cost function was called with, bestEnergy must equal reducer(recorded value) + penalty(bestSolution) (exact for scalar costs), every population/simplex member's stored energy must equal the harness-computed objective (inf outside the box, cost+penalty of the constrained point otherwise), and the best never exceeds the initial guess's energy; wrappers' (x, fval, iter, funcalls) must agree with the recorder. Exploration only.",
   note="Trusted: recording cost/constraint/penalty catalog objects (harness), mystic.penalty formulas (C15), numpy. Domain: deterministic idempotent box-compatible constraints (constructed and re-checked), no NaN costs, range modes except the randomising clip=False. Open known finding F8 (sum-type reducer + penalty).",
   design="DESIGN.md section 5, C01"),
 'C02': dict(
   technique="stateful property-based testing (Hypothesis RuleBasedStateMachine) + @given for initial points; oracle = closed-interval test of every recorded cost call against the box in force at the time",
   text="Generated histories interleave SetStrictRanges (degenerate, None, +-inf sides; all nine tight x clip combinations; changed/removed mid-run) with Step, pusher and catalog constraints and penalties for all four solvers; every call the recording cost function receives must lie in the box then in force, invalid mode combinations must raise the documented ValueError, the reported best must be inside the box when ranges were in force from the start and the energy is finite, and SetRandomInitialPoints / wrappers given (min,max) pairs must start inside their limits. Exploration only.",
   note="Trusted: the recorder; None sides = solver default +-1e3. Open known findings F17 (all-degenerate box + tight=True crashes), F18 (infinite side installed mid-run -> NaN coordinates evaluated), F19 (Nelder-Mead best vertex pushed without re-evaluation).",
   design="DESIGN.md section 5, C02"),
 'C03': dict(
   technique="property-based testing (Hypothesis @given): generated constrained configurations; oracle = the catalog's independent exact predicate sat(x) applied to every recorded cost call and to the reported solution",
   text="Generated-configuration search with a deterministic, idempotent, box-compatible constraint always installed (pin, clamp, grid, affine tie, sort, symbolic-generated; pure and in-place; list/array returning), from the start or after k steps, all range modes except clip=False, stops by tiny limits: every recorded evaluation made while the constraint is installed must satisfy it exactly, and (constraint from the start, finite energy) the reported solution must satisfy it with bestEnergy equal to the objective at that constrained point and solution_history ending in it. Exploration only.",
   note="Trusted: catalog predicates (they set values, no solving); the recorder. Result checks are skipped (and counted) when the best energy is not finite. Open known finding F8 shared with C01.",
   design="DESIGN.md section 5, C03"),
 'C04': dict(
   technique="stateful property-based testing (Hypothesis RuleBasedStateMachine): generated Step/Solve/Set*/Finalize histories checked after every operation against the harness's own recorder of cost calls and callbacks",
   text="Generated-history search over DE, DE2, Nelder-Mead and Powell: after every operation the evaluation counter must equal the number of calls the recording cost function received, the evaluation monitor must hold exactly those (x, cost) pairs in order, generations must equal completed iterations (callback count - 1), the energy history must be non-increasing within a segment of unchanged objective and end in bestEnergy, a stopped run's step monitor must have generations+1 records ending in the reported result, and each Step triggers at most one callback whose argument is the current best. Exploration: thousands of histories per run, shrunk traces replayable without Hypothesis.",
   note="Trusted: the recording cost object (harness), Hypothesis; constraints come from an idempotent catalog and are kept compatible with the ranges in force (the property's precondition); after SetStrictRanges moved members in place, 'last record == reported result' is suspended until the next iteration (counted in evidence.excluded).",
   design="DESIGN.md section 5, C04"),
 'C05': dict(
   technique="stateful property-based testing (Hypothesis RuleBasedStateMachine) against an explicit model of the documented limit/termination semantics",
   text="Same generated histories as C04 plus exit requests (through mystic._signal.Handler with input patched) and limit pairs incl. 0, 1, None, new=True/False. A Python model keeps the absolute limits as documented; before every Step it decides from its own counts whether the solver must refuse to start (limit reached, termination true, exit requested): then no cost call, no callback and a message; otherwise exactly one iteration. Solve runs under a callback guard (must return within the model's generation limit); stop messages must name a condition true of the final state. Second test: the one-call wrappers fmin / fmin_powell / diffev / diffev2 with generated maxiter (incl. 0) and maxfun: the returned warnflag must name a limit that the harness's own counts (recorded cost calls, callback invocations) show to be reached, 0 only when neither is, and the counts respect the limits up to one iteration's worth. Exploration only; 'Solve always returns' is a bounded check.",
   note="Trusted: the model's reading of SetEvaluationLimits (new=True counts from the call; None = nDim*nPop*scale, counted from the solver's next look at its limits when new), termination conditions themselves (checked by C10), the recorder.",
   design="DESIGN.md section 5, C05"),
 'C06': dict(
   technique="property-based testing (Hypothesis @given), differential/metamorphic oracle: the same generated configuration run uninterrupted vs checkpointed-restored-continued, compared snapshot by snapshot for exact equality",
   text="Generated (configuration, interruption generation k, continuation length m, restore path) tuples for DE, DE2, Nelder-Mead, Powell with bounds, catalog constraints (incl. symbolic-generated and in-place), mystic penalties, plain/verbose/logging monitors and save frequencies; restore paths SaveSolver->LoadSolver, periodic SetSaveFrequency dump->LoadSolver (file bytes copied at once), dill dumps/loads and copy.deepcopy. With the RNG states captured at the checkpoint restored, every snapshot of the continued solver (populations, energies, best, counters, both monitors, energy history) must equal the uninterrupted run's exactly; advancing the restored/copied solver must leave the original's snapshot unchanged and vice versa, and the copy's evaluation counter must grow by exactly the calls made while it is stepped. Exploration only.",
   note="Trusted: dill; the recorder shared through a registry (calls attributed by deltas); 'same random-generator state' = python random + numpy.random global states. A periodic dump is compared from the generation it holds.",
   design="DESIGN.md section 5, C06"),
 'C07': dict(
   technique="property-based testing (Hypothesis @given), metamorphic oracle: permuted/duplicated Set* calls and harness-owned maps (serial, reversed, shuffled, threaded, forked) must give trajectories exactly equal to the canonical order / python_map",
   text="Three generated metamorphic relations, all comparing complete trajectories (snapshot after every Step) exactly: (order/dup) the configuration's Set* calls in a drawn permutation with the initial-points call at a drawn position (RNG reseeded right before it only) and setters optionally repeated vs the canonical order; (map) DE2 under harness-owned maps that evaluate in reversed/shuffled order, in threads or in forked processes vs python_map; (ensemble) Lattice/Buckshot with Nelder-Mead/Powell members under each map and in step-wise vs run-to-completion mode (best, per-member bests, per-member and total evaluations, iterations). Exploration only.",
   note="Trusted: the harness maps return results in index order (the map contract); thread/process schedules are sampled by the OS. Open known finding F21 (tight=True ranges draw from the global random stream).",
   design="DESIGN.md section 5, C07"),
 'C08': dict(
   technique="property-based differential testing (Hypothesis @given) against harness-owned reference implementations (scipy fmin Nelder-Mead loop, Powell direction-set method) and the installed scipy; existential donor search for DE trial vectors; statistical crossover test",
   text="Generated unconstrained problems: NelderMeadSimplexSolver (every Step) and fmin must equal a harness-owned transcription of scipy.optimize.fmin exactly (simplex, counts, warnflag) and the installed scipy.optimize.fmin in counts/result (near-tie guard when x0 has exact zeros, where mystic's zdelt differs by one ulp); PowellDirectionalSolver (every Step: x, fval, direction set, call count) and fmin_powell must equal a harness-owned transcription of Powell's method given mystic's own Brent exactly, with the vendored scipy-0.6 fmin_powell as second opinion; brent is checked against its own record and the installed scipy.optimize.brent. Every DE/DE2 trial vector (ten strategies, CR incl. 0/1) must be explained by some choice of distinct donors with every component bit-equal to the parent's or the strategy formula's value, mutated positions forming a circular run (exp) / non-empty set (bin), everything at CR=1; selection replaces a member iff the recorded trial energy is strictly lower (plateau cost makes ties occur); crossover run-length statistics within 6 sigma. Exploration only.",
   note="Trusted: vp/refs.py transcriptions; installed scipy 1.18 (fmin, brent). Powell's reference is given mystic's brent by design (the property says so). Open known findings F9a (four *Bin strategies use exponential crossover) and F9b (*Exp may mutate nothing).",
   design="DESIGN.md section 5, C08"),
 'C10': dict(
   technique="property-based testing (Hypothesis @given): generated fake solver states x generated And/Or/When trees, checked against the documented inequalities evaluated directly and recursive all/any",
   text="Generated-input search: every built-in condition is compared with its documented inequality (three-valued oracle; undecided inf-inf cases excluded and counted) on generated histories incl. plateaus, ties, +-inf, windows 0/None/longer than the history and tolerances exactly on the boundary; And/Or/When trees to depth 4 are compared with recursive all/any, info strings must name exactly satisfied leaves, and every leaf is rebuilt from type()/state() and must behave identically. Exploration only: held on all generated cases, no proof of absence.",
   note="Trusted: the harness's reading of each docstring inequality (Python indexing for cost[-g], 'history longer than g' window rule, x-x=0 also for +-inf); numpy; TimeLimits only at 0 s/1e9 s.",
   design="DESIGN.md section 5, C10"), 'C16': dict(
   technique="property-based testing (Hypothesis @given), one generated family per decorator; oracle = independent membership predicates for each target set, bit-unchanged unselected entries, conforming-input-unchanged and idempotence relations",
   text="Eight generated families (impose_bounds in all clip/nearest modes with interval lists and dict forms; discrete/integers/rounded/precision; unique/impose_unique; monotonic/sorting; impose_at; impose_as incl. chains and offsets; with_mean/variance/std/spread/normalized; masked/partial/synchronized/clipped/suppressed) over lists and ndarrays of length 1-8 with index selections None/int/negative/tuple/out-of-range: selected entries must land in the target set per a plain-Python predicate, unselected entries stay bit-unchanged, conforming input is returned unchanged, d(d(x)) == d(x) for deterministic transforms (membership only for the randomising ones, RNG seeded from the case). Exploration only.",
   note="Trusted: the per-decorator predicates (read from the docstrings); math.fsum for statistics (rel 1e-7). Tie directions of nearest-member snapping are not asserted. Eight open known findings (F11b, F31-F37) - see known_findings.json; five further defects found by this check were repaired.",
   design="DESIGN.md section 5, C16"),
 'C17': dict(
   technique="property-based testing (Hypothesis @given): generated member-constraint sets (compatible, conflicting, cyclic) with recorder callbacks and a counted RNG; oracle = fixed-point test of the returned vector against every member, exact composition identities for couplers, zero-set relations for penalty combinators",
   text="constraints.and_/or_/not_ over 1-4 idempotent members (pins, clamps, grids, ties; plus a non-idempotent step for or_/not_) with maxiter 1-50, list/ndarray input, exactly-one-callback checks and draw counting for the cycle-breaking path; if onexit fired with v then every member (and_), some member (or_), resp. no member (not_) leaves v unchanged, otherwise onfail fired. inner/outer/additive and their proxies against the composed pure model (exact). coupler.and_/or_/not_ over the eight non-negative penalty types: zero exactly where all/any members are zero, not_ penalises exactly the interior/equality set, default-value identities (sum/min). Exploration only.",
   note="Trusted: the plain-Python member models. Only the 'success implies fixed point' direction is asserted (as the property states). F13 (false success after randomisation) was found by this check and repaired.",
   design="DESIGN.md section 5, C17"),
 'C19': dict(
   technique="property-based testing (Hypothesis @given): generated product-measure / scenario shapes; oracle = Python model of the documented parameter layout and point order (itertools.product), explicit math.fsum sums; round-trip (metamorphic) relations compared by value",
   text="Generated shapes (1-3 factor measures of 1-4 points, unequal sizes, size 1, zero weights, ties, attached values): flatten/load/unflatten round trips, compose/decompose and _pack/_unpack inverses, update() changing exactly the addressed slots, product weights = products of factor weights in the documented first-factor-fastest order, positions = Cartesian product, mass per factor, expect/expect_var/pof/support and per-measure center_mass/range/var/extrema against explicit weighted sums, and the center_mass/range/var setters reaching their value while keeping what impose_* promises. Exploration only.",
   note="Trusted: itertools/math.fsum model; point order taken from the _pack docstring example. Sums compared with rel 1e-9 + cancellation-aware absolute term; setters rel 1e-7.",
   design="DESIGN.md section 5, C19"), 'C15': dict(
   technique="property-based testing (Hypothesis @given) and a stateful RuleBasedStateMachine over iter/store/clear/evaluate sequences; oracle = the documented penalty expressions computed directly plus a Python model of the iteration count and stored multipliers",
   text="All nine penalty types with generated conditions (linear forms and forms dividing by a coordinate), k, h, nesting depth 1-3 and points on both sides of and exactly on the boundary: each level's value equals the decorated value plus the documented expression (k*h^n*f^2, k*h^n*|f|, uniform, 2k-factor inequality forms, the log barrier, both augmented Lagrangians with the multiplier recursion), exactly the decorated value where satisfied and strictly larger where violated (for the types and states where the docstrings promise it), error(x) = violation magnitude combined in quadrature through nesting, iter()/iter(i)/store()/clear() follow the model through nested penalties and clear() restores the n=0 value bit for bit, stacked penalties add, division by zero gives inf. Exploration only.",
   note="Trusted: the harness's reading of each docstring formula. Scope: the blanket 'no penalty where satisfied' clause is not demanded of barrier_inequality nor of Lagrange types with non-zero stored multipliers (documented formula is the oracle there); undefined sums (0*inf, inf-inf) are excluded and counted.",
   design="DESIGN.md section 5, C15"),
 'C18': dict(
   technique="property-based testing (Hypothesis @given), six generated families; oracle = textbook weighted definitions computed independently with math.fsum / exact rational trimming fractions; target-reached and what-is-kept relations for impose_*",
   text="Generated samples (length 2-10, ties) and weights (positive, exact zeros, None): mean/variance/std/moment/spread/norm/support/extrema/ess_*/expectation/expected_variance, median/mad/tmean/tvariance, Lnorm and the distance metrics against explicit formulas; impose_mean/variance/std/spread/moment/median/mad/tmean/tvariance reach their target and keep what the docstrings promise; normalize/impose_sum/impose_product/impose_weight_norm reach totals; impose_support/unweighted/collapse zero exactly the designated weights, conserve total weight and weighted mean and tie collapsed positions; impose_reweighted_* reach targets. Non-degeneracy is constructed. Exploration only.",
   note="Trusted: math.fsum oracles, rel 1e-9 / abs 1e-12 against the size of the summed terms (1e-7 for the reweight family). Weighted median asserted through the convention-free half-mass inequality. Two defects found by this check (weighted median, tools.connected) were repaired.",
   design="DESIGN.md section 5, C18"),
 'C20': dict(
   technique="stateful property-based testing (Hypothesis RuleBasedStateMachine) against a plain-list model for monitor operations, plus @given round-trip tests for log files and raw/support/converge files",
   text="State machine over pools of Monitor/VerboseMonitor/LoggingMonitor/VerboseLoggingMonitor with k in {None,1,-1,2,0.5,3}: record (lists/tuples/arrays, python/numpy scalars, 0-d arrays, vector costs, inf/nan/+-1e+-300, signed zeros, ids), extend, prepend, +, m[i], slices, index lists, min(): after every operation every monitor equals its list model (y exact for power-of-two k, ulp-bounded for k=3), results share nothing with operands, arguments are bit-unchanged. Log files written by the logging monitors (intervals 1-3, appended/truncated, ids, labels) are read back by logfile_reader/read_history to the same iterations/parameters/costs; write_raw_file/write_support_file/write_converge_file/write_monitor output is read back by the matching readers to the same trajectory, including the documented transpositions. Exploration only.",
   note="Trusted: the list model; float repr round trip. In-place self-combination (a.prepend(a)) is excluded (does not return). Six defects found by this check were repaired.",
   design="DESIGN.md section 5, C20"),
 'C11': dict(
   technique="property-based testing (Hypothesis @given): generated monitor histories x tolerances x windows x masks in every accepted format, oracle = the documented collapse definition evaluated directly in Python floats; generated solver runs with Collapse* terminations, oracle = exact relation test on every recorded cost call after a collapse plus mask/termination bookkeeping",
   text="Detector families (collapse_at, collapse_as, collapse_weight, collapse_position, collapse_cost): real Monitor instances are filled with engineered histories (flat, inside/on/just outside the tolerance, tied pairs with and without offset, product-measure layouts) and every detector result must equal the documented definition evaluated directly over the look-back window minus the mask, its own output as mask must yield nothing, malformed masks must raise, the Collapse* termination conditions must agree and mask.update_mask must grow the mask by exactly what was reported. Solver family: DE, Nelder-Mead and Powell on generated costs with flat coordinates and tied pairs under Or(ChangeOverGeneration, CollapseAt(None|scalar|list), CollapseAs): what Collapse() returns must be what the definition gives on the step monitor, masks grow by exactly that, successive collapses are disjoint, every later cost call and the final solution satisfy the applied relations exactly, and Solve returns within the generation budget. Exploration only.",
   note="Trusted: the step monitor as the record of the history; collapse_cost is checked by a validity predicate (no cheap sample excluded) and idempotence, not by re-deriving its intervals; weight/position detectors only for rectangular measures. Five open known findings (collapses from separate Collapse() calls not merged; DE best predates the collapse; collapse_cost zero-width interval reported again; collapse_cost clip drops edge region; CollapseAs(offset=True) imposes +1); two defects found by this check were repaired (list target mis-paired, upper interval value+count).",
   design="DESIGN.md section 5, C11"),
 'C12': dict(
   technique="property-based testing (Hypothesis @given) with a grammar-level generator: constraint systems are generated as trees, rendered to mystic syntax and rewritten by simplify/solve/linear_symbolic/symbolic_bounds; oracle = the harness's own tree interpreter on the input versus an independent eval of mystic's output text at generated points (random, on-boundary, either side of every boundary, exact zero of every sign factor)",
   text="simplify: systems of 1-4 lines over 1-5 variables (linear (in)equalities with any comparator and coefficient scale, rational relations whose direction depends on one variable factor, opposed pairs and bands), all naming schemes incl. indices >= 10 and name lists, options target/cycle/all: at every decided point the input holds iff some returned case holds (all=True) resp. the single returned case implies the input (all=False); systems of short dyadic numbers are compared exactly, including on the boundary and at the zero of a sign factor. solve: consistent full-rank (and redundant-row) linear systems built from a generated solution: every solution (generated one plus null-space shifts from numpy SVD) satisfies the solved form and every point of the solved form satisfies the system. linear_symbolic / symbolic_bounds: text holds exactly where A x = b, G x <= h resp. min <= x <= max hold, incl. None / inf / -0.0 / leading-zero values. Exploration only.",
   note="Trusted: python eval and float arithmetic; relations are decided only at relative margin >= 1e-9 (nearer points skipped and counted) except in exact dyadic systems whose output is also dyadic; solve residual band 1e-9*max(1,cond). Calls that could reach solve()'s factorial fallback (>= 9 variables) run in a forked child with a timeout. Four open known findings (F10 zero factor dropped by the sign split; product vs zero ignores factor sign; unsolved line dropped; redundant equation gives an over-determined solved form); the opposed-lines defect found by this check was repaired (8064a4c).",
   design="DESIGN.md section 5, C12"),
 'C13': dict(
   technique="property-based testing (Hypothesis @given): generated isolated-form relations (expression trees rendered under several naming schemes) compiled with generate_constraint(generate_solvers(...)); oracle = the harness's tree interpreter evaluated at the returned vector",
   text="A relation x_i <cmp> f(x_others) for all seven comparators, f from an expression grammar (exactly-rounded operators where strictness/equality is asserted, transcendental functions elsewhere), inputs as list and ndarray incl. exactly-on-the-boundary, one ulp either side and magnitudes to 1e15: the relation must hold at the output (strictly for < > !=), other coordinates must be bit-unchanged, feasible input (beyond the documented strictness tolerance) must be returned unchanged; systems of 2-4 relations with independent left-hand variables (and_/or_ joins) must hold jointly; boundsconstrain (symbolic and impose_bounds based, None/inf sides, pinned coordinates, no finite bound) must equal clip(x, min, max) and be the identity inside. Exploration only.",
   note="Trusted: the tree interpreter; the documented strictness tolerance mystic.math.tolerance (inputs within it may legitimately be moved). Two defects found by this check were repaired (no finite bound crashed; pinned coordinate left unbounded).",
   design="DESIGN.md section 5, C13"),
 'C14': dict(
   technique="property-based testing (Hypothesis @given): generated constraint texts (1-5 lines, any comparator, >= 10 variables, named variables, locals) compiled with generate_conditions / generate_penalty; oracle = lhs - rhs from the harness's tree interpreter and the documented penalty sum; round trip penalty(constraint(x)) == 0",
   text="Each generated condition function must equal lhs - rhs oriented so that <= 0 means satisfied (within the documented strictness tolerance for strict comparators), equalities must be 0 exactly when lhs == rhs; generate_penalty(...)(x) must equal the documented sum of per-line terms (k*h^n*f^2, factor 2 and max(0, .) for inequality types, every penalty type and join), be zero exactly where every line is satisfied and positive elsewhere; for isolated-form texts the constraint generated from the same text must drive the penalty to exactly zero. Exploration only.",
   note="Trusted: the tree interpreter, mystic.penalty formulas (C15's subject), the documented strictness tolerance band.",
   design="DESIGN.md section 5, C14"),
}

NOT_APPLICABLE = {}

def main():
    checks = []
    for pid in ALL:
        if pid not in CHECKS:
            continue
        c = CHECKS[pid]
        checks.append({
            'property_id': pid,
            'quick_cmd': './check %s --tier quick' % pid,
            'thorough_cmd': './check %s --tier thorough' % pid,
            'evidence_file': 'evidence/%s.json' % pid,
            'replay_cmd_template': './check %s --replay {path}' % pid,
            'engine': 'hypothesis',
            'level_claimed': {'category': 'exploration', 'text': c['text'], 'design_ref': c['design']},
            'level_note': c['note'],
            'technique': c['technique'],
        })
    na = [{'property_id': p, 'reason': NOT_APPLICABLE.get(p, 'check not built yet in this session (planned: DESIGN.md section 5); not claimed until it exists')}
          for p in ALL if p not in CHECKS]
    m = {
        'version': 1,
        'setup_cmd': 'sh ./setup.sh',
        'hooks': {'guard': 'MYSTIC_VERIF', 'enable': 'no hooks are needed: every property is observable through the public API (the harness supplies cost functions, maps, monitors)',
                  'baseline_off_cmd': 'cd /repo && /venv/bin/python -m pytest -ra -q -p no:cacheprovider --timeout=900 --continue-on-collection-errors',
                  'source_commits': [], 'add_only': True},
        'engines': [{'name': 'hypothesis', 'path': 'vp/runner.py', 'serves_properties': [c['property_id'] for c in checks],
                     'kind_free_text': 'Hypothesis 6.168 (@given strategies and RuleBasedStateMachine), sharded over 16 processes, seeded from VERIF_SEED; replay files bypass Hypothesis'}],
        'checks': checks,
        'notes': 'Exit codes: 0 held / 1 VIOLATION / 2 harness error. known_findings.json lists genuine defects (open ones print KNOWN-FINDING lines, fixed ones suppress nothing). See DESIGN.md.',
        'not_applicable': na,
    }
    with open(os.path.join(VERIF, 'MANIFEST.json'), 'w') as fh:
        json.dump(m, fh, indent=1)
    print('MANIFEST.json: %d checks, %d not claimed' % (len(checks), len(na)))

if __name__ == '__main__':
    main()
