#!/venv/bin/python
"""regenerate MANIFEST.json from the table below (keeps the file valid and consistent)"""
import json, os
VERIF = os.path.dirname(os.path.dirname(os.path.abspath(__file__)))
ALL = ['C%02d' % i for i in range(1, 21)]

CHECKS = {
 'C10': dict(
   technique="property-based testing (Hypothesis @given): generated fake solver states x generated And/Or/When trees, checked against the documented inequalities evaluated directly and recursive all/any",
   text="Generated-input search: every built-in condition is compared with its documented inequality (three-valued oracle; undecided inf-inf cases excluded and counted) on generated histories incl. plateaus, ties, +-inf, windows 0/None/longer than the history and tolerances exactly on the boundary; And/Or/When trees to depth 4 are compared with recursive all/any, info strings must name exactly satisfied leaves, and every leaf is rebuilt from type()/state() and must behave identically. Exploration only: held on all generated cases, no proof of absence.",
   note="Trusted: the harness's reading of each docstring inequality (Python indexing for cost[-g], 'history longer than g' window rule, x-x=0 also for +-inf); numpy; TimeLimits only at 0 s/1e9 s.",
   design="DESIGN.md section 5, C10"),
}

NOT_APPLICABLE = {}

def main():
    checks = []
    for pid in ALL:
        if pid not in CHECKS:
            continue
        c = CHECKS[pid]
        checks.append({
            'property_id': pid,
            'quick_cmd': './check %s --tier quick' % pid,
            'thorough_cmd': './check %s --tier thorough' % pid,
            'evidence_file': 'evidence/%s.json' % pid,
            'replay_cmd_template': './check %s --replay {path}' % pid,
            'engine': 'hypothesis',
            'level_claimed': {'category': 'exploration', 'text': c['text'], 'design_ref': c['design']},
            'level_note': c['note'],
            'technique': c['technique'],
        })
    na = [{'property_id': p, 'reason': NOT_APPLICABLE.get(p, 'check not built yet in this session (planned: DESIGN.md section 5); not claimed until it exists')}
          for p in ALL if p not in CHECKS]
    m = {
        'version': 1,
        'setup_cmd': 'sh ./setup.sh',
        'hooks': {'guard': 'MYSTIC_VERIF', 'enable': 'no hooks are needed: every property is observable through the public API (the harness supplies cost functions, maps, monitors)',
                  'baseline_off_cmd': 'cd /repo && /venv/bin/python -m pytest -ra -q -p no:cacheprovider --timeout=900 --continue-on-collection-errors',
                  'source_commits': [], 'add_only': True},
        'engines': [{'name': 'hypothesis', 'path': 'vp/runner.py', 'serves_properties': [c['property_id'] for c in checks],
                     'kind_free_text': 'Hypothesis 6.168 (@given strategies and RuleBasedStateMachine), sharded over 16 processes, seeded from VERIF_SEED; replay files bypass Hypothesis'}],
        'checks': checks,
        'notes': 'Exit codes: 0 held / 1 VIOLATION / 2 harness error. known_findings.json lists genuine defects (open ones print KNOWN-FINDING lines, fixed ones suppress nothing). See DESIGN.md.',
        'not_applicable': na,
    }
    with open(os.path.join(VERIF, 'MANIFEST.json'), 'w') as fh:
        json.dump(m, fh, indent=1)
    print('MANIFEST.json: %d checks, %d not claimed' % (len(checks), len(na)))

if __name__ == '__main__':
    main()
