#!/usr/bin/env python3
"""fold my own confirmation (verify.json, written by tools/seedverify.sh) and the detection result (detect.json, written by
tools/seedmatrix.sh) into each seeded/<name>/meta.json, and print the markdown table used in DESIGN.md section 11.3"""
import json, os, glob
V = os.path.dirname(os.path.dirname(os.path.abspath(__file__)))
rows = []
for d in sorted(glob.glob(os.path.join(V, 'seeded', '*'))):
    mp = os.path.join(d, 'meta.json')
    if not os.path.exists(mp):
        continue
    m = json.load(open(mp))
    for key, fn in (('confirmation', 'verify.json'), ('detected_by', 'detect.json'), ('detected_by_seed2', 'detect-s2.json')):
        p = os.path.join(d, fn)
        if os.path.exists(p):
            try:
                m[key] = json.load(open(p))
            except Exception:
                pass
    m.setdefault('what_i_ran', 'tools/seedverify.sh (scratch git worktree of /repo: demo on the clean tree, demo with the patch, '
                 'pinned suite with the patch) and tools/seedmatrix.sh (quick tier of the property\'s check against a patched copy)')
    json.dump(m, open(mp, 'w'), indent=1)
    c = m.get('confirmation', {}); det = m.get('detected_by', {})
    ok = c.get('demo_exit_clean') == 0 and c.get('demo_exit_patched') == 1 and c.get('baseline_missing') == 0
    rows.append('| %s | %s | %s | %s | %s |' % (
        os.path.basename(d), m.get('property', ''), (m.get('summary', '') or '')[:170].replace('|', '/'),
        'yes' if ok else ('?' if not c else 'NO %s' % c),
        (('%s (case #%s of its shard)' % (det.get('subcheck'), det.get('after_cases'))) if det.get('exit') == 1 else ('MISSED' if det else '?'))
        + ((' ; seed 2: ' + (m['detected_by_seed2'].get('subcheck') if m['detected_by_seed2'].get('exit') == 1 else 'MISSED')) if m.get('detected_by_seed2') else '')))
print('| seeded change | property | what was changed | confirmed (demo fails/passes, suite green) | caught by (quick tier) |')
print('|---|---|---|---|---|')
print('\n'.join(rows))
