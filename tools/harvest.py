#!/venv/bin/python
"""harvest a shrunk failing input for one finding:
   tools/harvest.py PROP OUTNAME --pred k_function [--ignore known_id] [--repo /tmp/x] [--only test] [--seed n]
runs the check (optionally against another repo copy / with one open finding un-ignored), looks through the
violation replays it wrote for one whose (case, subcheck, detail) satisfies the module-level predicate, keeps it as
replays/PROP/OUTNAME.json and deletes the other viol-* files."""
import sys, os, json, glob, subprocess, importlib, argparse
VERIF = os.path.dirname(os.path.dirname(os.path.abspath(__file__)))
sys.path.insert(0, VERIF); sys.path.insert(0, '/repo')
ap = argparse.ArgumentParser()
ap.add_argument('prop'); ap.add_argument('out'); ap.add_argument('--pred', required=True)
ap.add_argument('--ignore', default=''); ap.add_argument('--repo', default=None); ap.add_argument('--only', default=None)
ap.add_argument('--seed', default='1'); ap.add_argument('--scale', default='1')
a = ap.parse_args()
env = dict(os.environ, VERIF_SEED=a.seed)
if a.ignore: env['VP_IGNORE_KNOWN'] = a.ignore
if a.repo: env['VERIF_REPO'] = a.repo
for f in glob.glob(os.path.join(VERIF, 'replays', a.prop, 'viol-*.json')): os.unlink(f)
cmd = ['./check', a.prop, '--no-evidence', '--scale', a.scale] + (['--only', a.only] if a.only else [])
subprocess.run(cmd, cwd=VERIF, env=env, stdout=subprocess.DEVNULL, stderr=subprocess.DEVNULL)
mod = importlib.import_module('vp.props.%s' % a.prop.lower())
pred = getattr(mod, a.pred)
best = None
for f in sorted(glob.glob(os.path.join(VERIF, 'replays', a.prop, 'viol-*.json'))):
    d = json.load(open(f))
    try: ok = pred(d['case'], d['subcheck'], d['detail'])
    except Exception: ok = False
    if ok and (best is None or len(json.dumps(d['case'])) < len(json.dumps(best[1]['case']))):
        best = (f, d)
if best:
    d = best[1]; d['detail'] = {'note': 'harvested input for %s' % a.out, 'observed': d['detail']}
    json.dump(d, open(os.path.join(VERIF, 'replays', a.prop, a.out + '.json'), 'w'), indent=1, sort_keys=True)
    print('kept', a.out, d['subcheck'], json.dumps(d['case'])[:160])
else:
    print('NOTHING matched', a.pred)
for f in glob.glob(os.path.join(VERIF, 'replays', a.prop, 'viol-*.json')): os.unlink(f)
